"""Constructed models (C15): every subset of optional arguments of every from_value constructor, in-domain
values, assembled alone and into files; oracle: the constructed tree satisfies the structural invariant, prints
to text the real parser accepts (as the model's own type and inside a File), and the re-parsed model has the
same public structure (fields, values, nesting, order; attribution of block comments and zero-width private
marks aside)."""
from __future__ import annotations
import datetime, decimal, inspect, itertools
from autobean_refactor import models
import docs, edits, intro, session

D = decimal.Decimal


def val_for(r, cls, name, present):
    """In-domain value for parameter `name` of cls.from_value."""
    n = name
    if n == 'date':
        return datetime.date(r.randrange(1, 9999), r.randrange(1, 13), r.randrange(1, 29))
    if n in ('account', 'source_account'):
        return r.choice(docs.ACCOUNTS)
    if n == 'currency':
        if cls in (models.CostSpec, models.UnitPrice, models.TotalPrice, models.Posting) and not present:
            return None
        return r.choice(docs.CURRENCIES)
    if n == 'currencies':
        return r.sample(docs.CURRENCIES, r.choice([1, 2, 3])) if present else []
    if n in ('number', 'number_per', 'number_total', 'tolerance', 'value') and cls not in (models.MetaItem, models.Pushmeta, models.Option):
        if not present and n != 'value':
            return None
        return D(r.choice(['1', '-2.50', '0', '1000', '0.001', '-7', '1E+2', '3.10']))
    if n == 'value' and cls in (models.MetaItem, models.Pushmeta):
        return edits.build_value(edits.gen_meta_value(r), None)
    if n == 'value' and cls is models.Option:
        return r.choice(docs.STRINGS)
    if n in ('type', 'description', 'name', 'query_string', 'filename', 'comment', 'config', 'booking', 'label'):
        if not present and n in ('config', 'booking', 'label'):
            return None
        return r.choice(docs.STRINGS)
    if n == 'key':
        return r.choice(docs.STRINGS) if cls is models.Option else r.choice(docs.KEYS)
    if n == 'tag':
        return r.choice(docs.TAGS)
    if n in ('tags', 'links'):
        return r.sample(docs.TAGS, r.choice([1, 2])) if present else []
    if n in ('payee', 'narration'):
        return r.choice(docs.STRINGS) if present else None
    if n == 'flag':
        if cls is models.Transaction:
            return r.choice(['*', '!', 'P']) if present else '*'
        return r.choice('*!&?%') if present else None
    if n == 'indent':
        return r.choice(['  ', '    ', '\t']) if present else '    '
    if n == 'indent_by':
        return r.choice(['  ', '\t', ' ']) if present else '    '
    if n in ('leading_comment', 'trailing_comment'):
        return r.choice(['c', 'two\nlines', '', 'a\n \nb', ' ', 'x\n\t\ny', 'tail\n']) if present else None
    if n == 'inline_comment':
        return r.choice(['x', '', 'a;b', 'padded  ', 'x\t', '\tleading tab']) if present else None
    if n == 'meta':
        if not present:
            return None
        return {k: edits.build_value(edits.gen_meta_value(r), None) for k in r.sample(docs.KEYS, r.choice([1, 2]))}
    if n == 'cost':
        return edits.build_value(edits.gen_value_for(r, models.CostSpec), None) if present else None
    if n == 'price':
        return edits.build_value(edits.gen_value_for(r, r.choice([models.UnitPrice, models.TotalPrice])), None) if present else None
    if n == 'amount':
        return models.Amount.from_value(D(r.choice(['1', '-2.5'])), r.choice(docs.CURRENCIES))
    if n == 'merge':
        return bool(present)
    if n == 'postings':
        return [models.Posting.from_value(r.choice(docs.ACCOUNTS), D(r.choice(['1', '-1'])), 'USD') for _ in range(r.choice([0, 1, 2]) if present else 0)]
    if n == 'values':
        out = []
        prev_num = False
        for _ in range(r.choice([0, 1, 2, 3, 4]) if present else 0):
            c = r.choice(['s', 'd', 'b', 'n', 'a', 'acc', 'n', 'a', 'ne', 'ae'])
            if c == 'ae':
                # an amount whose number is an expression (signed, several terms)
                v = edits.P().parse(r.choice(['-2 - 1 USD', '+3 * 2 + 1 EUR', '(1 + 2) USD', '4 - 1 USD', '-(1) GBP']), models.Amount)
            elif c == 'ne':
                # a number given as an expression node (any shape the grammar allows, e.g. ending in a parenthesis)
                v = edits.P().parse(r.choice(['(1 + 2)', '2 * (1 + 3)', '10 / (2 + 3)', '-(4)', '7 - 2', '(3)', '+5 * 2', '-5 + 3', '-2 - 1', '+1 + 2 * 3', '- 4 * 2 - 1']), models.NumberExpr)
            else:
                v = {'s': r.choice(docs.STRINGS), 'd': datetime.date(2020, 1, 2), 'b': r.random() < 0.5,
                     'n': D(r.choice(['1', '-2', '3.5', '-0.5'])), 'a': models.Amount.from_value(D(r.choice(['1', '-4'])), 'USD'),
                     'acc': models.Account.from_value(r.choice(docs.ACCOUNTS))}[c]
            out.append(v)
            prev_num = c == 'n'
        return out
    if n == 'directives':
        return []
    raise KeyError(n)


# parameters that are "optional parts" (their presence is toggled); everything else always gets a value
def toggles(cls, sig):
    out = []
    for n, p in sig.parameters.items():
        ann = str(p.annotation)
        if p.default is not inspect.Parameter.empty or 'Optional' in ann:
            out.append(n)
        elif n in ('values', 'postings'):
            out.append(n)
    return out


def construct_cases(r, cls, max_subsets):
    sig = inspect.signature(cls.from_value)
    tg = toggles(cls, sig)
    subsets = list(itertools.product([False, True], repeat=len(tg)))
    if len(subsets) > max_subsets:
        subsets = [subsets[0], subsets[-1]] + r.sample(subsets[1:-1], max_subsets - 2)
    for sub in subsets:
        present = dict(zip(tg, sub))
        yield present, sig


def build(r, cls, present, sig):
    args = {}
    for n in sig.parameters:
        args[n] = val_for(r, cls, n, present.get(n, True))
    # documented rejections: a cost with both numbers needs a currency
    if cls is models.CostSpec and args['number_per'] is not None and args['number_total'] is not None and args['currency'] is None:
        args['currency'] = 'USD'
    if cls is models.CompoundAmount:
        pass
    return args


def describe(args):
    def d(v):
        if isinstance(v, (str, int, bool, type(None))):
            return v
        if isinstance(v, (D, datetime.date)):
            return str(v)
        if isinstance(v, (list, tuple)):
            return [d(x) for x in v]
        if isinstance(v, dict):
            return {k: d(x) for k, x in v.items()}
        try:
            return f'<{type(v).__name__} {intro.pr(v)!r}>'
        except Exception:
            return f'<{type(v).__name__}>'
    return {k: d(v) for k, v in args.items()}


def custom_known_pattern(m):
    """The documented custom.values limitation (number starting with a unary sign after a number)."""
    if not isinstance(m, models.Custom):
        return False
    prev = None
    for v in m.raw_values:
        n = v.raw_number if isinstance(v, models.Amount) else (v if isinstance(v, models.NumberExpr) else None)
        if isinstance(prev, models.NumberExpr) and n is not None and type(n.first_token).__name__ == 'UnaryOp':
            return True
        prev = v
    return False


def check_one(cls, m, where):
    """Returns list of (sig, what)."""
    out = []
    bad = intro.check_inv(m)
    if bad:
        out.append((f'C15:inv:{bad[0][0]}:{cls.__name__}', bad[0][1]))
    st = list(m.token_store)
    if st and (m.first_token is not st[0] or m.last_token is not st[-1]):
        out.append((f'C15:not-whole-store:{cls.__name__}', 'constructed model does not span its whole store'))
    text = intro.pr(m)
    try:
        again = edits.P().parse(text, cls, auto_claim_comments=True)
    except Exception as e:
        out.append((f'C15:does-not-parse:{cls.__name__}', f'{type(e).__name__} on {text!r}'))
        return out
    # inline comments exactly (a constructed model has no blanks after the comment that could be taken for part of it)
    ia = [t.value for t in m.token_store if isinstance(t, models.InlineComment)]
    ib = [t.value for t in again.token_store if isinstance(t, models.InlineComment)]
    if ia != ib:
        out.append((f'C15:reparse-inline-comment:{cls.__name__}', f'inline comments {ia!r} re-read as {ib!r} text={text!r}'))
        return out
    a, b = session.reparse_struct(m), session.reparse_struct(again)
    if a != b:
        out.append((f'C15:reparse-differs:{cls.__name__}', f'{intro.struct_diff(a, b)} text={text!r}'))
    elif session.comment_values(m) != session.comment_values(again):
        out.append((f'C15:reparse-comment-values:{cls.__name__}', f'{session.comment_values(m)!r} != {session.comment_values(again)!r} text={text!r}'))
    return out


def run(ctx, per_class_subsets, draws):
    r = ctx.rng
    directives = []
    for rule, cls in models.TREE_MODELS.items():
        if not hasattr(cls, 'from_value') or cls is models.File:
            continue
        for present, sig in construct_cases(r, cls, per_class_subsets):
            # value sequences of custom entries are a language of their own (disambiguation of adjacent numbers): more draws
            for _ in range(draws * 25 if cls is models.Custom and present.get('values') else draws):
                args = build(r, cls, present, sig)
                desc = describe(args)
                try:
                    m = cls.from_value(**args)
                except Exception as e:
                    ctx.oracle_fail(f'C15:constructor-raises:{cls.__name__}:{type(e).__name__}', f'{e} args={desc}',
                                    {'cls': cls.__name__, 'args': desc})
                    continue
                ctx.case((cls.__name__, tuple(sorted(k for k, v in present.items() if v))),
                         sample={'cls': cls.__name__, 'args': desc, 'text': intro.pr(m)} if ctx.evaluations % 211 == 0 else None)
                ctx.count('construct:' + cls.__name__)
                fails = check_one(cls, m, 'alone')
                if fails and custom_known_pattern(m):
                    fails = [('C15:custom.values:number-after-number:unary', fails[0][1])]
                for s, w in fails[:1]:
                    ctx.oracle_fail(s, w, {'cls': cls.__name__, 'args': desc, 'text': intro.pr(m)})
                if not fails and cls.__name__ in DIRECTIVE_NAMES:
                    directives.append(m)
    # assembled into files
    r.shuffle(directives)
    for i in range(0, len(directives), 7):
        chunk = directives[i:i + 7]
        texts = [intro.pr(d) for d in chunk]
        try:
            f = models.File.from_value(chunk)
        except Exception as e:
            ctx.oracle_fail(f'C15:file-constructor-raises:{type(e).__name__}', str(e), {'cls': 'File', 'texts': texts})
            continue
        ctx.case(('File', len(chunk), tuple(sorted({type(d).__name__ for d in chunk}))))
        fails = check_one(models.File, f, 'file')
        for s, w in fails[:1]:
            ctx.oracle_fail(s, w, {'cls': 'File', 'texts': texts})


def _comment(r, via, indent):
    text = r.choice(['note', 'two\nlines', 'x  y'])
    if via == 'value':
        return models.BlockComment.from_value(text, indent=indent)
    raw = ''.join(f'{indent}; {line}\n' for line in text.split('\n'))[:-1]   # (uniform spacing: neighbouring blocks merge on re-parse)
    if via == 'raw':
        return models.BlockComment.from_raw_text(raw)
    return edits.P().parse_token(raw, models.BlockComment)


def run_children(ctx, n):
    """`from_children` with children built by the public token / model constructors, block comments through EVERY one of
    them (from_value, from_raw_text, parse_token) as leading / trailing comments and as standalone entries: the constructed
    tree is judged like every other one, plus the ownership census (owned <=> claimed, one owner) and one auto_claim pass
    that must change nothing."""
    import commentsx
    r = ctx.rng
    D = decimal.Decimal
    for _ in range(n):
        vias = [r.choice(['value', 'raw', 'token']) for _ in range(6)]
        ind = r.choice(['  ', '    ', '\t'])
        date = lambda: models.Date.from_value(datetime.date(2000 + r.randrange(20), 1 + r.randrange(12), 1 + r.randrange(28)))
        acc = lambda: models.Account.from_value(r.choice(docs.ACCOUNTS))
        opt = lambda f: f() if r.random() < 0.6 else None
        meta_item = lambda i: models.MetaItem.from_children(
            models.MetaKey.from_value(r.choice(docs.KEYS)), models.EscapedString.from_value('v'), indent=models.Indent.from_value(i),
            leading_comment=opt(lambda: _comment(r, vias[0], i)), trailing_comment=opt(lambda: _comment(r, vias[1], i)))
        posting = lambda: models.Posting.from_children(
            acc(), models.NumberExpr.from_value(D('1.5')), models.Currency.from_value('USD'), indent=models.Indent.from_value(ind),
            leading_comment=opt(lambda: _comment(r, vias[2], ind)), trailing_comment=opt(lambda: _comment(r, vias[3], ind)),
            meta=[x for x in (opt(lambda: _comment(r, vias[4], ind + '  ')), meta_item(ind + '  ')) if x is not None])
        kind = r.choice(['close', 'txn', 'txn'])
        try:
            if kind == 'close':
                d = models.Close.from_children(date(), acc(), leading_comment=opt(lambda: _comment(r, vias[2], '')),
                                               trailing_comment=opt(lambda: _comment(r, vias[3], '')),
                                               meta=[x for x in (opt(lambda: _comment(r, vias[4], ind)), meta_item(ind)) if x is not None])
            else:
                posts = [posting() for _ in range(r.choice([1, 2]))]
                if r.random() < 0.4:
                    posts.insert(r.randrange(len(posts) + 1), _comment(r, vias[5], ind))
                d = models.Transaction.from_children(date(), models.TransactionFlag.from_value('*'), None, models.EscapedString.from_value('n'), posts,
                                                     leading_comment=opt(lambda: _comment(r, vias[0], '')), trailing_comment=opt(lambda: _comment(r, vias[1], '')))
            items = [d]
            if r.random() < 0.5:
                items.insert(r.randrange(2), _comment(r, vias[5], ''))
            f = models.File.from_children(items)
        except Exception as e:
            ctx.oracle_fail(f'C15:from_children-raises:{kind}:{type(e).__name__}', str(e)[:200], {'cls': kind, 'vias': vias})
            continue
        ctx.case(('from_children', kind, tuple(sorted(set(vias)))))
        ctx.count('from_children:' + kind)
        rep = {'cls': 'File', 'kind': 'from_children', 'vias': vias, 'text': intro.pr(f)}
        fails = check_one(models.File, f, 'children')
        if not fails:
            bad = commentsx.check_census(f)
            if bad:
                fails = [(f'C15:census:{bad[0][0]}', bad[0][1] + ' (constructed tree)')]
        if not fails:
            before = commentsx.census_key(f)
            text = intro.pr(f)
            f.auto_claim_comments()
            if commentsx.census_key(f) != before or intro.pr(f) != text:
                fails = [('C15:auto-claim-changes-constructed-tree', 'auto_claim_comments() on a freshly constructed tree changed the attribution or the text')]
        for s_, w in fails[:1]:
            ctx.oracle_fail(s_, w, rep)


def run_expr_children(ctx):
    """The hand-written constructors of the expression layers: NumberMulExpr.from_children / NumberAddExpr.from_children
    with 1..4 operands and every operator combination, alone and wrapped into NumberExpr -> Amount -> Posting ->
    Transaction -> File.  Judged like every constructed tree (invariant, whole store, re-parse), plus: the store holds
    every token object once, walking it with get_next from the first token visits the printing order, and one spacing
    assignment next to the first operator changes exactly that gap."""
    import itertools
    D = decimal.Decimal
    num = lambda i: models.Number.from_value(D(i + 2))
    for layer, ops_txt in (('mul', '*/'), ('add', '+-')):
        for n in (1, 2, 3, 4):
            for ops in itertools.product(ops_txt, repeat=n - 1):
                for wrap in ('alone', 'file'):
                    rep = {'cls': 'expr-' + layer, 'ops': list(ops), 'wrap': wrap}
                    try:
                        if layer == 'mul':
                            e = models.NumberMulExpr.from_children(tuple(num(i) for i in range(n)), tuple(models.MulOp.from_raw_text(o) for o in ops))
                            top = e
                        else:
                            e = models.NumberAddExpr.from_children(
                                tuple(models.NumberMulExpr.from_children((num(i),), ()) for i in range(n)), tuple(models.AddOp.from_raw_text(o) for o in ops))
                            top = e
                        if layer == 'mul':
                            e = models.NumberAddExpr.from_children((e,), ())
                        ne = top = models.NumberExpr.from_children(e)
                        cls = models.NumberExpr
                        if wrap == 'file':
                            post = models.Posting.from_children(models.Account.from_value('Assets:A'), ne, models.Currency.from_value('USD'),
                                                                indent=models.Indent.from_value('  '))
                            txn = models.Transaction.from_children(models.Date.from_value(datetime.date(2000, 1, 1)), models.TransactionFlag.from_value('*'),
                                                                   None, None, [post])
                            top = models.File.from_children([txn])
                            cls = models.File
                    except Exception as ex:
                        ctx.oracle_fail(f'C15:from_children-raises:expr-{layer}:{type(ex).__name__}', str(ex)[:200], rep)
                        continue
                    ctx.case(('expr-children', layer, n, ops, wrap))
                    fails = check_one(cls, top, 'expr')
                    toks = list(top.token_store)
                    if not fails and len({id(t) for t in toks}) != len(toks):
                        fails = [(f'C15:token-object-twice:{layer}', f'{intro.pr(top)!r}: one token object sits at several places of the constructed store')]
                    if not fails:
                        walk, t = [], top.token_store.get_first()
                        while t is not None and len(walk) <= len(toks):
                            walk.append(t)
                            t = top.token_store.get_next(t)
                        if [id(x) for x in walk] != [id(x) for x in toks]:
                            fails = [(f'C15:walk-differs:{layer}', f'{intro.pr(top)!r}: walking the store with get_next does not visit the printing order')]
                    if not fails and n > 1:
                        inner = ne.raw_number_add_expr if layer == 'add' else ne.raw_number_add_expr.raw_operands[0]
                        before = intro.pr(top)
                        eb = intro.pr(ne)
                        leaf = inner.raw_operands[0] if layer == 'mul' else inner.raw_operands[0].raw_operands[0]
                        leaf.spacing_after = '   '
                        want = before.replace(eb, eb.replace(' ' + ops[0], '   ' + ops[0], 1), 1)
                        if intro.pr(top) != want:
                            fails = [(f'C15:spacing-after-first-operand:{layer}', f'{before!r} -> {intro.pr(top)!r}, expected {want!r}')]
                    for s_, w in fails[:1]:
                        ctx.oracle_fail(s_, w, rep)


DIRECTIVE_NAMES = {'Balance', 'Close', 'Commodity', 'Custom', 'Document', 'Event', 'Include', 'Note', 'Open', 'Option', 'Pad',
                   'Plugin', 'Popmeta', 'Poptag', 'Price', 'Pushmeta', 'Pushtag', 'Query', 'Transaction'}
