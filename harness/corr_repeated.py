"""Lock-step correspondence (with resync) between the real slot / repeated-field code and the Lean models
`Model/Slots.lean`, `Model/Repeated.lean` (driver prefix `R`, see lean/Driver/RepeatedD.lean).

For every op of kind opt-set / req-set (generated models) and rep-* (raw RepeatedNodeWrapper) the observer dumps
the real pre-state as the model's input before the call and the real post-state in the driver's output format
after the call; `finish` sends all lines to the driver in ONE batch and reports every differing line through
`ctx.divergence('repeated-lockstep', ...)`.

Canonicalisation: token identity -> small ints in order of first appearance (document store in order, then the
tokens of the free-standing donors); tokens unknown before the call (separator copies) print `N`; token class ->
small int (stable within a batch); exceptions -> `edits.exc_tag`.

The observer never raises into the session: every error is counted as `observer-error`.
"""
from __future__ import annotations
import collections
from autobean_refactor import models
from autobean_refactor.models import base, internal
from autobean_refactor.models.internal import properties as _props
from autobean_refactor.models.internal import fields as _fields
from common import enc_text
import edits
import intro

STREAM = 'repeated-lockstep'
REP_KINDS = {
    'rep-append': 'append', 'rep-insert': 'insert', 'rep-copy-insert': 'insert', 'rep-pop': 'pop',
    'rep-setitem': 'setitem', 'rep-setslice': 'setslice', 'rep-delitem': 'delitem', 'rep-delslice': 'delslice',
    'rep-extend': 'extend', 'rep-clear': 'clear', 'rep-dropmany': 'dropmanypub',
}
_KINDS: dict = {}


def _batch(v, prepared):
    """The nodes of a batch argument WITHOUT walking a one-shot iterable (the real call must still find it unconsumed)."""
    return list(v) if isinstance(v, (list, tuple)) else list(prepared.get('batch_items', []))


class Skip(Exception):
    """The op cannot be expressed in the driver protocol (counted, not judged)."""


def _kind(t) -> int:
    n = type(t).__name__
    k = _KINDS.get(n)
    if k is None:
        k = _KINDS[n] = len(_KINDS) + 1
    return k


_TEXTS: dict = {}


def _enc_text(s: str) -> str:
    r = _TEXTS.get(s)
    if r is None:
        r = enc_text(s)
        if len(_TEXTS) < 100000:
            _TEXTS[s] = r
    return r


def _enc_tok(t, ids, *, fresh_ok=False) -> str:
    i = ids.get(id(t))
    if i is None:
        if not fresh_ok:
            i = ids[id(t)] = len(ids) + 1
        else:
            return f'N:{_kind(t)}:{_enc_text(t.raw_text)}'
    return f'{i}:{_kind(t)}:{_enc_text(t.raw_text)}'


def _enc_toks(ts, ids, *, fresh_ok=False) -> str:
    return ','.join(_enc_tok(t, ids, fresh_ok=fresh_ok) for t in ts) if ts else '-'


def _enc_templates(ts) -> str:
    return ','.join(f'0:{_kind(t)}:{_enc_text(t.raw_text)}' for t in ts) if ts else '-'


def _enc_int(i) -> str:
    return 'N' if i is None else str(int(i))


def _value_tokens(v, doc_store):
    """Tokens `v.detach()` would hand over, or None when `detach()` / `_check_reusable` refuse the value."""
    if isinstance(v, base.RawTokenModel):
        if v.store_handle is None:
            return [v]
        st = v.token_store
        if st is doc_store or st.get_first() is not v or st.get_last() is not v:
            return None
        return [v]
    if not isinstance(v, base.RawModel):
        raise Skip('value-not-a-model')
    st = v.token_store
    if st is None or len(st) == 0:
        raise Skip('value-without-tokens')
    if st is doc_store or v.first_token is not st.get_first() or v.last_token is not st.get_last():
        return None
    toks = list(st)
    if toks != v.tokens:
        raise Skip('value-tokens-differ')
    return toks


def _enc_values(vs, ids, doc_store) -> str:
    seen = set()
    out = []
    for v in vs:
        toks = None if id(v) in seen else _value_tokens(v, doc_store)
        seen.add(id(v))
        out.append('A' if toks is None else _enc_toks(toks, ids))
    return '/'.join(out) if out else '-'


def _find_descriptor(cls, name):
    for k in cls.__mro__:
        if name in k.__dict__:
            return k.__dict__[name]
    return None



def _canonical_pivot(pm, fld, left):
    """The insertion point the schema prescribes (Model/Schema.lean `canonicalChain`), computed from the CURRENT
    fields independently of the library's own `_x_pivot` property: the nearest preceding (left) / following
    (right) field that is present - required and repeated fields always are - gives its last / first token.
    Presence is `is not None` (a token object is present whatever its truth value)."""
    fields = intro.class_fields(type(pm))
    names = [f[0] for f in fields]
    k = next(i for i, f in enumerate(fields) if f[3] is fld)
    order = range(k - 1, -1, -1) if left else range(k + 1, len(fields))
    for i in order:
        name, kind, _, _ = fields[i]
        v = pm.__dict__.get(name)
        if v is None:
            continue
        return v.last_token if left else v.first_token
    raise Skip('no-pivot')

class Observer:
    def __init__(self, stream=STREAM):
        self.stream = stream
        self.pending = []          # (line, expect, replay, kind)
        self.cur = None
        self._keep = None
        self.counts = collections.Counter()

    # ---- session hooks -------------------------------------------------------------------------------
    def before(self, root, op, prepared, replay_so_far):
        self.cur = None
        try:
            cur = self._before(root, op, prepared)
            if cur is not None:
                cur['replay'] = {'text': replay_so_far['text'], 'auto_claim': replay_so_far['auto_claim'],
                                 'ops': list(replay_so_far['ops'])}
                self.cur = cur
        except Skip as e:
            self.counts[f'corr:skipped:{op.get("kind")}:{e}'] += 1
        except Exception as e:
            self.counts[f'corr:observer-error:before:{type(e).__name__}'] += 1

    def after(self, root, op, prepared, res):
        cur, self.cur = self.cur, None
        if cur is None:
            self._keep = None
            return
        try:
            expect = self._after(cur, res)
            self._keep = None
            self.pending.append((cur['line'], expect, cur['replay'], op.get('kind')))
            self.counts[f'corr:observed:{cur["what"]}:{"ok" if res[0] == "ok" else res[1]}'] += 1
        except Exception as e:
            self.counts[f'corr:observer-error:after:{type(e).__name__}'] += 1

    def finish(self, ctx):
        for k, v in self.counts.items():
            ctx.count(k, v)
        self.counts.clear()
        pending, self.pending = self.pending, []
        if not pending:
            return
        try:
            outs = ctx.driver.run(['R ' + p[0] for p in pending])
        except Exception as e:
            ctx.count('corr:observer-error:driver')
            ctx.divergence(self.stream, {'driver': repr(e)[:500]}, pending[0][2])
            return
        ctx.extra['lockstep_lines'] = ctx.extra.get('lockstep_lines', 0) + len(pending)
        bad = 0
        for (line, expect, replay, kind), got in zip(pending, outs):
            if got != expect:
                bad += 1
                ctx.count(f'corr:mismatch:{kind}')
                ctx.divergence(self.stream, {'op': kind, 'line': 'R ' + line[:2000], 'model': got[:2000], 'real': expect[:2000],
                                             'first_difference': _first_diff(got, expect)}, replay)
        ctx.extra['lockstep_mismatches'] = ctx.extra.get('lockstep_mismatches', 0) + bad

    # ---- dumps ---------------------------------------------------------------------------------------
    def _before(self, root, op, prepared):
        kind = op.get('kind')
        if kind in ('opt-set', 'req-set'):
            return self._before_slot(op, prepared)
        if kind in REP_KINDS:
            return self._before_rep(op, prepared)
        if kind and kind.startswith('rep-'):
            raise Skip('compound')
        return None

    def _before_slot(self, op, prepared):
        pm = prepared['recv']
        if isinstance(pm, (base.RawTokenModel, models.NumberAddExpr, models.NumberMulExpr, internal.Repeated)):
            raise Skip('not-generated')
        desc = _find_descriptor(type(pm), op['attr'])
        value = prepared['val']
        store = pm.token_store
        toks = list(store)
        ids = {}
        self._keep = toks          # keep the pre-state tokens alive: id() of a freed token may be reused
        s_store = _enc_toks(toks, ids)
        if type(desc) is _props.required_node_property:
            cur = desc._inner_field.__get__(pm)
            if cur is value:
                raise Skip('replace-by-itself')
            line = f'replace {s_store} {ids[id(cur.first_token)]} {ids[id(cur.last_token)]} {_enc_values([value], ids, store)}'
            what = 'replace'
        elif type(desc) is _props.optional_node_property:
            fld = desc._inner_field
            cur = fld.__get__(pm)
            left = isinstance(fld, _fields.optional_left_field)
            if not left and not isinstance(fld, _fields.optional_right_field):
                raise Skip('unknown-field-kind')
            if cur is None and value is None:
                raise Skip('none-to-none')
            if cur is None:
                pivot = _canonical_pivot(pm, fld, left)
                what = 'create_left' if left else 'create_right'
                line = f'{what} {s_store} {ids[id(pivot)]} {_enc_templates(fld.separators)} {_enc_values([value], ids, store)}'
            elif value is None:
                pivot = _canonical_pivot(pm, fld, left)
                if left:
                    what = 'remove_left'
                    line = f'{what} {s_store} {ids[id(pivot)]} {ids[id(cur.last_token)]}'
                else:
                    what = 'remove_right'
                    line = f'{what} {s_store} {ids[id(pivot)]} {ids[id(cur.first_token)]}'
            else:
                if cur is value:
                    raise Skip('replace-by-itself')
                what = 'replace'
                line = f'replace {s_store} {ids[id(cur.first_token)]} {ids[id(cur.last_token)]} {_enc_values([value], ids, store)}'
        else:
            raise Skip('custom-descriptor')
        return {'line': line, 'ids': ids, 'store': store, 'wrapper': None, 'what': what}

    def _before_rep(self, op, prepared):
        recv = prepared['recv']
        w = getattr(recv, op['attr'])
        if not isinstance(w, _props.RepeatedNodeWrapper):
            raise Skip('not-a-raw-wrapper')
        rep = w._repeated
        store = rep.token_store
        ids = {}
        self._keep = list(store)   # keep the pre-state tokens alive: id() of a freed token may be reused
        s_store = _enc_toks(self._keep, ids)
        ph = ids[id(rep.placeholder)]
        items = ','.join(f'{ids[id(x.first_token)]}~{ids[id(x.last_token)]}' for x in rep.items) or '-'
        common = f'{s_store} {ph} {items} {_enc_templates(w._separators)} {_enc_templates(w._separators_before)}'
        m = REP_KINDS[op['kind']]
        args = prepared['args']
        val = prepared['val']
        if m == 'append':
            tail = _enc_values([args[0]], ids, store)
        elif m == 'insert':
            tail = f'{_enc_int(args[0])} {_enc_values([args[1]], ids, store)}'
        elif m == 'pop':
            tail = _enc_int(args[0]) if args else '-1'
        elif m == 'setitem':
            tail = f'{_enc_int(op["idx"])} {_enc_values([val], ids, store)}'
        elif m == 'setslice':
            _, a, b, k = op['idx']
            tail = f'{_enc_int(a)} {_enc_int(b)} {_enc_int(k)} {_enc_values(_batch(val, prepared), ids, store)}'
        elif m == 'delitem':
            tail = _enc_int(op['idx'])
        elif m == 'delslice':
            _, a, b, k = op['idx']
            tail = f'{_enc_int(a)} {_enc_int(b)} {_enc_int(k)}'
        elif m == 'extend':
            tail = _enc_values(_batch(args[0], prepared), ids, store)
        elif m == 'clear':
            tail = ''
        elif m == 'dropmanypub':
            tail = ','.join(str(int(i)) for i in args[0]) or '-'
        else:
            raise Skip('unknown-method')
        line = f'{m} {common} {tail}'.rstrip()
        return {'line': line, 'ids': ids, 'store': store, 'wrapper': w, 'what': m}

    def _after(self, cur, res):
        if res[0] != 'ok':
            return 'err ' + res[1]
        toks = list(cur['store'])
        s = _enc_toks(toks, cur['ids'], fresh_ok=True)
        w = cur['wrapper']
        if w is None:
            return f'ok {s} -'
        pos = {id(t): i for i, t in enumerate(toks)}
        items = ','.join(f'{pos.get(id(x.first_token), "?")}~{pos.get(id(x.last_token), "?")}' for x in w._repeated.items) or '-'
        return f'ok {s} {items}'


def _first_diff(a: str, b: str):
    wa, wb = a.split(' '), b.split(' ')
    if len(wa) != len(wb) or wa[0] != wb[0]:
        return {'model': a[:200], 'real': b[:200]}
    for k, (x, y) in enumerate(zip(wa, wb)):
        if x != y:
            xs, ys = x.split(','), y.split(',')
            for j, (p, q) in enumerate(zip(xs, ys)):
                if p != q:
                    return {'word': k, 'position': j, 'model': ','.join(xs[max(0, j - 2):j + 3]), 'real': ','.join(ys[max(0, j - 2):j + 3])}
            return {'word': k, 'model_len': len(xs), 'real_len': len(ys)}
    return None


# ---- exhaustive index / slice grid through the observer ---------------------------------------------------

def grid(ctx, observer=None):
    """Replays the slicegrid REGIMES (every (len, start, stop, step, #values) combination and every int index of
    insert / setitem / delitem / pop) through the observer, so that each one is diffed against the model."""
    import slicegrid
    import copy
    own = observer is None
    ob = Observer() if own else observer
    parsed = {}

    def one(text, op):
        try:
            # one normal parse per document, then the library's own deep copy for every op (4-8x cheaper than
            # re-parsing; the model is fed the dump of the object actually operated on)
            proto = parsed.get(text)
            if proto is None:
                proto = parsed[text] = edits.P().parse(text, models.File, auto_claim_comments=True)
            root = copy.deepcopy(proto)
            prepared = edits.prepare_op(root, op)
        except Exception:
            ctx.count('corr:grid:not-prepared')
            return
        ob.before(root, op, prepared, {'text': text, 'auto_claim': True, 'ops': [op]})
        res = edits.apply_prepared(root, op, prepared)
        ob.after(root, op, prepared, res)
        ctx.count('corr:grid:ops')

    for name, mk, path, attr, val in slicegrid.REGIMES:
        base_op = {'path': path, 'attr': attr, 'parent': path, 'field': attr}
        for n, idx, k in slicegrid.grid(ctx.thorough):
            text = mk(n)
            gi = getattr(grid, '_i', 0) + 1
            grid._i = gi
            one(text, {'k': 'setitem', 'kind': 'rep-setslice', 'idx': idx,
                       'val': {'t': 'list', 'items': [val(i) for i in range(k)], 'as': ('list', 'gen', 'tuple', 'iter')[gi % 4]}, **base_op})
            if k == 0:
                one(text, {'k': 'delitem', 'kind': 'rep-delslice', 'idx': idx, **base_op})
        for n in range(0, 4):
            text = mk(n)
            for i in range(-n - 2, n + 3):
                one(text, {'k': 'call', 'kind': 'rep-insert', 'm': 'insert', 'args': [{'t': 'lit', 'v': i}, val(0)], **base_op})
                one(text, {'k': 'setitem', 'kind': 'rep-setitem', 'idx': i, 'val': val(1), **base_op})
                one(text, {'k': 'delitem', 'kind': 'rep-delitem', 'idx': i, **base_op})
                one(text, {'k': 'call', 'kind': 'rep-pop', 'm': 'pop', 'args': [{'t': 'lit', 'v': i}], **base_op})
            one(text, {'k': 'call', 'kind': 'rep-append', 'm': 'append', 'args': [val(0)], **base_op})
            one(text, {'k': 'call', 'kind': 'rep-clear', 'm': 'clear', 'args': [], **base_op})
            for k in range(0, 4):
                one(text, {'k': 'call', 'kind': 'rep-extend', 'm': 'extend', 'args': [{'t': 'list', 'items': [val(i % 3) for i in range(k)]}], **base_op})
            # drop_many: every index list of length <= 2 over -n-1..n, plus a few longer ones (repeats, any order)
            rng_ = list(range(-n - 1, n + 1))
            lists = [[]] + [[i] for i in rng_] + [[i, j] for i in rng_ for j in rng_] + [[0, 0, 0], list(range(n))[::-1], list(range(-n, 0)), [n - 1, 0, -1, 0]]
            for idxs in lists:
                one(text, {'k': 'call', 'kind': 'rep-dropmany', 'm': 'drop_many', 'args': [{'t': 'lit', 'v': idxs}], **base_op})
    if own:
        ob.finish(ctx)
