"""Prints (markdown) the theorems of every property file and obligations module — used for DESIGN.md appendix."""
import sys
from pathlib import Path
sys.path.insert(0, str(Path(__file__).resolve().parent))
import common
L = common.LEAN / 'Autobean'
for d in ('Properties', 'Obligations'):
    for p in sorted((L / d).glob('*.lean')):
        names = common.list_theorems(p)
        print(f'* `{d}/{p.name}` ({len(names)}): ' + ', '.join('`' + n.split('.')[-1] + '`' for n in names))
