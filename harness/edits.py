"""The edit fuzzer shared by the tree-level checks (C03, C05, C06, C11, C19, ...).

An *op* is plain data (JSON-able) interpreted by `apply_op`, so that a failing history replays and shrinks.
Receiver paths are API paths (attribute names / integer indexes from the File root, see intro.resolve).

Value specs:
  {'t':'none'} | {'t':'lit','v':x} | {'t':'dec','v':'1.5'} | {'t':'date','v':[y,m,d]}
  {'t':'tok','cls':'Currency','v':'USD'}            T.from_value(v)
  {'t':'default','cls':'Asterisk'}                  T.from_default()
  {'t':'bc','v':'text','indent':'  '}               BlockComment.from_value
  {'t':'parse','cls':'CostSpec','text':'{1 USD}'}   Parser.parse(text, cls)
  {'t':'dir','text':'2000-01-01 open A:B\n'}        first directive of the parsed text (deep copy)
  {'t':'meta','k':'aa','v':<spec>,'indent':'  '}    MetaItem.from_value
  {'t':'posting','acc':..,'num':..,'cur':..,'indent':..}
  {'t':'ref','path':[...]}                          the node currently at that path (attached!)
  {'t':'copy','path':[...]}                         deep copy of the node at that path
  {'t':'list','items':[specs]}
"""
from __future__ import annotations
import copy
import datetime
import decimal
from autobean_refactor import models, parser as parser_lib
from autobean_refactor.models import base, internal
import intro
import docs

_PARSER = None


def P():
    global _PARSER
    if _PARSER is None:
        _PARSER = parser_lib.Parser()
    return _PARSER


TOKEN_DOMAINS = {
    'Date': lambda r: {'t': 'tok', 'cls': 'Date', 'v': {'t': 'date', 'v': [r.randrange(1, 9999), r.randrange(1, 13), r.randrange(1, 29)]}},
    'Account': lambda r: {'t': 'tok', 'cls': 'Account', 'v': {'t': 'lit', 'v': r.choice(docs.ACCOUNTS)}},
    'Currency': lambda r: {'t': 'tok', 'cls': 'Currency', 'v': {'t': 'lit', 'v': r.choice(docs.CURRENCIES)}},
    'EscapedString': lambda r: {'t': 'tok', 'cls': 'EscapedString', 'v': {'t': 'lit', 'v': r.choice(docs.STRINGS)}},
    'Tag': lambda r: {'t': 'tok', 'cls': 'Tag', 'v': {'t': 'lit', 'v': r.choice(docs.TAGS)}},
    'Link': lambda r: {'t': 'tok', 'cls': 'Link', 'v': {'t': 'lit', 'v': r.choice(docs.TAGS)}},
    'MetaKey': lambda r: {'t': 'tok', 'cls': 'MetaKey', 'v': {'t': 'lit', 'v': r.choice(docs.KEYS)}},
    'Bool': lambda r: {'t': 'tok', 'cls': 'Bool', 'v': {'t': 'lit', 'v': r.random() < 0.5}},
    'Null': lambda r: {'t': 'default', 'cls': 'Null'},
    'Asterisk': lambda r: {'t': 'default', 'cls': 'Asterisk'},
    'InlineComment': lambda r: {'t': 'tok', 'cls': 'InlineComment', 'v': {'t': 'lit', 'v': r.choice(['', 'note', 'x y', 'a;b'])}},
    'PostingFlag': lambda r: {'t': 'tok', 'cls': 'PostingFlag', 'v': {'t': 'lit', 'v': r.choice('*!&?%')}},
    'TransactionFlag': lambda r: {'t': 'tok', 'cls': 'TransactionFlag', 'v': {'t': 'lit', 'v': r.choice(['*', '!', 'P', '#'])}},
    'Indent': lambda r: {'t': 'tok', 'cls': 'Indent', 'v': {'t': 'lit', 'v': r.choice(['  ', '    ', '\t'])}},
}


def num_text(r):
    return docs._num(r)


def gen_value_for(r, ty, *, indent='    '):
    """A value spec producing a fresh free-standing node of class `ty`."""
    n = ty.__name__
    if n in TOKEN_DOMAINS:
        return TOKEN_DOMAINS[n](r)
    if n == 'BlockComment':
        return {'t': 'bc', 'v': r.choice(['c', 'two\nlines', '', 'x  y']), 'indent': indent}
    if n == 'NumberExpr':
        return {'t': 'parse', 'cls': 'NumberExpr', 'text': num_text(r)}
    if n == 'Amount':
        return {'t': 'parse', 'cls': 'Amount', 'text': f'{num_text(r)} {r.choice(docs.CURRENCIES)}'}
    if n == 'CompoundAmount':
        return {'t': 'parse', 'cls': 'CompoundAmount', 'text': r.choice([f'{num_text(r)} # {num_text(r)} USD', f'# {num_text(r)} EUR', f'{num_text(r)} # GBP'])}
    if n == 'CostSpec':
        return {'t': 'parse', 'cls': 'CostSpec', 'text': docs._cost(r)}
    if n == 'UnitPrice':
        return {'t': 'parse', 'cls': 'UnitPrice', 'text': '@' + r.choice(['', ' 1 USD', ' 2', ' EUR'])}
    if n == 'TotalPrice':
        return {'t': 'parse', 'cls': 'TotalPrice', 'text': '@@' + r.choice(['', ' 1 USD', ' 2', ' EUR'])}
    if n == 'Tolerance':
        return {'t': 'parse', 'cls': 'Tolerance', 'text': '~ ' + num_text(r)}
    if n in ('UnitCost', 'TotalCost'):
        body = r.choice(['', '1 USD', '1 USD, 2000-01-01', 'USD'])
        return {'t': 'parse', 'cls': n, 'text': ('{' + body + '}') if n == 'UnitCost' else ('{{' + body + '}}')}
    if n == 'MetaItem':
        return {'t': 'meta', 'k': r.choice(docs.KEYS), 'v': gen_meta_value(r), 'indent': indent}
    if n == 'Posting':
        return {'t': 'posting', 'acc': r.choice(docs.ACCOUNTS),
                'num': r.choice([None, '1', '-2.5', '10']), 'cur': r.choice([None, 'USD', 'EUR']), 'indent': indent}
    if n == 'NumberAddExpr':
        return {'t': 'addexpr', 'text': num_text(r)}
    if n == 'Number':
        return {'t': 'tok', 'cls': 'Number', 'v': {'t': 'dec', 'v': r.choice(['1', '2.50', '100'])}}
    if n in ('NumberParenExpr',):
        return {'t': 'parse', 'cls': n, 'text': '(' + num_text(r) + ')'}
    if n in ('NumberUnaryExpr',):
        return {'t': 'parse', 'cls': n, 'text': '-' + r.choice(['1', '(2+3)', '4.5'])}
    if getattr(ty, 'RULE', None) in models.TREE_MODELS and n not in ('File',):
        # a directive
        for _ in range(50):
            lines = docs.gen_directive(r, '\n')
            text = ''.join(lines)
            try:
                f = P().parse(text, models.File)
            except Exception:
                continue
            ds = list(f.raw_directives)
            if ds and type(ds[0]) is ty:
                return {'t': 'dir', 'text': text}
        return None
    if issubclass(ty, base.RawTokenModel) and hasattr(ty, 'from_default'):
        return {'t': 'default', 'cls': n}
    return None


def gen_meta_value(r):
    c = r.random()
    if c < 0.15:
        return {'t': 'none'}
    if c < 0.45:
        return {'t': 'lit', 'v': r.choice(docs.STRINGS)}
    if c < 0.6:
        return {'t': 'dec', 'v': r.choice(['1', '-2.5', '100.00'])}
    if c < 0.7:
        return {'t': 'date', 'v': [2020, r.randrange(1, 13), r.randrange(1, 29)]}
    if c < 0.8:
        return {'t': 'lit', 'v': r.random() < 0.5}
    return gen_value_for(r, r.choice([models.Account, models.Currency, models.Tag, models.Null, models.Amount]))


def build_value(spec, root):
    t = spec['t']
    if t == 'none':
        return None
    if t == 'lit':
        return spec['v']
    if t == 'dec':
        return decimal.Decimal(spec['v'])
    if t == 'date':
        return datetime.date(*spec['v'])
    if t == 'tok':
        return getattr(models, spec['cls']).from_value(build_value(spec['v'], root))
    if t == 'default':
        return getattr(models, spec['cls']).from_default()
    if t == 'bc':
        return models.BlockComment.from_value(spec['v'], indent=spec.get('indent', ''))
    if t == 'parse':
        return P().parse(spec['text'], getattr(models, spec['cls']))
    if t == 'addexpr':
        return P().parse(spec['text'], models.NumberExpr).raw_number_add_expr
    if t == 'dir':
        f = P().parse(spec['text'], models.File)
        return copy.deepcopy(list(f.raw_directives)[0])
    if t == 'meta':
        return models.MetaItem.from_value(spec['k'], build_value(spec['v'], root), indent=spec['indent'])
    if t == 'posting':
        return models.Posting.from_value(spec['acc'], decimal.Decimal(spec['num']) if spec['num'] is not None else None,
                                         spec['cur'], indent=spec['indent'])
    if t == 'tok-at':
        toks = list(root.token_store)
        if spec['i'] >= len(toks):
            raise DonorError('token index out of range')
        return toks[spec['i']]
    if t == 'ref':
        return intro.resolve(root, spec['path'])
    if t == 'foreign':
        # a node that lives inside ANOTHER document / free-standing model (often at the very edge of that store)
        if spec['cls'] == 'make:posting':
            host = models.Posting.from_value('Assets:A', decimal.Decimal(1), 'USD', meta={'k': decimal.Decimal(1), 'j': 'x'})
        elif spec['cls'] == 'make:txn':
            host = models.Transaction.from_value(datetime.date(2000, 1, 1), None, 'n', postings=[
                models.Posting.from_value('Assets:A', decimal.Decimal(1), 'USD'), models.Posting.from_value('Assets:B', None, None)])
        elif spec['cls'] == 'make:open':
            host = models.Open.from_value(datetime.date(2000, 1, 1), 'Assets:A', ['USD', 'EUR'])
        else:
            host = P().parse(spec['text'], getattr(models, spec['cls']))
        node = intro.resolve(host, spec['path'])
        _KEEP.append(host)
        del _KEEP[:-50]
        return node
    if t == 'copy':
        return copy.deepcopy(intro.resolve(root, spec['path']))
    if t == 'list':
        return [build_value(x, root) for x in spec['items']]
    raise ValueError(t)


def build_index(i):
    if isinstance(i, list) and i and i[0] == 'slice':
        return slice(i[1], i[2], i[3])
    return i


def exc_tag(e):
    n = type(e).__name__
    s = str(e)
    if n == 'ValueError':
        if 'reuse' in s:
            return 'ValueError:reuse'
        if 'already in a store' in s:
            return 'ValueError:in-store'
        if 'not in a store' in s:
            return 'ValueError:not-in-store'
        if 'attempt to assign sequence' in s:
            return 'ValueError:size'
        if 'not found' in s:
            return 'ValueError:notfound'
        if 'already claimed' in s:
            return 'ValueError:claimed'
        if 'number_per and number_total' in s or 'Cannot remove currency' in s:
            return 'ValueError:cost'
        return 'ValueError:other'
    return n


class DonorError(Exception):
    pass


def _shaped(spec, root, seen):
    v = build_value(spec, root)
    if isinstance(spec, dict) and spec.get('t') == 'list':
        seen.extend(v)
        shape = spec.get('as', 'list')        # any iterable is a batch: also one that can be walked only once
        if shape == 'tuple':
            return tuple(v)
        if shape == 'iter':
            return iter(v)
        if shape == 'gen':
            return (x for x in v)
    return v


def prepare_op(root, op):
    """Resolve the receiver and build the argument values (donors).  Raises DonorError when the op's own
    arguments cannot be built (a generator problem, not a verdict on the code under test)."""
    try:
        recv = intro.resolve(root, op['path'])
        seen = []           # the nodes of batches, also of those handed over as one-shot iterables
        val = _shaped(op['val'], root, seen) if 'val' in op else None
        args = [_shaped(a, root, seen) for a in op.get('args', [])]
    except Exception as e:
        raise DonorError(repr(e)) from e
    return {'recv': recv, 'val': val, 'args': args, 'batch_items': seen}


def apply_op(root, op):
    return apply_prepared(root, op, prepare_op(root, op))


def apply_prepared(root, op, prepared):
    """Returns ('ok', result) or ('exc', tag, exception)."""
    recv, val, args = prepared['recv'], prepared['val'], prepared['args']
    k = op['k']
    try:
        if k == 'setattr':
            setattr(recv, op['attr'], val)
            return ('ok', None)
        if k == 'call':
            target = getattr(recv, op['attr']) if op.get('attr') else recv
            if op.get('iadd') and op.get('attr'):
                # the statement `model.attr += batch`: in-place extend, then the result assigned back through the property
                setattr(recv, op['attr'], target.__iadd__(*args))
                return ('ok', None)
            r = getattr(target, op['m'])(*args)
            return ('ok', r)
        if k == 'setitem':
            target = getattr(recv, op['attr'])
            target[build_index(op['idx'])] = val
            return ('ok', None)
        if k == 'delitem':
            target = getattr(recv, op['attr'])
            del target[build_index(op['idx'])]
            return ('ok', None)
        if k == 'pop_insert':
            target = getattr(recv, op['attr'])
            x = target.pop(op['i'])
            target.insert(op['j'], x)
            return ('ok', x)
        if k == 'numop':
            o = val
            m = op['m']
            if m == '+=':
                recv += o
            elif m == '-=':
                recv -= o
            elif m == '*=':
                recv *= o
            elif m == '/=':
                recv /= o
            return ('ok', None)
        raise ValueError('bad op ' + k)
    except (ValueError, IndexError, KeyError, TypeError, AssertionError, NotImplementedError, AttributeError,
            ArithmeticError) as e:
        return ('exc', exc_tag(e), e)


# ---- op generation -----------------------------------------------------------------------------------------

def _indent_for(model, attr):
    """A fitting indent for a node inserted into `model.<attr>` (syntax-preserving mode)."""
    try:
        if attr.startswith('raw_meta') or attr == 'meta':
            w = getattr(model, 'raw_meta')
            for it in w:
                return it.indent
            if isinstance(model, models.Posting):
                return model.indent + (model.indent_by or '    ')
            return getattr(model, 'indent_by', '    ') or '    '
        if attr.startswith('raw_postings') or attr == 'postings':
            for it in model.raw_postings:
                return it.indent
            return getattr(model, 'indent_by', '    ') or '    '
    except Exception:
        pass
    return ''


def _idx_choices(r, n):
    c = r.random()
    if c < 0.7 and n:
        return r.randrange(-n, n)
    return r.choice([-n - 2, -n - 1, n, n + 1, 0, -1])


def _slice_choice(r, n):
    pick = lambda: r.choice([None] + list(range(-n - 2, n + 3)))
    step = r.choice([None, None, None, 1, 1, 2, 3, -1, -2])
    return ['slice', pick(), pick(), step]


def gen_op(r, root, *, syntax_preserving=False, malformed=0.0, kinds=None, focus=None):
    """Pick a random applicable op on the current state.  Returns an op dict (with op['parent'] = API path of
    the model whose slot is edited, for the frame oracle) or None.  `focus` (an API path prefix) biases the choice
    towards one model and its descendants, so that several ops of a history hit the same instance."""
    nodes = [(p, m) for p, m in intro.walk_api(root)]
    if kinds is not None and not any(k.startswith('tok') for k in kinds):
        nodes = [(p, m) for p, m in nodes if not isinstance(m, base.RawTokenModel)] or nodes
    focused = [(p, m) for p, m in nodes if focus is not None and list(p[:len(focus)]) == list(focus) and len(p) <= len(focus) + 1]
    for _ in range(40 if kinds is None else 300):
        path, m = r.choice(focused) if focused and r.random() < 0.75 else r.choice(nodes)
        path = list(path)
        if isinstance(m, base.RawTokenModel):
            op = _gen_token_op(r, path, m, syntax_preserving, malformed)
        elif isinstance(m, (models.NumberAddExpr, models.NumberMulExpr)):
            continue
        else:
            op = _gen_model_op(r, root, path, m, syntax_preserving, malformed)
        if op is None:
            continue
        if kinds is not None and op['kind'] not in kinds:
            continue
        return op
    return None


def _gen_token_op(r, path, t, sp, malformed):
    n = type(t).__name__
    if hasattr(t, 'value') and n in TOKEN_DOMAINS and n not in ('Null', 'Asterisk'):
        spec = TOKEN_DOMAINS[n](r)
        if spec['t'] == 'tok':
            if not sp and r.random() < 0.15 * (1 if malformed else 0):
                return {'k': 'setattr', 'kind': 'tok-raw-bad', 'path': path, 'attr': 'raw_text', 'val': {'t': 'lit', 'v': r.choice(['', 'x', '\n'])}, 'parent': path}
            return {'k': 'setattr', 'kind': 'tok-value', 'path': path, 'attr': 'value', 'val': spec['v'], 'parent': path}
    if n == 'BlockComment':
        if r.random() < 0.7:
            return {'k': 'setattr', 'kind': 'tok-value', 'path': path, 'attr': 'value', 'val': {'t': 'lit', 'v': r.choice(['c', 'a\nb', ''])}, 'parent': path}
    return None


def _gen_model_op(r, root, path, m, sp, malformed):
    api = intro.api_props(type(m))
    fields = {name: (kind, tys) for name, kind, tys, _ in intro.class_fields(type(m))} if not isinstance(m, (models.NumberAddExpr, models.NumberMulExpr, internal.Repeated)) else {}
    choices = []
    for raw, f in api['opt'].items():
        if not raw.startswith('raw_') or f == '_dedent_mark':
            continue
        choices.append(('opt', raw, f))
    for raw, f in api['req'].items():
        if not raw.startswith('raw_') or f in ('_eol', '_label', '_hash', '_tilde'):
            continue
        choices.append(('req', raw, f))
    for raw, (f, wc) in api['rep'].items():
        choices.append(('rep', raw, f))
    for v in api['views']:
        if v != 'raw_cost_components':
            choices.append(('view', v, None))
    for v in api['values']:
        choices.append(('value', v, None))
    if isinstance(m, internal.SpacingAccessorsMixin) and path:
        choices.append(('spacing', None, None))
    if isinstance(m, internal.SurroundingCommentsMixin):
        choices.append(('claim', None, None))
    if isinstance(m, models.NumberExpr):
        choices.append(('numop', None, None))
    if isinstance(m, models.CostSpec):
        choices.append(('cost', None, None))
    if isinstance(m, models.Transaction):
        choices.append(('txn-raw', None, None))
    if not choices:
        return None
    c, name, f = r.choice(choices)
    if c == 'opt':
        kind, tys = fields[f]
        cur = getattr(m, name)
        if isinstance(m, models.Transaction) and f in ('_string0', '_string1', '_string2'):
            return None  # documented API is payee/narration (value group); raw_string* is a known finding
        if cur is not None and r.random() < 0.5:
            val = {'t': 'none'}
        else:
            ty = r.choice(tys)
            indent = ''
            if ty is models.BlockComment:
                indent = m.raw_indent.value if hasattr(m, 'raw_indent') else ''
            val = gen_value_for(r, ty, indent=indent)
            if val is None:
                return None
        if cur is not None and r.random() < 0.1:
            val = {'t': 'copy', 'path': path + [name]}     # re-seat: the child is replaced by an equal, freshly built one
        if malformed and r.random() < malformed:
            val = _attached_ref(r, root, tys) or val
        return {'k': 'setattr', 'kind': 'opt-set', 'path': path, 'attr': name, 'val': val, 'parent': path, 'field': f}
    if c == 'req':
        kind, tys = fields[f]
        ty = type(getattr(m, name))
        if ty not in tys and tys:
            ty = r.choice(tys)
        if f == '_indent' and sp:
            return None
        if isinstance(m, models.CostSpec) and f == '_cost':
            ty = r.choice([models.UnitCost, models.TotalCost])
        if isinstance(m, (models.NumberParenExpr, models.NumberUnaryExpr, models.NumberExpr)) and sp:
            pass
        val = gen_value_for(r, ty)
        if r.random() < 0.15 and not (f == '_indent' and sp):
            val = {'t': 'copy', 'path': path + [name]}     # re-seat: the child is replaced by an equal, freshly built one
        if val is None:
            return None
        if malformed and r.random() < malformed:
            val = _attached_ref(r, root, tys) or val
        return {'k': 'setattr', 'kind': 'req-set', 'path': path, 'attr': name, 'val': val, 'parent': path, 'field': f}
    if c == 'rep':
        kind, tys = fields[f]
        if api['rep'][name][1] and not sp and r.random() < (0.35 if any(isinstance(x, models.BlockComment) for x in getattr(m, name)) else 0.1):
            meth = r.choice(['claim_interleaving_comments', 'unclaim_interleaving_comments', 'unclaim_interleaving_comments'])
            args = []
            if r.random() < 0.45:
                # named comments: some that the call can find, and (refusal stream) one it cannot
                want_claimed = meth.startswith('unclaim')
                idx = [i for i, t in enumerate(root.token_store) if isinstance(t, models.BlockComment) and bool(t.claimed) == want_claimed]
                picks = r.sample(idx, min(len(idx), r.choice([1, 1, 2, 3])))
                named = [{'t': 'tok-at', 'i': i} for i in picks]
                if malformed and r.random() < 0.5:
                    named.insert(r.randrange(len(named) + 1), {'t': 'bc', 'v': 'stranger', 'indent': ''})
                if r.random() < 0.15:
                    named = []           # an EMPTY selection is a selection: nothing is claimed / released (not "everything")
                args = [{'t': 'list', 'items': named, 'as': r.choice(['list', 'tuple'])}]
            return {'k': 'call', 'kind': 'claim-inter' if meth.startswith('claim') else 'unclaim-inter', 'path': path, 'attr': name,
                    'm': meth, 'args': args, 'parent': []}
        if REP_ASSIGN and r.random() < 0.08 and len(getattr(m, name)):
            # the whole field is assigned at once: a deep copy of the field itself (the documented way to copy a repeated
            # field from one model to another)
            return {'k': 'setattr', 'kind': 'rep-assign', 'path': path, 'attr': name, 'val': {'t': 'copy', 'path': path + [name]}, 'parent': path, 'field': f}
        return _gen_list_op(r, root, path, m, name, tys, sp, malformed, raw=True)
    if c == 'view':
        return _gen_view_op(r, root, path, m, name, sp, malformed)
    if c == 'value':
        return _gen_value_op(r, path, m, name, api['values'][name], sp)
    if c == 'spacing':
        side = r.choice(['spacing_before', 'spacing_after'])
        if sp:
            return None
        return {'k': 'setattr', 'kind': 'spacing', 'path': path, 'attr': side, 'val': {'t': 'lit', 'v': r.choice([' ', '  ', '\t', '\n', ' \n  ', '\r\n', ''])}, 'parent': []}
    if c == 'claim':
        if sp:
            return None  # un-attributing comments is set aside by C06 (an unowned comment next to an insertion point)
        meth = r.choice(['claim_leading_comment', 'claim_trailing_comment', 'unclaim_leading_comment', 'unclaim_trailing_comment', 'auto_claim_comments'])
        if meth.startswith('claim'):
            return {'k': 'call', 'kind': 'claim', 'path': path, 'm': meth, 'args': [], 'parent': []}
        return {'k': 'call', 'kind': 'unclaim', 'path': path, 'm': meth, 'args': [], 'parent': []}
    if c == 'txn-raw':
        attr = r.choice(['raw_payee', 'raw_narration'])
        val = {'t': 'none'} if r.random() < 0.3 else gen_value_for(r, models.EscapedString)
        if malformed and r.random() < malformed:
            val = _attached_ref(r, root, (models.EscapedString,)) or val
        return {'k': 'setattr', 'kind': 'txn-raw-set', 'path': path, 'attr': attr, 'val': val, 'parent': path}
    if c == 'numop':
        o = r.choice([{'t': 'lit', 'v': r.randrange(-5, 9)}, {'t': 'dec', 'v': r.choice(['1.5', '-2', '0.25'])},
                      {'t': 'parse', 'cls': 'NumberExpr', 'text': num_text(r)}])
        if malformed and r.random() < malformed:
            o = _attached_ref(r, root, (models.NumberExpr,)) or o
        mm = r.choice(['+=', '-=', '*=', '/='])
        if mm == '/=' and o.get('v') in (0, '0'):
            mm = '*='
        return {'k': 'numop', 'kind': 'numop', 'path': path, 'm': mm, 'val': o, 'parent': path}
    if c == 'cost' and r.random() < 0.35:
        # raw (node-level) setters of the dependent group, with fresh or (malformed stream) attached nodes
        attr = r.choice(['raw_number_per', 'raw_number_total', 'raw_currency'])
        ty = models.Currency if attr == 'raw_currency' else models.NumberExpr
        val = {'t': 'none'} if r.random() < 0.2 else gen_value_for(r, ty)
        if malformed and r.random() < malformed:
            val = _attached_ref(r, root, (ty,)) or val
        return {'k': 'setattr', 'kind': 'cost-raw-set', 'path': path, 'attr': attr, 'val': val, 'parent': path}
    if c == 'cost':
        attr = r.choice(['number_per', 'number_total', 'currency', 'date', 'label', 'merge'])
        if attr in ('number_per', 'number_total'):
            val = r.choice([{'t': 'none'}, {'t': 'dec', 'v': r.choice(['1', '2.5', '300'])}])
        elif attr == 'currency':
            val = r.choice([{'t': 'none'}, {'t': 'lit', 'v': r.choice(docs.CURRENCIES)}])
        elif attr == 'date':
            val = r.choice([{'t': 'none'}, {'t': 'date', 'v': [2021, 2, 3]}])
        elif attr == 'label':
            val = r.choice([{'t': 'none'}, {'t': 'lit', 'v': r.choice(['lot', 'a "b"'])}])
        else:
            val = {'t': 'lit', 'v': r.random() < 0.5}
        return {'k': 'setattr', 'kind': 'cost-set', 'path': path, 'attr': attr, 'val': val, 'parent': path}
    return None


_KEEP = []
REP_ASSIGN = True      # whole-field assignments (`m.raw_x = deepcopy(m.raw_x)`): switched on by the checks that judge them
_TWO = '2000-01-01 open Assets:A USD, EUR\n2000-01-02 close Assets:A'
FOREIGN = [
    # (class of the node, host text, host class, path)   - first or last token of the host store, or interior
    ('Currency', '2000-01-01 open Assets:A USD, EUR', 'Open', ['raw_currencies', 1]),
    ('Currency', '2000-01-01 open Assets:A USD, EUR', 'Open', ['raw_currencies', 0]),
    ('Date', '2000-01-01 open Assets:A USD', 'Open', ['raw_date']),
    ('Account', '2000-01-02 close Assets:A', 'Close', ['raw_account']),
    ('Close', _TWO, 'File', ['raw_directives', 1]),
    ('Open', _TWO, 'File', ['raw_directives', 0]),
    ('Open', _TWO + '\n', 'File', ['raw_directives', 0]),
    ('MetaItem', '', 'make:posting', ['raw_meta', 1]),
    ('MetaItem', '', 'make:posting', ['raw_meta', 0]),
    ('Posting', '', 'make:txn', ['raw_postings', 1]),
    ('Currency', '', 'make:open', ['raw_currencies', 1]),
    ('Account', '', 'make:posting', ['raw_account']),
    ('MetaItem', '2000-01-01 open Assets:A\n  kk: 1\n  jj: 2', 'Open', ['raw_meta', 0]),
    ('Posting', '2000-01-01 *\n  Assets:A  1 USD\n  Assets:B', 'Transaction', ['raw_postings', 1]),
    ('Posting', '2000-01-01 *\n  Assets:A  1 USD\n  Assets:B', 'Transaction', ['raw_postings', 0]),
    ('NumberExpr', '1 + 2 USD', 'Amount', ['raw_number']),
    ('Amount', '2000-01-01 price USD 1 EUR', 'Price', ['raw_amount']),
    ('Tag', '2000-01-01 * "a" #t ^l', 'Transaction', ['raw_tags_links', 0]),
    ('Link', '2000-01-01 * "a" #t ^l', 'Transaction', ['raw_tags_links', 1]),
    ('EscapedString', '2000-01-01 note Assets:A "x"', 'Note', ['raw_comment']),
    ('BlockComment', '; c\n2000-01-02 close Assets:A', 'File', ['raw_directives_with_comments', 0]),
]


def _batch_shape(r):
    return r.choice(['list', 'list', 'list', 'tuple', 'iter', 'gen'])


def _attached_ref(r, root, tys):
    """A spec referring to an attached node of a compatible type (for the refusal stream): somewhere in this document,
    or inside another document / free-standing model."""
    if r.random() < 0.35:
        names = {t.__name__ for t in tys} if tys else None
        cands = [f for f in FOREIGN if names is None or f[0] in names]
        if cands:
            f = r.choice(cands)
            return {'t': 'foreign', 'cls': f[2], 'text': f[1], 'path': f[3]}
    if (not tys or models.BlockComment in tys) and r.random() < 0.5:
        # a comment that is in the document but belongs to nobody (not reachable through any model)
        loose = [i for i, t in enumerate(root.token_store) if isinstance(t, models.BlockComment) and not t.claimed]
        if loose:
            return {'t': 'tok-at', 'i': r.choice(loose)}
    cands = [list(p) for p, m in intro.walk_api(root) if p and isinstance(m, tuple(tys) or (base.RawModel,))]
    if not cands:
        return None
    return {'t': 'ref', 'path': r.choice(cands)}


def _gen_list_op(r, root, path, m, attr, tys, sp, malformed, raw=True):
    w = getattr(m, attr)
    n = len(w)
    indent = _indent_for(m, attr)
    item_tys = [t for t in tys if not (sp and t is models.BlockComment and False)]

    def val():
        ty = r.choice(item_tys)
        if isinstance(m, models.Custom) and attr == 'raw_values' and sp:
            ty = r.choice([models.EscapedString, models.Date, models.Bool, models.Account])  # number after number: documented limitation
        v = gen_value_for(r, ty, indent=indent)
        if v is not None and malformed and r.random() < malformed:
            v = _attached_ref(r, root, tys) or v
        return v
    c = r.random()
    base_op = {'path': path, 'attr': attr, 'parent': path, 'field': attr}
    if c < 0.15:
        v = val()
        return v and {'k': 'call', 'kind': 'rep-append', 'm': 'append', 'args': [v], **base_op}
    if c < 0.32:
        v = val()
        return v and {'k': 'call', 'kind': 'rep-insert', 'm': 'insert', 'args': [{'t': 'lit', 'v': _idx_choices(r, n)}, v], **base_op}
    if c < 0.42:
        if n == 0 and not malformed:
            return None
        i = _idx_choices(r, n) if malformed else r.randrange(-n, n)
        return {'k': 'call', 'kind': 'rep-pop', 'm': 'pop', 'args': [{'t': 'lit', 'v': i}], **base_op}
    if c < 0.52:
        if n == 0 and not malformed:
            return None
        i = _idx_choices(r, n) if malformed else r.randrange(-n, n)
        v = val()
        return v and {'k': 'setitem', 'kind': 'rep-setitem', 'idx': i, 'val': v, **base_op}
    if c < 0.67:
        s = _slice_choice(r, n)
        k = r.choice([0, 1, 2, 3])
        if s[3] not in (None, 1) and not malformed:
            k = len(range(n)[slice(s[1], s[2], s[3])])
        vs = [val() for _ in range(k)]
        if any(v is None for v in vs):
            return None
        return {'k': 'setitem', 'kind': 'rep-setslice', 'idx': s, 'val': {'t': 'list', 'items': vs, 'as': _batch_shape(r)}, **base_op}
    if c < 0.78:
        if r.random() < 0.5 and (n or malformed):
            i = _idx_choices(r, n) if malformed else r.randrange(-n, n)
            return {'k': 'delitem', 'kind': 'rep-delitem', 'idx': i, **base_op}
        return {'k': 'delitem', 'kind': 'rep-delslice', 'idx': _slice_choice(r, n), **base_op}
    if c < 0.86:
        vs = [val() for _ in range(r.choice([0, 1, 2, 3]))]
        if any(v is None for v in vs):
            return None
        return {'k': 'call', 'kind': 'rep-extend', 'm': 'extend', 'args': [{'t': 'list', 'items': vs, 'as': _batch_shape(r)}],
                **({'iadd': True} if r.random() < 0.35 else {}), **base_op}
    if c < 0.915:
        if raw and r.random() < 0.7 and hasattr(w, 'drop_many'):
            # the bulk delete: any iterable of indexes - negative ones, repeated ones, in any order; out of range = refused
            k = r.choice([0, 1, 2, 2, 3])
            idxs = [(_idx_choices(r, n) if malformed and r.random() < 0.4 else (r.randrange(-n, n) if n else 0)) for _ in range(k)]
            if not n and not malformed:
                idxs = []
            return {'k': 'call', 'kind': 'rep-dropmany', 'm': 'drop_many', 'args': [{'t': 'lit', 'v': idxs}], **base_op}
        return {'k': 'call', 'kind': 'rep-clear', 'm': 'clear', 'args': [], **base_op}
    if c < 0.95 and n:
        i = r.randrange(n)
        return {'k': 'call', 'kind': 'rep-copy-insert', 'm': 'insert',
                'args': [{'t': 'lit', 'v': r.randrange(n + 1)}, {'t': 'copy', 'path': path + [attr, i]}], **base_op}
    if n:
        return {'k': 'pop_insert', 'kind': 'rep-pop-insert', 'i': r.randrange(n), 'j': r.randrange(n), **base_op}
    return None


_VIEW_ELEM = {
    'tags': ('str', lambda r: r.choice(docs.TAGS)), 'links': ('str', lambda r: r.choice(docs.TAGS)),
    'currencies': ('str', lambda r: r.choice(docs.CURRENCIES)),
}


def _gen_view_op(r, root, path, m, name, sp, malformed):
    w = getattr(m, name)
    if not hasattr(w, '__len__'):
        return None
    n = len(w)
    base_op = {'path': path, 'attr': name, 'parent': path, 'field': name}
    if name in _VIEW_ELEM:
        mk = lambda: {'t': 'lit', 'v': _VIEW_ELEM[name][1](r)}
    elif name == 'values':
        def mk():
            c = r.random()
            if c < 0.4:
                return {'t': 'lit', 'v': r.choice(docs.STRINGS)}
            if c < 0.6:
                return {'t': 'date', 'v': [2020, 1, 2]}
            if c < 0.8:
                return {'t': 'lit', 'v': True}
            return gen_value_for(r, models.Account)
    elif name in ('raw_directives', 'directives'):
        def mk():
            ty = r.choice([models.Open, models.Close, models.Transaction, models.Price, models.Note, models.Balance, models.Option])
            return gen_value_for(r, ty)
    elif name in ('raw_postings', 'postings'):
        mk = lambda: gen_value_for(r, models.Posting, indent=_indent_for(m, 'raw_postings') or '    ')
    elif name in ('raw_meta',):
        mk = lambda: gen_value_for(r, models.MetaItem, indent=_indent_for(m, 'raw_meta') or '    ')
    elif name == 'meta':
        return _gen_meta_map_op(r, root, path, m, sp, malformed)
    else:
        return None
    if name == 'raw_meta' and r.random() < 0.3:
        # the raw mapping side: string keys on the raw view
        keys = [x.key for x in w]
        key = r.choice(keys) if keys and r.random() < 0.8 else r.choice(docs.KEYS)
        bo = {'path': path, 'attr': 'raw_meta', 'parent': path, 'field': 'raw_meta'}
        c = r.random()
        if c < 0.4 and key in keys:
            return {'k': 'delitem', 'kind': 'meta-delkey', 'idx': key, **bo}
        if c < 0.8 and key in keys:
            return {'k': 'call', 'kind': 'meta-popkey', 'm': 'pop', 'args': [{'t': 'lit', 'v': key}], **bo}
        v = gen_value_for(r, models.MetaItem, indent=_indent_for(m, 'raw_meta') or '    ')
        if v is not None and key in keys:
            v = dict(v, k=key) if v.get('t') == 'meta' else v
            return {'k': 'setitem', 'kind': 'meta-setkey', 'idx': key, 'val': v, **bo}
    c = r.random()
    if c < 0.2:
        v = mk()
        return v and {'k': 'call', 'kind': 'view-append', 'm': 'append', 'args': [v], **base_op}
    if c < 0.4:
        v = mk()
        return v and {'k': 'call', 'kind': 'view-insert', 'm': 'insert', 'args': [{'t': 'lit', 'v': _idx_choices(r, n)}, v], **base_op}
    if c < 0.5:
        if n == 0 and not malformed:
            return None
        i = _idx_choices(r, n) if malformed else r.randrange(-n, n)
        return {'k': 'call', 'kind': 'view-pop', 'm': 'pop', 'args': [{'t': 'lit', 'v': i}], **base_op}
    if c < 0.62:
        if n == 0 and not malformed:
            return None
        i = _idx_choices(r, n) if malformed else r.randrange(-n, n)
        v = mk()
        return v and {'k': 'setitem', 'kind': 'view-setitem', 'idx': i, 'val': v, **base_op}
    if c < 0.72:
        s = _slice_choice(r, n)
        k = len(range(n)[slice(s[1], s[2], s[3])])
        if malformed and r.random() < 0.3:
            k += 1
        vs = [mk() for _ in range(k)]
        if any(v is None for v in vs):
            return None
        return {'k': 'setitem', 'kind': 'view-setslice', 'idx': s, 'val': {'t': 'list', 'items': vs, 'as': _batch_shape(r)}, **base_op}
    if c < 0.84:
        if r.random() < 0.5 and (n or malformed):
            i = _idx_choices(r, n) if malformed else r.randrange(-n, n)
            return {'k': 'delitem', 'kind': 'view-delitem', 'idx': i, **base_op}
        return {'k': 'delitem', 'kind': 'view-delslice', 'idx': _slice_choice(r, n), **base_op}
    if c < 0.92:
        vs = [mk() for _ in range(r.choice([0, 1, 2]))]
        if any(v is None for v in vs):
            return None
        return {'k': 'call', 'kind': 'view-extend', 'm': 'extend', 'args': [{'t': 'list', 'items': vs, 'as': _batch_shape(r)}],
                **({'iadd': True} if r.random() < 0.35 else {}), **base_op}
    if c < 0.95:
        return {'k': 'call', 'kind': 'view-clear', 'm': 'clear', 'args': [], **base_op}
    if name in _VIEW_ELEM:
        v = mk()
        if n and r.random() < 0.5:
            v = {'t': 'lit', 'v': r.choice(list(w))}      # a value the view holds (its sibling view may hold the same one)
        meth = r.choice(['remove', 'discard'])
        return {'k': 'call', 'kind': 'view-' + meth, 'm': meth, 'args': [v], **base_op}
    return None


def _gen_meta_map_op(r, root, path, m, sp, malformed):
    w = m.meta
    keys = list(w.keys())
    base_op = {'path': path, 'attr': 'meta', 'parent': path, 'field': 'meta'}
    c = r.random()
    key = r.choice(keys) if keys and r.random() < 0.6 else r.choice(docs.KEYS + ['zz'])
    if c < 0.55:
        return {'k': 'setitem', 'kind': 'meta-setkey', 'idx': key, 'val': gen_meta_value(r), **base_op}
    if c < 0.75:
        if key not in keys and not malformed:
            return None
        return {'k': 'delitem', 'kind': 'meta-delkey', 'idx': key, **base_op}
    if c < 0.9:
        if key not in keys and not malformed:
            return None
        return {'k': 'call', 'kind': 'meta-popkey', 'm': 'pop', 'args': [{'t': 'lit', 'v': key}], **base_op}
    return {'k': 'call', 'kind': 'meta-clear', 'm': 'clear', 'args': [], **base_op}


def _gen_value_op(r, path, m, name, desc, sp):
    from autobean_refactor.models.internal import value_properties as vp
    from autobean_refactor.models import meta_value_internal
    base_op = {'k': 'setattr', 'kind': 'value-set', 'path': path, 'attr': name, 'parent': path, 'field': name}
    if isinstance(m, models.Transaction) and name in ('string0', 'string1', 'string2'):
        return None  # generated slots behind payee/narration; not the documented API
    if isinstance(desc, meta_value_internal.optional_meta_value_property):
        return {**base_op, 'val': gen_meta_value(r)}
    cur = None
    try:
        cur = getattr(m, name)
    except Exception:
        return None
    optional = not isinstance(desc, vp.required_value_property)
    if optional and r.random() < 0.3:
        if isinstance(m, models.Transaction) and name in ('payee', 'narration'):
            pass
        return {**base_op, 'val': {'t': 'none'}}
    if isinstance(desc, vp.optional_decimal_property):
        return {**base_op, 'val': {'t': 'dec', 'v': r.choice(['1', '-2.5', '100.00', '0'])}}
    if isinstance(desc, vp.optional_date_property):
        return {**base_op, 'val': {'t': 'date', 'v': [r.randrange(1, 9999), 3, 4]}}
    # string-like or required: derive the domain from the current raw token class
    raw_name = 'raw_' + name
    raw = getattr(m, raw_name, None) if hasattr(type(m), raw_name) else None
    tyname = None
    if raw is not None:
        tyname = type(raw).__name__
    else:
        inner = getattr(desc, '_inner_type', None)
        tyname = inner.__name__ if inner is not None else None
    if tyname is None and isinstance(desc, vp.required_value_property):
        return None
    if tyname == 'BlockComment':
        return {**base_op, 'val': {'t': 'lit', 'v': r.choice(['c', 'two\nlines', ''])}}
    if tyname == 'NumberExpr' or tyname == 'Tolerance':
        return {**base_op, 'val': {'t': 'dec', 'v': r.choice(['1', '-2.5', '100.00'])}}
    if tyname in TOKEN_DOMAINS:
        spec = TOKEN_DOMAINS[tyname](r)
        if spec['t'] == 'tok':
            return {**base_op, 'val': spec['v']}
    return None
