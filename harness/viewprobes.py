"""Deterministic probes: the views of a repeated field are read, then comments are released / claimed through the raw
wrapper, then every public attribute must read as on a deep copy (session.o_fresh) and a view operation must hit the
element the view shows (frame oracle).  Fixed documents, every wrapper that can hold comments."""
from __future__ import annotations
import session

DOCS = [
    ('; header\n\n2000-01-01 open Assets:A\n\n; mid\n\n2000-01-02 close Assets:A\n\n; tail\n', [[]], 'raw_directives_with_comments', 'directives'),
    ('2000-01-01 *\n  ; first\n  aa: 1\n  ; between\n  bb: 2\n  Assets:A  1 USD\n  ; among postings\n  Assets:B\n',
     [['raw_directives_with_comments', 0]], 'raw_meta_with_comments', 'raw_meta'),
    ('2000-01-01 *\n  aa: 1\n  ; before postings\n  Assets:A  1 USD\n  ; among postings\n  Assets:B\n  ; after\n',
     [['raw_directives_with_comments', 0]], 'raw_postings_with_comments', 'postings'),
]


def run(ctx, oracles=('frame', 'fresh', 'reads'), prefix=''):
    for text, paths, raw, view in DOCS:
        for path in paths:
            base = {'path': path, 'attr': raw, 'parent': path}
            un = {'k': 'call', 'kind': 'unclaim-inter', 'm': 'unclaim_interleaving_comments', 'args': [], **base}
            cl = {'k': 'call', 'kind': 'claim-inter', 'm': 'claim_interleaving_comments', 'args': [], **base}
            pop = {'k': 'call', 'kind': 'view-pop', 'm': 'pop', 'args': [{'t': 'lit', 'v': 0}], 'path': path, 'attr': view, 'parent': path, 'field': view}
            for auto in (True, False):
                for ops in ([un], [un, pop], [un, cl], [un, cl, pop], [cl], [cl, pop], [cl, un, pop]):
                    try:
                        fails, outcomes = session.run_history(text, auto, ops, list(oracles))
                    except Exception as e:
                        fails, outcomes = [(f'view-probe-raises:{type(e).__name__}', repr(e)[:200])], []
                    ctx.case(('view-probe', raw, auto, tuple(o['kind'] for o in ops)))
                    ctx.count('view-probe')
                    if fails:
                        sig, what = fails[0]
                        ctx.oracle_fail(prefix + sig, what + f' [view probe {raw} {[o["kind"] for o in ops]}]',
                                        {'text': text, 'auto_claim': auto, 'ops': ops, 'oracles': list(oracles)})
    # same-named elements in sibling string views (`#trip` next to `^trip`): remove / discard through one view leaves the other's
    for text, path in (('2000-01-01 * "x" #trip ^trip #food ^trip #trip\n  Assets:A  1 USD\n', ['raw_directives_with_comments', 0]),
                       ('2000-01-01 note Assets:A "n" ^trip #trip ^trip\n', ['raw_directives_with_comments', 0])):
        for view in ('tags', 'links'):
            for meth in ('remove', 'discard'):
                for val in ('trip', 'food', 'absent'):
                    op = {'k': 'call', 'kind': 'view-' + meth, 'm': meth, 'args': [{'t': 'lit', 'v': val}], 'path': path, 'attr': view, 'parent': path, 'field': view}
                    try:
                        fails, outcomes = session.run_history(text, True, [op], list(oracles))
                    except Exception as e:
                        fails, outcomes = [(f'view-probe-raises:{type(e).__name__}', repr(e)[:200])], []
                    ctx.case(('view-probe-namesake', view, meth, val))
                    if fails:
                        sig, what = fails[0]
                        ctx.oracle_fail(prefix + sig, what + f' [namesake probe {view}.{meth}({val!r})]',
                                        {'text': text, 'auto_claim': True, 'ops': [op], 'oracles': list(oracles)})
