"""Schema-driven beancount ledger generator (shared by the checks).

    gen_file(rng, n_directives, **opts) -> str        a whole ledger
    gen_fragment(rng, **opts) -> (text, rule)         text meant for a non-File parse target (`rule` is a hint)
    gen_layouts(max_lines) -> iterator of str         exhaustive line-level layouts

The generator follows `beancount.lark`: every directive kind, every subset of optional parts, inline comments,
block comments in every position (top level, indented inside transactions before/after/between postings and
meta, before the dedent, at file start/end), blank and whitespace-only lines, LF/CRLF/CRCRLF line ends, tabs,
missing final newline, non-ASCII accounts/strings, nested meta under postings, costs `{}`/`{{}}` and prices
`@`/`@@` in every form, arithmetic with random spacing and parentheses, strings spanning lines.

It aims at *mostly* parseable text (callers measure the accept rate); `risky=True` adds layouts that are
often rejected (blank line inside a transaction, unindented comment between postings, lone CR).
Only `rng` (a random.Random) is used as a source of randomness.
"""
from __future__ import annotations
import itertools

DIRECTIVE_KINDS = ['open', 'close', 'commodity', 'pad', 'balance', 'event', 'query', 'price', 'note', 'document',
                   'custom', 'transaction', 'option', 'include', 'plugin', 'pushtag', 'poptag', 'pushmeta',
                   'popmeta', 'ignored']

_ASCII_ACCOUNTS = ['Assets:Foo', 'Assets:Bank:Checking', 'Liabilities:Card-1', 'Expenses:Food:Lunch', 'Income:Job',
                   'Equity:Opening-Balances', 'Assets:A1:B2', 'Expenses:X']
_UNI_ACCOUNTS = ['Assets:Café', 'Expenses:Ünïcode:Ça', '资产:现金', 'Assets:银行:招商', 'Éxpenses:Naïve']
_CURRENCIES = ['USD', 'EUR', 'AAPL', 'VTSAX', 'X1', "A.B-C_D'E", 'BTC', 'GB']
_TAGS = ['#tag', '#trip-2020', '#a.b/c_d', '#T1']
_LINKS = ['^link', '^inv-001', '^a.b/c', '^L2']
_KEYS = ['aa:', 'key:', 'meta-key:', 'k_1:', 'fooBar9:']
_STRINGS = ['""', '"foo"', '"a b  c"', '"with \\" quote"', '"back\\\\slash"', '"semi ; colon"', '"tab\\there"',
            '"#not-a-tag"', '"{braces}"']
_UNI_STRINGS = ['"café ☕"', '"日本語"', '"emoji 🎉 ok"', '"ñandú"']
_ML_STRINGS = ['"line1\nline2"', '"a\n  indented\nb"', '"x\n\ny"', '"; not\n; comment"']
_COMMENT_TEXTS = ['comment', ' spaced', '', ' x ; y', ' 2000-01-01 open Assets:Foo', ' "quote', ' ünï 码',
                  ';; double', ' trailing  ']
_IGNORED_LINES = ['* Heading', '** Sub heading', ':PROPERTIES:', '#+TITLE: x', '! bang line', '*', 'P price-like',
                  '# hash comment']
_FLAGS_TXN = ['*', '!', 'txn', 'P', '?', '&', '%', 'S', 'T', 'C', 'U', 'R', 'M', '#']
_FLAGS_POSTING = ['!', '*', '?', '&', '%', 'P', 'S', 'T', 'C', 'U', 'R', 'M', '#']
_BOOKINGS = ['"STRICT"', '"NONE"', '"FIFO"', '"AVERAGE"']


class Gen:
    def __init__(self, rng, *, eol=None, unicode=True, tabs=True, comments=0.25, inline_comments=0.2, blanks=0.25,
                 multiline_strings=0.1, risky=False, kinds=None, final_newline=None, max_meta=2, max_postings=4):
        self.r = rng
        self.eol_mode = eol if eol is not None else rng.choice(['\n', '\n', '\n', '\r\n', '\r\r\n', 'mixed'])
        self.unicode = unicode
        self.tabs = tabs
        self.p_comment = comments
        self.p_inline = inline_comments
        self.p_blank = blanks
        self.p_ml = multiline_strings
        self.risky = risky
        self.kinds = list(kinds) if kinds else DIRECTIVE_KINDS
        self.final_newline = final_newline
        self.max_meta = max_meta
        self.max_postings = max_postings

    # ---- lexical atoms ----------------------------------------------------------------------
    def eol(self):
        if self.eol_mode == 'mixed':
            return self.r.choice(['\n', '\n', '\r\n', '\r\r\n'])
        return self.eol_mode

    def ws(self, wide=False):
        r = self.r
        x = r.random()
        if x < 0.7:
            return ' '
        if x < 0.85:
            return ' ' * r.randint(2, 6 if wide else 3)
        if self.tabs:
            return r.choice(['\t', ' \t', '\t ', '\t\t'])
        return '  '

    def ows(self):
        """optional whitespace (where the grammar needs none)"""
        return self.r.choice(['', '', '', ' ', '  ']) if self.r.random() < 0.5 else ''

    def indent(self, deep=False):
        r = self.r
        if self.tabs and r.random() < 0.12:
            return r.choice(['\t', '\t\t', ' \t', '\t ']) if not deep else r.choice(['\t\t', '\t\t\t', '    \t'])
        return ' ' * (r.choice([1, 2, 2, 2, 4, 4, 3]) if not deep else r.choice([4, 4, 6, 8, 3]))

    def date(self):
        r = self.r
        x = r.random()
        y, m, d = r.randint(1900, 2100), r.randint(1, 12), r.randint(1, 28)
        if x < 0.7:
            return f'{y:04d}-{m:02d}-{d:02d}'
        if x < 0.8:
            return f'{y:04d}/{m:02d}/{d:02d}'
        if x < 0.9:
            return f'{y}-{m}-{d}'
        if self.risky:
            return f'{r.randint(10000, 99999)}-{m:02d}-{d}'   # lexes as DATE, Date.from_raw_text raises ValueError
        return f'{y:04d}-{m:02d}-{d:02d}'

    def account(self):
        if self.unicode and self.r.random() < 0.2:
            return self.r.choice(_UNI_ACCOUNTS)
        return self.r.choice(_ASCII_ACCOUNTS)

    def currency(self):
        return self.r.choice(_CURRENCIES)

    def string(self, multiline_ok=True):
        r = self.r
        if multiline_ok and r.random() < self.p_ml:
            return r.choice(_ML_STRINGS)
        if self.unicode and r.random() < 0.15:
            return r.choice(_UNI_STRINGS)
        return r.choice(_STRINGS)

    def number(self):
        r = self.r
        x = r.random()
        if r.random() < 0.08:
            return r.choice(['0', '0.00', '00', '0.'])       # zero: a value that is falsy in Python
        if x < 0.35:
            return str(r.randint(0, 999))
        if x < 0.7:
            return f'{r.randint(0, 9999)}.{r.randint(0, 99):02d}'
        if x < 0.8:
            return f'{r.randint(1, 999)},{r.randint(0, 999):03d}.{r.randint(0, 99):02d}'
        if x < 0.87:
            return f'{r.randint(1, 99)},{r.randint(0, 999):03d},{r.randint(0, 999):03d}'
        if x < 0.93:
            return f'{r.randint(0, 99)}.'
        return '0.' + '0' * r.randint(1, 8) + str(r.randint(1, 9))

    def number_expr(self, depth=0):
        r = self.r
        x = r.random()
        if depth >= 3 or x < 0.45:
            return self.number()
        if x < 0.58:
            return r.choice(['-', '+']) + self.ows() + self.number_expr(depth + 1)
        if x < 0.72:
            return '(' + self.ows() + self.number_expr(depth + 1) + self.ows() + ')'
        op = r.choice(['+', '-', '*', '/'])
        left = self.number_expr(depth + 1)
        right = self.number_expr(depth + 1)
        return left + self.ows() + op + self.ows() + right

    def amount(self):
        return self.number_expr() + self.ows_or_ws() + self.currency()

    def ows_or_ws(self):
        return self.r.choice([' ', ' ', '', '  ', '\t' if self.tabs else ' '])

    def tags_links(self):
        r = self.r
        n = r.choice([0, 0, 1, 1, 2, 3])
        return ''.join(self.ws() + r.choice(_TAGS + _LINKS) for _ in range(n))

    def comment_text(self):
        return ';' + self.r.choice(_COMMENT_TEXTS)

    def inline_comment(self):
        if self.r.random() < self.p_inline:
            return self.r.choice([' ', '  ', '', '\t' if self.tabs else ' ']) + self.comment_text()
        return self.r.choice(['', '', '', ' ', '  ']) if self.r.random() < 0.15 else ''

    # ---- values -----------------------------------------------------------------------------
    def meta_value(self):
        r = self.r
        k = r.choice(['string', 'account', 'date', 'currency', 'tag', 'bool', 'null', 'number', 'amount', 'none'])
        if k == 'string':
            return self.string()
        if k == 'account':
            return self.account()
        if k == 'date':
            return self.date()
        if k == 'currency':
            return self.currency()
        if k == 'tag':
            return r.choice(_TAGS)
        if k == 'bool':
            return r.choice(['TRUE', 'FALSE'])
        if k == 'null':
            return 'NULL'
        if k == 'number':
            return self.number_expr()
        if k == 'amount':
            return self.amount()
        return None

    def meta_line(self, deep=False):
        v = self.meta_value()
        s = self.indent(deep) + self.r.choice(_KEYS)
        if v is not None:
            s += self.r.choice([' ', ' ', '  ', '', '\t' if self.tabs else ' ']) + v
        return s + self.inline_comment()

    def indented_comment(self, deep=False):
        n = self.r.choice([1, 1, 1, 2, 3])
        ind = self.indent(deep)
        e = self.eol()
        return e.join(ind + self.comment_text() for _ in range(n))

    def toplevel_comment(self):
        n = self.r.choice([1, 1, 2, 3])
        e = self.eol()
        return e.join(self.comment_text() for _ in range(n))

    def cost_component(self):
        r = self.r
        k = r.choice(['date', 'star', 'label', 'currency', 'number', 'amount', 'compound', 'amount', 'amount'])
        if k == 'date':
            return self.date()
        if k == 'star':
            return '*'
        if k == 'label':
            return self.string(multiline_ok=False)
        if k == 'currency':
            return self.currency()
        if k == 'number':
            return self.number_expr()
        if k == 'amount':
            return self.amount()
        a = self.number_expr() + self.ows() if r.random() < 0.6 else ''
        b = self.ows() + self.number_expr() if r.random() < 0.6 else ''
        return a + '#' + b + ' ' + self.currency()

    def cost_spec(self):
        r = self.r
        n = r.choice([0, 1, 1, 1, 2, 2, 3, 4])
        comps = []
        for i in range(n):
            comps.append(self.cost_component())
        sep = lambda: self.ows() + ',' + self.ows()
        body = ''
        for i, c in enumerate(comps):
            if i:
                body += sep()
            body += c
        lb, rb = r.choice([('{', '}'), ('{', '}'), ('{{', '}}')])
        return lb + self.ows() + body + self.ows() + rb

    def price_annotation(self):
        r = self.r
        at = r.choice(['@', '@', '@@'])
        form = r.choice(['both', 'both', 'num', 'cur', 'none'])
        if form == 'both':
            return at + self.ows_or_ws() + self.amount()
        if form == 'num':
            return at + self.ows_or_ws() + self.number_expr()
        if form == 'cur':
            return at + self.ows_or_ws() + self.currency()
        return at

    def posting_line(self):
        r = self.r
        s = self.indent()
        if r.random() < 0.2:
            s += r.choice(_FLAGS_POSTING) + self.ws()
        s += self.account()
        form = r.choice(['none', 'amount', 'amount', 'amount', 'num', 'cur'])
        if form == 'amount':
            s += self.ws(wide=True) + self.amount()
        elif form == 'num':
            s += self.ws(wide=True) + self.number_expr()
        elif form == 'cur':
            s += self.ws(wide=True) + self.currency()
        if r.random() < 0.3:
            s += self.ows_or_ws() + self.cost_spec()
        if r.random() < 0.3:
            s += self.ows_or_ws() + self.price_annotation()
        return s + self.inline_comment()

    # ---- directives (lists of lines, without line ends) ----------------------------------------
    def meta_block(self, deep=False):
        """meta lines interleaved with indented comments"""
        lines = []
        n = self.r.randint(0, self.max_meta) if self.r.random() < 0.4 else 0
        for _ in range(n):
            if self.r.random() < self.p_comment * 0.6:
                lines.append(self.indented_comment(deep))
            lines.append(self.meta_line(deep))
        if n and self.r.random() < self.p_comment * 0.4:
            lines.append(self.indented_comment(deep))
        return lines

    def header(self, kind):
        r, ws = self.r, self.ws
        d = self.date
        if kind == 'open':
            s = d() + ws() + 'open' + ws() + self.account()
            n = r.choice([0, 0, 1, 1, 2, 3])
            curs = [self.currency() for _ in range(n)]
            if curs:
                s += ws()
                for i, c in enumerate(curs):
                    if i:
                        s += self.ows() + ',' + self.ows()
                    s += c
            if r.random() < 0.3:
                s += ws() + r.choice(_BOOKINGS)
            return s
        if kind == 'close':
            return d() + ws() + 'close' + ws() + self.account()
        if kind == 'commodity':
            return d() + ws() + 'commodity' + ws() + self.currency()
        if kind == 'pad':
            return d() + ws() + 'pad' + ws() + self.account() + ws() + self.account()
        if kind == 'balance':
            s = d() + ws() + 'balance' + ws() + self.account() + ws(True) + self.number_expr()
            if r.random() < 0.35:
                s += self.ows_or_ws() + '~' + self.ows_or_ws() + self.number_expr()
            return s + self.ows_or_ws() + self.currency()
        if kind == 'event':
            return d() + ws() + 'event' + ws() + self.string() + ws() + self.string()
        if kind == 'query':
            return d() + ws() + 'query' + ws() + self.string() + ws() + self.string()
        if kind == 'price':
            return d() + ws() + 'price' + ws() + self.currency() + ws(True) + self.amount()
        if kind == 'note':
            return d() + ws() + 'note' + ws() + self.account() + ws() + self.string() + self.tags_links()
        if kind == 'document':
            return d() + ws() + 'document' + ws() + self.account() + ws() + self.string() + self.tags_links()
        if kind == 'custom':
            s = d() + ws() + 'custom' + ws() + self.string()
            for _ in range(r.choice([0, 1, 1, 2, 3, 5])):
                k = r.choice(['string', 'date', 'bool', 'amount', 'number', 'account'])
                v = {'string': self.string, 'date': self.date, 'bool': lambda: r.choice(['TRUE', 'FALSE']),
                     'amount': self.amount, 'number': self.number_expr, 'account': self.account}[k]()
                s += ws() + v
            return s
        if kind == 'transaction':
            s = d() + ws() + r.choice(_FLAGS_TXN)
            k = r.choice([0, 1, 1, 2, 2])
            for _ in range(k):
                s += ws() + self.string()
            return s + self.tags_links()
        if kind == 'option':
            return 'option' + ws() + self.string() + ws() + self.string()
        if kind == 'include':
            return 'include' + ws() + self.string()
        if kind == 'plugin':
            s = 'plugin' + ws() + self.string()
            if r.random() < 0.5:
                s += ws() + self.string()
            return s
        if kind == 'pushtag':
            return 'pushtag' + ws() + r.choice(_TAGS)
        if kind == 'poptag':
            return 'poptag' + ws() + r.choice(_TAGS)
        if kind == 'pushmeta':
            s = 'pushmeta' + ws() + r.choice(_KEYS)
            v = self.meta_value()
            if v is not None:
                s += ws() + v
            return s
        if kind == 'popmeta':
            return 'popmeta' + ws() + r.choice(_KEYS)
        if kind == 'ignored':
            return r.choice(_IGNORED_LINES)
        raise ValueError(kind)

    def directive(self, kind=None):
        """-> list of lines (a line may itself contain line ends: multi-line strings, comment groups)."""
        r = self.r
        kind = kind or r.choice(self.kinds)
        head = self.header(kind)
        if kind == 'ignored':
            return [head]
        lines = [head + self.inline_comment()]
        if kind in ('option', 'include', 'plugin', 'pushtag', 'poptag', 'pushmeta', 'popmeta'):
            return lines
        if kind != 'transaction':
            lines += self.meta_block()
            return lines
        # transaction: [comment] meta* [comment] (posting [comment] meta*)* [comment]
        if r.random() < self.p_comment * 0.5:
            lines.append(self.indented_comment())
        lines += self.meta_block()
        for _ in range(r.choice([0, 1, 2, 2, 2, 3, self.max_postings])):
            if r.random() < self.p_comment * 0.4:
                lines.append(self.indented_comment())
            lines.append(self.posting_line())
            lines += self.meta_block(deep=True)
            if self.risky and r.random() < 0.05:
                lines.append(r.choice(['', '   ', self.comment_text()]))
        if r.random() < self.p_comment * 0.4:
            lines.append(self.indented_comment(deep=r.random() < 0.3))
        return lines

    def filler(self):
        """blank / whitespace-only / comment lines between directives"""
        r = self.r
        out = []
        while r.random() < self.p_blank:
            out.append(r.choice(['', '', '', ' ', '   ', '\t' if self.tabs else '  ']))
        if r.random() < self.p_comment:
            out.append(self.toplevel_comment() if r.random() < 0.75 else self.indented_comment())
            while r.random() < self.p_blank * 0.5:
                out.append(r.choice(['', '', '  ']))
        return out

    def file(self, n_directives):
        r = self.r
        lines = []
        if r.random() < 0.3:
            lines += self.filler()
        for _ in range(n_directives):
            lines += self.directive()
            lines += self.filler()
        text = ''
        for i, l in enumerate(lines):
            text += l
            if i + 1 < len(lines):
                text += self.eol()
        fin = self.final_newline
        if fin is None:
            fin = r.random() < 0.8
        if fin and lines:
            text += self.eol()
            if r.random() < 0.1:
                text += self.eol()
        if self.risky and r.random() < 0.05:
            text = text.replace('\n', '\r', 1)
        return text


def gen_file(rng, n_directives, **opts) -> str:
    """A whole ledger with `n_directives` directives. opts: eol ('\\n'|'\\r\\n'|'\\r\\r\\n'|'mixed'), unicode, tabs,
    comments, inline_comments, blanks, multiline_strings (probabilities), risky, kinds (subset of
    DIRECTIVE_KINDS), final_newline (True/False/None=random), max_meta, max_postings."""
    return Gen(rng, **opts).file(n_directives)


_FRAGMENT_KINDS = ['number_expr', 'amount', 'cost_spec', 'price', 'posting', 'meta_item', 'tolerance', 'directive',
                   'directive', 'transaction', 'compound']


def gen_fragment(rng, **opts):
    """Text for a non-File target, with optional outer trivia (spaces / comment / newline around it)."""
    g = Gen(rng, **opts)
    k = rng.choice(_FRAGMENT_KINDS)
    if k == 'number_expr':
        body, rule = g.number_expr(), 'number_expr'
    elif k == 'amount':
        body, rule = g.amount(), 'amount'
    elif k == 'cost_spec':
        body, rule = g.cost_spec(), 'cost_spec'
    elif k == 'price':
        body, rule = g.price_annotation(), 'unit_price'
    elif k == 'posting':
        e = g.eol()
        body, rule = e.join([g.posting_line()] + g.meta_block(deep=True)), 'posting'
    elif k == 'meta_item':
        body, rule = g.meta_line(), 'meta_item'
    elif k == 'tolerance':
        body, rule = '~' + g.ows() + g.number_expr(), 'tolerance'
    elif k == 'compound':
        body, rule = g.number_expr() + ' # ' + g.number_expr() + ' ' + g.currency(), 'compound_amount'
    elif k == 'transaction':
        e = g.eol()
        body, rule = e.join(g.directive('transaction')), 'transaction'
    else:
        kind = rng.choice([x for x in DIRECTIVE_KINDS if x != 'transaction'])
        e = g.eol()
        body, rule = e.join(g.directive(kind)), ('ignored_line' if kind == 'ignored' else kind)
    x = rng.random()
    if x < 0.55:
        return body, rule
    pre = rng.choice(['', ' ', '  ', '\t', '', ''])
    post = rng.choice(['', ' ', '  ', '\n', ' ; c', '\n; c', '', ''])
    if x > 0.9:
        pre = rng.choice(['; lead\n', '\n', '  ; lead\n', ' \n']) + pre
    return pre + body + post, rule


# ---- exhaustive line-level layouts -----------------------------------------------------------------
LINE_ALPHABET = {
    'D': '2000-01-01 open Assets:Foo',          # directive
    'T': '2000-01-01 *',                        # transaction header
    'P': '  Assets:Foo  1 USD',                 # posting
    'M': '  aa: 1',                             # meta line
    'C': '; c',                                 # top-level comment
    'I': '  ; i',                               # indented comment
    'B': '',                                    # blank
    'W': '   ',                                 # whitespace-only
}


def gen_layouts(max_lines, eols=('\n', '\r\n'), alphabet=None):
    """All layouts of 0..max_lines lines over LINE_ALPHABET x uniform line end x final newline or not.
    Yields (name, text)."""
    alpha = alphabet or LINE_ALPHABET
    keys = list(alpha)
    yield ('', '')
    for n in range(1, max_lines + 1):
        for combo in itertools.product(keys, repeat=n):
            for e in eols:
                body = e.join(alpha[k] for k in combo)
                tag = ''.join(combo) + ('/LF' if e == '\n' else '/CRLF')
                yield (tag + '-', body)
                yield (tag + '+', body + e)
