"""Shared by C04 and C14: tracing of the comment-attribution primitives of the real code (lock-step lines for the
Lean model `Autobean.Comments`, driver prefix `M`), the ownership census, and the documented attribution rule
evaluated by an independent line-based function.

Tracing: the module-level primitives (`surrounding_comments._claim_comment`, `interleaving_comments._shift_ignored`)
and the methods `_CommentClaimer.claim`, `unclaim_leading/trailing_comment`, `unclaim_interleaving_comments` are
wrapped while a `Tracer` is active.  Every traced call dumps the store window before the call, performs the real
call, dumps the window after it and records (protocol line, expected driver output).  The driver computes
`f(pre, args)`; `Tracer.diff` compares.  The model is re-synchronised from the real state at every call."""
from __future__ import annotations
from autobean_refactor import models
from autobean_refactor.models import base, internal
from autobean_refactor.models.internal import surrounding_comments as _sc
from autobean_refactor.models.internal import interleaving_comments as _ic
from autobean_refactor.models.internal.placeholder import Placeholder
import intro
from common import enc_text

MAX_WINDOW = 700
CLAIM_WINDOW = 40


class Ids:
    """object identity -> small int in order of first appearance (objects are kept alive)."""

    def __init__(self):
        self.m = {}
        self.keep = []

    def __call__(self, obj):
        i = self.m.get(id(obj))
        if i is None:
            i = len(self.m) + 1
            self.m[id(obj)] = i
            self.keep.append(obj)
        return i


def kind_of(t):
    if isinstance(t, Placeholder):
        return 'p'
    if isinstance(t, models.Newline):
        return 'n'
    if isinstance(t, models.Whitespace):
        return 'w'
    if isinstance(t, models.BlockComment):
        return 'c'
    if not t.raw_text:
        return 'm'
    return 'o'


def enc_store(toks, ids):
    if not toks:
        return '-'
    return ','.join(f'{ids(t)}:{kind_of(t)}:{enc_text(t.raw_text[:3])}:{1 if getattr(t, "claimed", False) and isinstance(t, models.BlockComment) else 0}'
                    for t in toks)


def enc_post(toks, ids):
    if not toks:
        return '-'
    return ','.join(f'{ids(t)}:{1 if getattr(t, "claimed", False) and isinstance(t, models.BlockComment) else 0}' for t in toks)


def enc_ids(xs):
    return ','.join(str(x) for x in xs) if xs else '-'


def window(store, lo_tok, hi_tok, pad):
    """Tokens of the store from `pad` tokens before lo_tok to `pad` tokens after hi_tok (as a list)."""
    toks = list(store)
    pos = {id(t): i for i, t in enumerate(toks)}
    a = pos.get(id(lo_tok))
    b = pos.get(id(hi_tok))
    if a is None or b is None:
        return None
    if a > b:
        a, b = b, a
    return toks[max(0, a - pad):b + 1 + pad]


class Tracer:
    """Context manager: while active, attribution primitives are traced."""

    def __init__(self, ids=None, limit=4000, sample=1.0, rng=None):
        self.ids = ids or Ids()
        self.lines = []      # (protocol line, expected output, info dict)
        self.limit = limit
        self.sample = sample
        self.rng = rng
        self.counts = {}
        self.placeholder_text = 0     # placeholders with non-empty text seen in a dump (model hypothesis)
        self._saved = None
        self.context = None   # replay info of the enclosing scenario

    # -- recording ------------------------------------------------------------------------------------------
    def _want(self, key):
        self.counts[key] = self.counts.get(key, 0) + 1
        if len(self.lines) >= self.limit:
            return False
        if self.sample < 1.0 and self.rng is not None and self.rng.random() > self.sample:
            return False
        return True

    def _check_ph(self, toks):
        for t in toks:
            if isinstance(t, Placeholder) and t.raw_text:
                self.placeholder_text += 1

    def _rec(self, line, expected, what):
        self.lines.append((line, expected, {'call': what, 'context': self.context}))

    # -- wrappers -------------------------------------------------------------------------------------------
    def _wrap_claim_comment(self, orig):
        tr = self

        def _claim_comment(current, token_store, start, *, backwards, ignore_if_already_claimed):
            call = 'claimL' if backwards else 'claimT'
            if not tr._want(call):
                return orig(current, token_store, start, backwards=backwards, ignore_if_already_claimed=ignore_if_already_claimed)
            w = window(token_store, start, start, CLAIM_WINDOW)
            if w is None:
                return orig(current, token_store, start, backwards=backwards, ignore_if_already_claimed=ignore_if_already_claimed)
            tr._check_ph(w)
            pre = enc_store(w, tr.ids)
            pre_post = enc_post(w, tr.ids)
            slot = tr.ids(current) if current is not None else '-'
            line = f'M {call} {pre} {slot} {tr.ids(start)} {1 if ignore_if_already_claimed else 0}'
            wset = {id(t) for t in w}
            try:
                r = orig(current, token_store, start, backwards=backwards, ignore_if_already_claimed=ignore_if_already_claimed)
            except ValueError as e:
                post = [t for t in token_store if id(t) in wset]
                tag = 'claimed' if 'already claimed' in str(e) else 'other'
                exp = f'err {tag}'
                if enc_post(post, tr.ids) != pre_post:
                    exp += ' BUT-STATE-CHANGED'
                tr._rec(line, exp, call)
                raise
            post = [t for t in token_store if id(t) in wset]
            rid = tr.ids(r) if r is not None else '-'
            tr._rec(line, f'ok {enc_post(post, tr.ids)} ret={rid} slot={rid}', call)
            return r
        return _claim_comment

    def _wrap_shift(self, orig):
        tr = self

        def _shift_ignored(token_store, first, last, *, backwards):
            if not tr._want('shift'):
                return orig(token_store, first, last, backwards=backwards)
            w = window(token_store, first, last, 3)
            if w is None or len(w) > MAX_WINDOW:
                return orig(token_store, first, last, backwards=backwards)
            tr._check_ph(w)
            line = f'M shift {enc_store(w, tr.ids)} {tr.ids(first)} {tr.ids(last)} {"b" if backwards else "f"}'
            wset = {id(t) for t in w}
            r = orig(token_store, first, last, backwards=backwards)
            post = [t for t in token_store if id(t) in wset]
            tr._rec(line, f'ok {enc_post(post, tr.ids)} ret=-', 'shift')
            return r
        return _shift_ignored

    @staticmethod
    def _enc_items(items, ids):
        if not items:
            return '-'
        return ','.join(f'{ids(x.first_token)}:{ids(x.last_token)}:{1 if isinstance(x, models.BlockComment) else 0}' for x in items)

    def _wrap_claimer(self, orig):
        tr = self

        def claim(self_):
            if not tr._want('inter'):
                return orig(self_)
            rep, model = self_._repeated, self_._model
            store = rep.token_store
            try:
                w = window(store, model.first_token, model.last_token, 2)
            except Exception:
                w = None
            if w is None or len(w) > MAX_WINDOW:
                tr.counts['inter:window-skipped'] = tr.counts.get('inter:window-skipped', 0) + 1
                return orig(self_)
            tr._check_ph(w)
            cs = self_._comments_to_claim
            if getattr(tr, '_api_sel_set', False):
                cs = _ic._Universe() if tr._api_sel is None else set(tr._api_sel)
            sset = '*' if isinstance(cs, _ic._Universe) else enc_ids(sorted(tr.ids(_find_obj(cs_id, tr, store)) for cs_id in cs))
            line = (f'M inter {enc_store(w, tr.ids)} {tr.ids(rep.first_token)} {tr._enc_items(rep.items, tr.ids)} '
                    f'{tr.ids(model.first_token)} {tr.ids(model.last_token)} {sset}')
            pre_post = enc_post(w, tr.ids)
            wset = {id(t) for t in w}
            try:
                r = orig(self_)
            except ValueError as e:
                post = [t for t in store if id(t) in wset]
                exp = 'err notfound' if 'not found' in str(e) else 'err other'
                if enc_post(post, tr.ids) != pre_post:
                    exp += ' BUT-STATE-CHANGED'
                tr._rec(line, exp, 'inter')
                raise
            post = [t for t in store if id(t) in wset]
            tr._rec(line, f'ok {enc_post(post, tr.ids)} ret={enc_ids([tr.ids(c) for c in r])} items={tr._enc_items(rep.items, tr.ids)}', 'inter')
            return r
        return claim

    def _wrap_unclaim_inter(self, orig):
        tr = self

        def unclaim_interleaving_comments(self_, comments=None):
            if comments is not None:
                comments = list(comments)
            if not tr._want('uninter'):
                return orig(self_, comments)
            rep, model = self_._repeated, self_._model
            store = rep.token_store
            try:
                w = window(store, model.first_token, model.last_token, 2)
            except Exception:
                w = None
            if w is None or len(w) > MAX_WINDOW:
                return orig(self_, comments)
            sset = '*' if comments is None else enc_ids(sorted({tr.ids(c) for c in comments}))
            line = f'M uninter {enc_store(w, tr.ids)} {tr._enc_items(rep.items, tr.ids)} {sset}'
            pre_post = enc_post(w, tr.ids)
            wset = {id(t) for t in w}
            try:
                r = orig(self_, comments)
            except ValueError as e:
                post = [t for t in store if id(t) in wset]
                exp = 'err notfound' if 'not found' in str(e) else 'err other'
                if enc_post(post, tr.ids) != pre_post:
                    exp += ' BUT-STATE-CHANGED'
                tr._rec(line, exp, 'uninter')
                raise
            post = [t for t in store if id(t) in wset]
            tr._rec(line, f'ok {enc_post(post, tr.ids)} ret={enc_ids([tr.ids(c) for c in r])} items={tr._enc_items(rep.items, tr.ids)}', 'uninter')
            return r
        return unclaim_interleaving_comments

    def _wrap_unclaim(self, orig, leading):
        tr = self
        call = 'unclaimL' if leading else 'unclaimT'
        attr = '_leading_comment' if leading else '_trailing_comment'

        def unclaim(self_):
            if not tr._want(call):
                return orig(self_)
            cur = self_.__dict__.get(attr)
            store = self_.token_store
            if cur is not None:
                w = window(store, cur, cur, 4)
            else:
                try:
                    ft = self_.first_token
                    w = window(store, ft, ft, 4)
                except Exception:
                    w = None
            if w is None:
                return orig(self_)
            slot = tr.ids(cur) if cur is not None else '-'
            line = f'M {call} {enc_store(w, tr.ids)} {slot}'
            wset = {id(t) for t in w}
            r = orig(self_)
            post = [t for t in store if id(t) in wset]
            now = self_.__dict__.get(attr)
            tr._rec(line, f'ok {enc_post(post, tr.ids)} ret={tr.ids(r) if r is not None else "-"} slot={tr.ids(now) if now is not None else "-"}', call)
            return r
        return unclaim

    def __enter__(self):
        W = _ic.RepeatedNodeWithInterleavingCommentsWrapper
        M = _sc.SurroundingCommentsMixin
        self._saved = (_sc._claim_comment, _ic._shift_ignored, _ic._CommentClaimer.claim, W.unclaim_interleaving_comments,
                       M.unclaim_leading_comment, M.unclaim_trailing_comment)
        self._saved_api_claim = W.claim_interleaving_comments
        tr, orig_api = self, W.claim_interleaving_comments

        def claim_interleaving_comments(self_, comments=None):
            # the selection AS THE CALLER GAVE IT (None = everything; the empty list is a selection): the model line of the
            # claimer is fed from here, not from what the claimer's constructor made of it
            if comments is not None:
                comments = list(comments)
                tr._api_sel = [id(c) for c in comments]
            else:
                tr._api_sel = None
            tr._api_sel_set = True
            try:
                return orig_api(self_, comments)
            finally:
                tr._api_sel_set = False
        W.claim_interleaving_comments = claim_interleaving_comments
        _sc._claim_comment = self._wrap_claim_comment(_sc._claim_comment)
        _ic._shift_ignored = self._wrap_shift(_ic._shift_ignored)
        _ic._CommentClaimer.claim = self._wrap_claimer(_ic._CommentClaimer.claim)
        W.unclaim_interleaving_comments = self._wrap_unclaim_inter(W.unclaim_interleaving_comments)
        M.unclaim_leading_comment = self._wrap_unclaim(M.unclaim_leading_comment, True)
        M.unclaim_trailing_comment = self._wrap_unclaim(M.unclaim_trailing_comment, False)
        return self

    def __exit__(self, *a):
        W = _ic.RepeatedNodeWithInterleavingCommentsWrapper
        M = _sc.SurroundingCommentsMixin
        (_sc._claim_comment, _ic._shift_ignored, _ic._CommentClaimer.claim, W.unclaim_interleaving_comments,
         M.unclaim_leading_comment, M.unclaim_trailing_comment) = self._saved
        W.claim_interleaving_comments = self._saved_api_claim
        return False

    # -- diff -------------------------------------------------------------------------------------------------
    def diff(self, ctx, stream):
        """Run the driver on all recorded lines and report divergences."""
        if not self.lines:
            return 0
        if not ctx.extra.get('model_available', True):
            ctx.notes.append(f'{stream}: Lean model unavailable, correspondence skipped')
            return 0
        outs = ctx.driver.run([l for l, _, _ in self.lines])
        bad = 0
        for (line, exp, info), got in zip(self.lines, outs):
            ctx.count(f'lockstep:{info["call"]}:{"err" if exp.startswith("err") else "ok"}')
            if got != exp:
                bad += 1
                ctx.divergence(stream, {'line': line[:2000], 'real': exp[:1500], 'model': got[:1500]},
                               {'line': line, 'expected': exp, 'context': info.get('context')})
        for k, v in self.counts.items():
            ctx.count('traced:' + k, v)
        if self.placeholder_text:
            ctx.divergence(stream, {'hypothesis': 'placeholders have empty text', 'violations': self.placeholder_text}, {})
        return bad


def _find_obj(obj_id, tr, store):
    """The object with this id() among the store tokens (or a stand-in kept alive by the id map)."""
    for t in store:
        if id(t) == obj_id:
            return t
    for o in tr.ids.keep:
        if id(o) == obj_id:
            return o
    return _Foreign(obj_id)


class _Foreign:
    _cache = {}

    def __new__(cls, obj_id):
        o = cls._cache.get(obj_id)
        if o is None:
            o = object.__new__(cls)
            cls._cache[obj_id] = o
        return o


# ---- ownership census ------------------------------------------------------------------------------------------

def census(root):
    """{id(comment token): [owner descriptor]} over every model reachable from root; owner descriptors are
    ('leading'|'trailing', owner model) or ('item', Repeated node, index)."""
    out = {}

    def rec(n):
        if isinstance(n, base.RawTokenModel):
            return
        if isinstance(n, internal.Repeated):
            for i, x in enumerate(n.items):
                if isinstance(x, models.BlockComment):
                    out.setdefault(id(x), []).append(('item', n, i))
                else:
                    rec(x)
            return
        for name, kind, v in intro.field_values(n):
            if v is None:
                continue
            if isinstance(v, models.BlockComment):
                k = 'leading' if name == '_leading_comment' else 'trailing' if name == '_trailing_comment' else 'field:' + name
                out.setdefault(id(v), []).append((k, n))
            else:
                rec(v)
    rec(root)
    return out


def census_key(root, ids=None):
    """Canonical census: sorted [(comment position in store, owner kind, owner first-token position, item index)]
    plus the claimed flags; comparable across two parses of the same text."""
    toks = list(root.token_store)
    pos = {id(t): i for i, t in enumerate(toks)}
    cen = census(root)
    out = []
    k = 0
    for t in toks:
        if not isinstance(t, models.BlockComment):
            continue
        owners = []
        for o in cen.get(id(t), []):
            if o[0] == 'item':
                owners.append(('item', _core_index(o[1], toks, pos), o[2]))
            else:
                owners.append((o[0], _core_index(o[1], toks, pos)))
        out.append((k, t.raw_text, bool(t.claimed), tuple(sorted(owners))))
        k += 1
    return out


def _core_index(model, toks, pos):
    """Index (among visible tokens) of the first visible non-comment token at or after the model's first leaf:
    identifies a model independently of placeholder positions and of its leading comment."""
    if isinstance(model, internal.Repeated):
        i = pos.get(id(model.placeholder), -1)
        # identify a repeated field by the number of significant tokens before its placeholder and the number
        # of placeholders between it and the previous significant token
        sig = sum(1 for t in toks[:i] if t.raw_text and not isinstance(t, (models.BlockComment, models.Newline, models.Whitespace)))
        return ('rep', sig, type(model.items[0]).__name__ if model.items and not isinstance(model.items[0], models.BlockComment) else '')
    for leaf in intro.leaves(model):
        if isinstance(leaf, models.BlockComment) or not leaf.raw_text:
            continue
        i = pos.get(id(leaf), -1)
        return ('node', type(model).__name__, sum(1 for t in toks[:i] if t.raw_text and not isinstance(t, (models.BlockComment, models.Newline, models.Whitespace))))
    return ('node', type(model).__name__, -1)


def check_census(root, *, require_owned=False):
    """The C14 oracle on one state: [(signature, description)]."""
    bad = []
    cen = census(root)
    store_ids = set()
    for t in root.token_store:
        if not isinstance(t, models.BlockComment):
            continue
        store_ids.add(id(t))
        owners = cen.get(id(t), [])
        if len(owners) > 1:
            bad.append(('two-owners', f'comment {t.raw_text!r} is held by {len(owners)} slots: {[o[0] for o in owners]}'))
        elif bool(t.claimed) != (len(owners) == 1):
            bad.append(('flag-mismatch', f'comment {t.raw_text!r} claimed={t.claimed} but {len(owners)} owner(s)'))
        elif require_owned and not owners:
            bad.append(('unowned-after-default-parse', f'comment {t.raw_text!r} has no owner after default parsing'))
    pos = None
    for cid, owners in cen.items():
        for o in owners:
            if o[0] == 'item':
                if pos is None:
                    pos = {id(t): i for i, t in enumerate(root.token_store)}
                if cid in pos and pos.get(id(o[1].placeholder), -1) > pos[cid]:
                    bad.append(('claimed-before-placeholder', 'an entry of a repeated field sits before the placeholder of that field'))
    # a leading / trailing comment is directly adjacent to its owner: only one line break and zero-width
    # placeholders lie in between -- in particular no dedent / indent mark (the documented "same indentation")
    toks = list(root.token_store)
    tpos = {id(t): i for i, t in enumerate(toks)}
    for cid, owners in cen.items():
        for o in owners:
            if o[0] not in ('leading', 'trailing') or cid not in tpos:
                continue
            m = o[1]
            try:
                if o[0] == 'leading':
                    nxt = next((v for name, kind, v in intro.field_values(m) if v is not None and name != '_leading_comment'), None)
                    a, b = tpos[cid], tpos[id(nxt.first_token)]
                else:
                    prev = [v for name, kind, v in intro.field_values(m) if v is not None and name != '_trailing_comment'][-1]
                    a, b = tpos[id(prev.last_token)], tpos[cid]
            except Exception:
                continue
            between = toks[a + 1:b]
            # comments somebody released by hand (unowned) may sit in between, each on its own line
            loose = [t for t in between if isinstance(t, models.BlockComment) and not t.claimed]
            odd = [t for t in between if not (isinstance(t, intro.Placeholder) or isinstance(t, models.Newline) or any(t is x for x in loose))]
            if odd or sum(1 for t in between if isinstance(t, models.Newline)) != 1 + len(loose):
                kinds = [type(t).__name__ for t in between]
                bad.append((f'{o[0]}-comment-not-adjacent' + (':across-dedent-mark' if any(isinstance(t, models.DedentMark) for t in between) else ''),
                            f'{o[0]} comment of {type(m).__name__} is separated from it by {kinds}'))
    for cid, owners in cen.items():
        if cid not in store_ids:
            bad.append(('owned-comment-not-in-store', f'a slot ({owners[0][0]}) holds a comment that is not in the document store'))
    return bad


# ---- the documented rule, from docs/special/comments.md, on lines ------------------------------------------------

LINES = {'D': '2000-01-01 open Assets:Foo', 'T': '2000-01-01 *', 'P': '  Assets:Foo', 'M': '  aa: 1',
         'C': '; c', 'I': '  ; c', 'B': ''}
CLASS = {'D': 0, 'T': 0, 'P': 1, 'M': 1, 'C': 0, 'I': 1}


def layout_text(lay):
    # every third blank line is a line of blanks only (a blank line all the same)
    return ''.join((LINES[c] + (str(i) if c in 'CI' else '') + ('    ' if c == 'B' and i % 3 == 1 else '')) + '\n' for i, c in enumerate(lay))


def rule(lay):
    """Documented attribution (docs/special/comments.md, "Automatic comment attribution") of every comment block
    of a layout (string over D T P M C I B), independent of the library:

      * immediately before a model with the same indentation class, no blank line in between -> its leading comment
      * otherwise immediately after a model with the same indentation class, no blank line   -> its trailing comment
      * otherwise                                                                             -> standalone entry

    Returns {first line of block: ('leading'|'trailing', owner line) | ('item', parent line or -1) | None}.
    None = the documentation does not single out one owner (not judged): the block touches another comment block on
    the side that decides, or two models of the same indentation class end directly above (a posting and its last
    meta item)."""
    n = len(lay)
    out = {}
    i = 0
    while i < n:
        c = lay[i]
        if c not in 'CI':
            i += 1
            continue
        j = i
        while j + 1 < n and lay[j + 1] == c:
            j += 1
        k = CLASS[c]
        above = lay[i - 1] if i > 0 else '^'
        below = lay[j + 1] if j + 1 < n else '$'
        out[i] = _rule_block(lay, i, j, k, above, below)
        i = j + 1
    return out


def _enclosing_top(lay, i):
    """Line of the top-level model whose indented body contains line i (None if line i is not in a body)."""
    k = i
    while k >= 0:
        c = lay[k]
        if c in 'DT':
            return k
        if c == 'B':
            return None
        k -= 1
    return None


def _in_body_continues(lay, j):
    """True if after line j (skipping comment lines) the body of the enclosing top-level model continues."""
    k = j + 1
    while k < len(lay) and lay[k] in 'CI':
        k += 1
    return k < len(lay) and lay[k] in 'PM'


def _rule_block(lay, i, j, k, above, below):
    # leading
    if below in 'DTPM' and CLASS[below] == k:
        if k == 1 and _enclosing_top(lay, j) is None:
            return None   # an indented model line without a directive above does not parse anyway
        return ('leading', j + 1)
    if below in 'CI':
        return None       # touches another comment block below: which of the two is "immediately before" is not said
    # trailing
    if above in 'CI':
        return None
    if k == 0:
        if _in_body_continues(lay, j) and _enclosing_top(lay, i - 1) is not None:
            # an unindented comment in the middle of an indented body: the directive has not ended
            return ('item', _enclosing_top(lay, i - 1))
        if above in 'DT':
            return ('trailing', i - 1)
        if above in 'PM':
            top = _enclosing_top(lay, i - 1)
            return ('trailing', top) if top is not None else None
        return ('item', -1)
    # indented comment
    top = _enclosing_top(lay, i - 1) if i > 0 else None
    if above == 'P':
        return ('trailing', i - 1)
    if above == 'M':
        # meta of a posting: posting and meta item both end directly above, same indentation class
        b = i - 1
        while b >= 0 and lay[b] in 'MCI':
            b -= 1
        if b >= 0 and lay[b] == 'P':
            return None
        return ('trailing', i - 1)
    if above in 'DT':
        return ('item', i - 1)      # first line of the body, no model below: standalone entry of the directive
    return ('item', -1)             # after a blank line / at the file start: top level


def actual_attribution(root, lay, fields=None):
    """{first line of comment token: (kind, owner line)} from the real objects (lines by counting line breaks)."""
    toks = list(root.token_store)
    line_of = {}
    ln = 0
    for t in toks:
        line_of[id(t)] = ln
        ln += t.raw_text.count('\n')
    cen = census(root)
    out = {}
    for t in toks:
        if not isinstance(t, models.BlockComment):
            continue
        owners = cen.get(id(t), [])
        if len(owners) != 1:
            out[line_of[id(t)]] = ('unowned' if not owners else 'multi', None)
            continue
        o = owners[0]
        if o[0] == 'item':
            parent, fname = _parent_of_repeated(root, o[1])
            out[line_of[id(t)]] = ('item', -1 if isinstance(parent, models.File) else _model_line(parent, line_of))
            if fields is not None:
                fields[line_of[id(t)]] = fname
        else:
            out[line_of[id(t)]] = (o[0], _model_line(o[1], line_of))
    return out


def _model_line(m, line_of):
    for leaf in intro.leaves(m):
        if isinstance(leaf, models.BlockComment) or not leaf.raw_text:
            continue
        return line_of.get(id(leaf), -2)
    return -2


def _parent_of_repeated(root, rep):
    for _, n in intro.walk(root):
        if isinstance(n, base.RawTokenModel) or isinstance(n, internal.Repeated):
            continue
        for name, kind, v in intro.field_values(n):
            if v is rep:
                return n, name
    return None, None


# ---- the tree walk of auto_claim_comments (Lean: Model/AutoClaim.lean, driver `M walk`) ------------------------------

_WC_CACHE: dict = {}


def _with_comments_fields(cls):
    """Names of the repeated fields of `cls` that are exposed through a `raw_x_with_comments` property (their
    `auto_claim_comments` ends with `claim_interleaving_comments()`)."""
    r = _WC_CACHE.get(cls)
    if r is None:
        r = {f for _, (f, wc) in intro.api_props(cls)['rep'].items() if wc}
        _WC_CACHE[cls] = r
    return r


def _relevant(m):
    """Does attribution do anything below this model?"""
    if isinstance(m, base.RawTokenModel) or not hasattr(m, '__dict__'):
        return False
    if isinstance(m, _sc.SurroundingCommentsMixin):
        return True
    if isinstance(m, internal.Repeated):
        return any(isinstance(x, models.BlockComment) or _relevant(x) for x in m.items)
    if isinstance(m, (intro.NumberAddExpr, intro.NumberMulExpr)):
        return False
    wc = _with_comments_fields(type(m))
    for name, kind, v in intro.field_values(m):
        if v is None:
            continue
        if kind == 'rep' and name in wc:
            return True
        if _relevant(v):
            return True
    return False


class WalkDump:
    """s-expression of the comment-relevant tree (protocol of Driver/CommentsD.lean) + the nodes in the driver's order."""

    def __init__(self, root, ids):
        self.ids = ids
        self.surrounds = []      # block-commentable models, pre-order
        self.reps = []           # Repeated nodes, in the order of `repsOf`
        self.prefilled = False   # some slot / comment entry is filled before the walk
        self.sx = self._node(root)

    def _entries(self, v):
        ids = self.ids
        ents = []
        for x in v.items:
            if isinstance(x, models.BlockComment):
                self.prefilled = True
                ents.append(f'c{ids(x)}')
            elif _relevant(x):
                ents.append(self._node(x))
            else:
                ents.append(f'(B,0,(P,{ids(x.first_token)},{ids(x.last_token)}))')
        return ents

    def _node(self, m):
        ids = self.ids
        if isinstance(m, internal.Repeated):
            # a bare `Repeated` as the root: `Repeated.auto_claim_comments` = its entries last to first, nothing else
            self.reps.append(m)
            return ','.join([f'(B,0,(R,{ids(m)},{ids(m.placeholder)},0'] + self._entries(m)) + '))'
        if isinstance(m, _sc.SurroundingCommentsMixin):
            self.surrounds.append(m)
            le, tr = m.__dict__.get('_leading_comment'), m.__dict__.get('_trailing_comment')
            if le is not None or tr is not None:
                self.prefilled = True
            head = f'(S,{ids(m)},{ids(le) if le is not None else "-"},{ids(tr) if tr is not None else "-"}'
            skip = ('_leading_comment', '_trailing_comment')
        else:
            head = f'(B,{1 if isinstance(m, models.File) else 0}'
            skip = ()
        wc = _with_comments_fields(type(m))
        parts = [head]
        for name, kind, v in intro.field_values(m):
            if name in skip:
                continue
            if v is None:
                parts.append('(P)')
            elif isinstance(v, internal.Repeated):
                self.reps.append(v)
                parts.append(','.join([f'(R,{ids(v)},{ids(v.placeholder)},{1 if name in wc else 0}'] + self._entries(v)) + ')')
            elif _relevant(v):
                parts.append(f'(C,{self._node(v)})')
            else:
                parts.append(f'(P,{ids(v.first_token)},{ids(v.last_token)})')
        return ','.join(parts) + ')'

    def post(self, store, calls):
        """The expected driver output (up to `calls=`) from the real objects after the real walk."""
        ids = self.ids
        le = sorted((ids(m), ids(m.__dict__['_leading_comment'])) for m in self.surrounds if m.__dict__.get('_leading_comment') is not None)
        tr = sorted((ids(m), ids(m.__dict__['_trailing_comment'])) for m in self.surrounds if m.__dict__.get('_trailing_comment') is not None)
        enc = lambda l: ';'.join(f'{a}:{b}' for a, b in l) if l else '-'
        reps = ';'.join(f'{ids(r)}:' + '.'.join(f'c{ids(x)}' if isinstance(x, models.BlockComment) else 'n' for x in r.items) for r in self.reps)
        fl = ';'.join(f'{ids(m)}:{ids(m.first_token)}:{ids(m.last_token)}' for m in self.surrounds)
        return (f'ok {enc_post(list(store), ids)} L={enc(le)} T={enc(tr)} R={reps or "-"} F={fl or "-"} '
                f'calls={",".join(calls) if calls else "-"}')


def _py_file_layout(claimer):
    """The hypothesis of `walk_all_claimed_partial` on the REAL state right before the final claim of a File: the
    placeholder is the first token of the store, the entries are laid out in order, every block comment inside an
    entry's span is claimed, behind the last entry there is nothing that stops `_find_outer`."""
    rep = claimer._repeated
    toks = list(rep.token_store)
    if not toks or toks[0] is not rep.placeholder:
        return False
    pos = {id(t): i for i, t in enumerate(toks)}
    cur = 1
    for it in rep.items:
        f, l = pos.get(id(it.first_token)), pos.get(id(it.last_token))
        if f is None or l is None or f < cur or l < f:
            return False
        if any(isinstance(t, models.BlockComment) and not t.claimed for t in toks[f:l + 1]):
            return False
        cur = l + 1
    for t in toks[cur:]:
        if isinstance(t, models.BlockComment):
            if t.claimed or not t.raw_text:
                return False
        elif not (isinstance(t, (models.Newline, models.Whitespace)) or not t.raw_text):
            return False
    return True


class CallTrace:
    """While active, records the attribution primitives in the order they are called (composes with `Tracer`):
    `L<start>` / `T<start>` = `_claim_comment` backwards / forwards from <start>, `I<ph>:<first>:<last>` =
    `_CommentClaimer.claim` of the field with placeholder <ph> inside `model.first_token..model.last_token`."""

    def __init__(self, ids, root=None):
        self.ids = ids
        self.root = root
        self.calls = []
        self.file_layout = None
        self.other = 0

    def __enter__(self):
        tr = self
        self._saved = (_sc._claim_comment, _ic._CommentClaimer.claim)
        o1, o2 = self._saved

        def _claim_comment(current, token_store, start, *, backwards, ignore_if_already_claimed):
            tr.calls.append(('L' if backwards else 'T') + str(tr.ids(start)))
            if not ignore_if_already_claimed:
                tr.other += 1
            return o1(current, token_store, start, backwards=backwards, ignore_if_already_claimed=ignore_if_already_claimed)

        def claim(self_):
            rep, model = self_._repeated, self_._model
            tr.calls.append(f'I{tr.ids(rep.first_token)}:{tr.ids(model.first_token)}:{tr.ids(model.last_token)}')
            if not isinstance(self_._comments_to_claim, _ic._Universe):
                tr.other += 1
            if model is tr.root:
                tr.file_layout = _py_file_layout(self_)
            return o2(self_)
        _sc._claim_comment = _claim_comment
        _ic._CommentClaimer.claim = claim
        return self

    def __exit__(self, *a):
        _sc._claim_comment, _ic._CommentClaimer.claim = self._saved
        return False


class WalkRecorder:
    """Lock-step of `root.auto_claim_comments()` with `autoClaimWalk` of the Lean model: pre-state (store + tree) ->
    protocol line; the real walk; post-state + call order -> expected output; one batched driver run; diff."""

    def __init__(self, limit=20000, max_tokens=1500):
        self.lines = []     # (line, expected, py hypothesis, replay)
        self.limit = limit
        self.max_tokens = max_tokens
        self.skipped = 0
        self.moved = 0        # walks that changed the store order (a placeholder moved)
        self.prefilled = 0    # walks that started with some slot / comment entry already filled

    def run(self, root, replay):
        """Performs `root.auto_claim_comments()` (traced if within budget)."""
        store = root.token_store
        n = len(store)
        if len(self.lines) >= self.limit or n > self.max_tokens:
            self.skipped += 1
            root.auto_claim_comments()
            return
        ids = Ids()
        toks = list(store)
        pre = enc_store(toks, ids)
        dump = WalkDump(root, ids)
        trace = CallTrace(ids, root if isinstance(root, models.File) else None)
        with trace:
            root.auto_claim_comments()
        exp = dump.post(store, trace.calls)
        if trace.other:
            exp += ' UNEXPECTED-ARGUMENTS'      # a claim without ignore_if_already_claimed / with a comment set
        self.moved += [id(t) for t in store] != [id(t) for t in toks]
        self.prefilled += dump.prefilled
        self.lines.append((f'M walk {pre} {dump.sx}', exp, trace.file_layout, replay))

    def diff(self, ctx, stream='auto-claim-walk'):
        if not self.lines:
            return 0
        if not ctx.extra.get('model_available', True):
            ctx.notes.append(f'{stream}: Lean model unavailable, correspondence skipped')
            return 0
        outs = ctx.driver.run([l for l, _, _, _ in self.lines])
        bad = 0
        for (line, exp, pyhyp, replay), got in zip(self.lines, outs):
            head, _, tail = got.partition(' again=')
            again, _, hyp = tail.partition(' hyp=')
            ctx.count('walk:docs')
            calls = exp.rsplit(' calls=', 1)[-1].split(' ')[0]
            ctx.count('walk:calls', 0 if calls == '-' else calls.count(',') + 1)
            if head != exp:
                bad += 1
                ctx.count('walk:mismatch')
                ctx.divergence(stream, {'line': line[:2500], 'real': exp[:2000], 'model': got[:2000], 'where': _first_diff(exp, head)},
                               dict(replay, stream=stream, line=line, expected=exp))
                continue
            ctx.count(f'walk:root:{"File" if pyhyp is not None else "inner"}:second-walk:{again.split(":")[0]}')
            if again != 'same' and (pyhyp is not None or again != 'diff'):
                # File root: a second walk must change nothing (walk_idempotent_partial, hypothesis h2 included);
                # inner root: it must at least not be refused by the model
                bad += 1
                ctx.divergence(stream, {'line': line[:2500], 'second-walk-on-the-model': again}, dict(replay, stream=stream, line=line, expected='again=same'))
            if pyhyp is not None:
                # hypothesis of walk_all_claimed_partial: the model evaluates `fileLayoutOk`, the harness the same predicate
                # on the real state right before the final claim
                ctx.count(f'walk:file-layout-hypothesis:{"holds" if pyhyp else "fails"}')
                if hyp != ('1' if pyhyp else '0'):
                    bad += 1
                    ctx.divergence(stream, {'line': line[:2500], 'hypothesis-real': pyhyp, 'hypothesis-model': hyp}, dict(replay, stream=stream, line=line, expected=f'hyp={int(pyhyp)}'))
                all_claimed = all(c == '1' for c in _comment_flags(line, head))
                ctx.count(f'walk:all-claimed:{"yes" if all_claimed else "no"}')
                if pyhyp and not all_claimed:
                    bad += 1
                    ctx.divergence(stream, {'line': line[:2500], 'theorem': 'walk_all_claimed_partial: hypothesis holds but a comment is unclaimed'}, dict(replay, stream=stream, line=line, expected=exp))
        if self.skipped:
            ctx.count('walk:skipped', self.skipped)
        ctx.count('walk:store-order-changed', self.moved)
        ctx.count('walk:started-with-filled-slots', self.prefilled)
        return bad


def _first_diff(a, b):
    fa, fb = a.split(' '), b.split(' ')
    for x, y in zip(fa, fb):
        if x != y:
            return {'real': x[:300], 'model': y[:300]}
    return {'real-fields': len(fa), 'model-fields': len(fb)}


def _comment_flags(line, head):
    """claimed flags (after the walk) of the block comments of the dumped store."""
    pre = line.split(' ')[2]
    kinds = {}
    if pre != '-':
        for t in pre.split(','):
            i, k, _, _ = t.split(':')
            kinds[i] = k
    post = head.split(' ')[1]
    if post == '-':
        return []
    return [t.split(':')[1] for t in post.split(',') if kinds.get(t.split(':')[0]) == 'c']
