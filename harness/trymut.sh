#!/bin/sh
# usage: harness/trymut.sh <seeded name> <prop> [<prop> ...]   -- applies the change to /repo, runs the quick checks, always reverts
name="$1"; shift
git -C /repo apply "/verif/seeded/$name/patch.diff" || exit 2
for p in "$@"; do (cd /verif && ./check "$p" ${TIER:-quick} 2>&1 | grep -E "VIOLATION|-> |INFRA" | cut -c1-260 | sed "s/^/$name: /"); done
git -C /repo checkout -- . ; git -C /repo clean -fdq -- autobean_refactor
