"""Token assignments on parsed documents (C02, and the document-level part of C08).

A document is parsed with the load-factor constants patched small (so that it spans many blocks); then a
sequence of single-token assignments (value / raw_text / indent, values from the token type's domain) is
applied.  Oracle after every assignment: identity/order of the store unchanged, every other token's text
unchanged, printed text = input with exactly that token's span replaced, get_index = ordinal,
get_position = (line, column) recomputed from the concatenated text.  Correspondence: the same store
(built the way ModelBuilder builds it) and the same updates are replayed on the Lean model `Store.updateText`
and the internal dumps are diffed."""
from __future__ import annotations
import datetime, decimal
from autobean_refactor import models, parser as parser_lib
from autobean_refactor import token_store as ts
import docs, intro, storehist
from common import enc_text

STR = ['', 'x', 'a b', 'q"uote', 'back\\slash', 'two\nlines', 'é', 'l1\nl2\nl3', 'a\nbb\nccc\ndddd', 'tail\n', '\n\nhead', 'p\nq',
       'ab\ncd', 'abc\nd', 'a\nbcd', 'abcd\n']      # (same length, same number of breaks, the break somewhere else)


RELEX = {'EscapedString', 'BlockComment', 'InlineComment', 'Date', 'Number', 'Account', 'Currency', 'Tag', 'Link', 'MetaKey', 'Bool',
         'TransactionFlag', 'PostingFlag'}


def _norm(v):
    return v.date() if isinstance(v, datetime.datetime) else v


def readback(p, t, attr, val, pre_attrs, new):
    """None, or what is wrong with the text the assignment produced (see the call site)."""
    try:
        if attr in ('value', 'indent') and getattr(t, attr) != val:
            return f'{attr} reads back {getattr(t, attr)!r} after assigning {val!r}'
        if isinstance(t, models.BlockComment) and attr == 'value' and t.indent != pre_attrs.get('indent'):
            return f'assigning value changed indent {pre_attrs.get("indent")!r} -> {t.indent!r}'
        if isinstance(t, models.BlockComment) and attr == 'indent' and t.value != pre_attrs.get('value'):
            return f'assigning indent changed value {pre_attrs.get("value")!r} -> {t.value!r}'
        if attr == 'value':
            # the text a value assignment writes is the text the class's own formatter gives for THAT value (10.50 is not 10.5)
            fresh = type(t).from_value(val, indent=t.indent) if isinstance(t, models.BlockComment) else type(t).from_value(val)
            if fresh.raw_text != new:
                return f'assigning value {val!r} wrote {new!r}; {type(t).__name__}.from_value of the same value writes {fresh.raw_text!r}'
        if attr == 'raw_text' and new != val:
            return f'raw_text reads back {new!r} after assigning {val!r}'
        if hasattr(t, 'value') and type(t).__name__ in RELEX:
            again = p.parse_token(new, type(t))
            if _norm(again.value) != _norm(t.value) or (isinstance(t, models.BlockComment) and again.indent != t.indent):
                return f'raw text {new!r} re-lexes to value {again.value!r}, the token says {t.value!r}'
    except Exception as e:
        return f'reading back / re-lexing {new!r} raised {type(e).__name__}: {str(e)[:80]}'
    return None


def domain_assignments(rng, t):
    """Candidate (attr, python value) assignments for token t (all inside the type's domain)."""
    n = type(t).__name__
    out = []
    if n == 'EscapedString':
        out += [('value', rng.choice(STR))]
        out += [('raw_text', models.EscapedString.from_value(rng.choice(STR)).raw_text)]
    elif n == 'BlockComment':
        out += [('value', rng.choice(['c', 'a\nb', '', 'x\n\ny', 'l1\nl2\nl3', 'p\r\n\r\nq', 'x\r\r\n\r\r\ny', 'u\r\r\nv', 'xy\nz', 'x\nyz'])), ('indent', rng.choice(['', '  ', '\t', '    ']))]
        out += [('raw_text', models.BlockComment.from_value(rng.choice(['z', 'p\nq']), indent=rng.choice(['', '  '])).raw_text)]
    elif n == 'InlineComment':
        out += [('value', rng.choice(['', 'n', 'a;b', 'x  y', 'note  ', 'tab\t', 'a ; b ', ';x', 'done \u3000']))]
        out += [('raw_text', rng.choice([';', '; padded  ', ';;x', ';\tt']))]
    elif n == 'Date':
        out += [('value', datetime.date(rng.randrange(1, 9999), rng.randrange(1, 13), rng.randrange(1, 29)))]
        if rng.random() < 0.25:    # every datetime.date is in the domain, also one that carries a time of day
            out[-1] = ('value', datetime.datetime(rng.randrange(1, 9999), rng.randrange(1, 13), rng.randrange(1, 29), rng.randrange(24), rng.randrange(60), rng.randrange(60)))
        out += [('raw_text', rng.choice(['2020-1-2', '2021/03/04', '0001-01-01']))]
    elif n == 'Number':
        out += [('value', decimal.Decimal(rng.choice(['0', '1', '12.50', '1000000', '0.0001', '1E+3', '1E-7'])))]
        if rng.random() < 0.35:
            # the same number written with another precision
            cur = format(t.value, 'f')
            out[-1] = ('value', decimal.Decimal(cur + ('0' if '.' in cur else '.00')) if rng.random() < 0.6 or '.' not in cur else t.value.normalize() + 0)
        out += [('raw_text', rng.choice(['1,234.5', '7.', '00.10']))]
    elif n == 'Account':
        out += [('value', rng.choice(docs.ACCOUNTS))]
    elif n == 'Currency':
        out += [('value', rng.choice(docs.CURRENCIES))]
    elif n in ('Tag', 'Link'):
        out += [('value', rng.choice(docs.TAGS))]
    elif n == 'MetaKey':
        out += [('value', rng.choice(docs.KEYS))]
    elif n == 'Bool':
        out += [('value', rng.random() < 0.5)]
    elif n == 'TransactionFlag':
        out += [('value', rng.choice(['*', '!', 'P'])), ('raw_text', 'txn')]
    elif n == 'PostingFlag':
        out += [('value', rng.choice('*!&?%'))]
    elif n == 'Indent':
        out += [('value', rng.choice(['  ', '    ', '\t', ' ']))]
    elif n == 'Whitespace':
        out += [('raw_text', rng.choice([' ', '  ', '\t', '   ']))]
    elif n == 'Newline':
        out += [('raw_text', rng.choice(['\n', '\r\n', '\n']))]
    elif n == 'Ignored':
        out += [('raw_text', rng.choice(['* heading', ':x:']))]
    return out


def run(ctx, ndocs, nassign, lfs, prefix, with_model=True, judge=('C02', 'C08')):
    rng = ctx.rng
    p = None
    lines_all = []
    index = []
    replays = []
    for d in range(ndocs):
        lf = lfs[d % len(lfs)]
        consts = storehist.lf_constants(lf)
        storehist.patch_lf(consts)
        try:
            if p is None:
                p = parser_lib.Parser()
            text = docs.gen_file(rng, rng.choice([1, 3, 6, 12])) if rng.random() < 0.8 else rng.choice(docs.corpus('File'))
            try:
                f = p.parse(text, models.File, auto_claim_comments=rng.random() < 0.7)
            except Exception:
                continue
            store = f.token_store
            toks = list(store)
            vid = {id(t): i + 1 for i, t in enumerate(toks)}
            rep = {'consts': consts, 'text': text, 'assignments': []}

            def dump():
                parts = [f'len={store._len}']
                for b in store._blocks:
                    def dt(t):
                        h = t.store_handle
                        pp = next((i for i, bb in enumerate(store._blocks) if bb is h.block), None) if h else None
                        hs = '@-' if h is None else (f'@{pp}.{h.index}' if pp is not None else '@?')
                        return f'{vid[id(t)]}{hs}/{t.size.line}.{t.size.column}'
                    parts.append(f'[{b.index}|{b.size.line}.{b.size.column}|{b.last_newline_index}|' + ' '.join(dt(t) for t in b.tokens) + ']')
                return ' '.join(parts)
            lines = [(f'S lf {consts[0]} {consts[1]} {consts[2]} {consts[3]}', 'ok'), ('S from 1', None),
                     ('S insert_after 1 - ' + ' '.join(f'+{vid[id(t)]}:{enc_text(t.raw_text)}' for t in toks), 'ok ' + dump() + ' removed=')]
            cands = [t for t in toks if domain_assignments(rng, t)]
            bad = None
            edited = []
            for _ in range(nassign):
                if not cands:
                    break
                # sequences on one token matter (multi-line -> multi-line with another line count ...): re-pick an edited token often
                multi = [x for x in edited if '\n' in x.raw_text]
                # (a token that spans lines and is given another text spanning ANOTHER number of lines is the rare branch)
                t = rng.choice(multi) if multi and rng.random() < 0.3 else rng.choice(edited) if edited and rng.random() < 0.3 else rng.choice(cands)
                if not any(t is x for x in edited):
                    edited.append(t)
                attr, val = rng.choice(domain_assignments(rng, t))
                before_text = ''.join(x.raw_text for x in toks)
                k = vid[id(t)] - 1   # position by identity (token == compares text)
                off = sum(len(x.raw_text) for x in toks[:k])
                old = t.raw_text
                others = [x.raw_text for x in toks]
                rep['assignments'].append({'tok': vid[id(t)], 'cls': type(t).__name__, 'attr': attr, 'val': repr(val)})
                pre_attrs = {'indent': t.indent, 'value': t.value} if isinstance(t, models.BlockComment) else {}
                try:
                    setattr(t, attr, val)
                except Exception as e:
                    bad = (f'{prefix}:in-domain-assignment-raises:{type(t).__name__}.{attr}', f'{type(e).__name__}: {e}')
                    break
                new = t.raw_text
                # "the token's new raw text" is the text that carries what was assigned: the assigned attribute reads back, the
                # other attributes of a block comment stay, and the text re-lexes to the same value
                rb = readback(p, t, attr, val, pre_attrs, new)
                if rb:
                    bad = (f'C02:assigned-text-does-not-carry-the-value:{type(t).__name__}.{attr}', rb)
                    break
                ctx.case((type(t).__name__, attr, '\n' in old, '\n' in new, len(store._blocks) > 1, lf))
                ctx.count(f'assign:{type(t).__name__}.{attr}')
                now = list(store)
                if len(now) != len(toks) or any(a is not b for a, b in zip(now, toks)):
                    bad = ('C02:identity-or-order-changed', f'assigning {attr} of {type(t).__name__} changed the token list')
                    break
                if [x.raw_text for i, x in enumerate(now) if i != k] != [x for i, x in enumerate(others) if i != k]:
                    bad = ('C02:other-token-text-changed', f'assigning {attr} of {type(t).__name__} changed another token')
                    break
                after_text = intro.pr(f)
                if after_text != before_text[:off] + new + before_text[off + len(old):]:
                    bad = ('C02:print-not-span-replaced', f'print after {type(t).__name__}.{attr} is not the input with that span replaced')
                    break
                acc = ''
                for i, x in enumerate(now):
                    pos = store.get_position(x)
                    want = (acc.count('\n'), len(acc) - acc.rfind('\n') - 1)
                    if (pos.line, pos.column) != want:
                        bad = ('C08:position', f'after {type(t).__name__}.{attr}={val!r}: get_position(token {i}) = ({pos.line},{pos.column}) != {want}')
                        break
                    if store.get_index(x) != i:
                        bad = ('C08:index', f'get_index(token {i}) = {store.get_index(x)}')
                        break
                    acc += x.raw_text
                if bad and bad[0].split(':')[0] not in judge:
                    ctx.count('not-judged-here:' + bad[0])   # another property's matter: keep going, the model diff still sees the step
                    bad = None
                if bad:
                    break
                lines.append((f'S update 1 {vid[id(t)]} {enc_text(new)}', 'ok ' + dump()))
            if bad and bad[0].split(':')[0] in judge:
                ctx.oracle_fail(bad[0], bad[1], rep)
            replays.append(rep)
            lines_all.append(lines)
        finally:
            storehist.patch_lf(storehist.lf_constants(None))
    if with_model and ctx.extra.get('model_available', True) and lines_all:
        flat = []
        idx = []
        for bi, lines in enumerate(lines_all):
            flat.append('reset')
            idx.append((bi, None))
            for li, (l, e) in enumerate(lines):
                flat.append(l)
                idx.append((bi, li))
        outs = ctx.driver.run(flat)
        seen = set()
        for (bi, li), out in zip(idx, outs):
            if li is None or bi in seen:
                continue
            exp = lines_all[bi][li][1]
            if exp is None:
                continue
            if out.rstrip() != exp.rstrip():
                seen.add(bi)
                ctx.divergence('document-token-updates', {'line': lines_all[bi][li][0][:300], 'model': out[:500], 'real': exp[:500]}, replays[bi])
        ctx.extra['documents_validated_against_model'] = len(lines_all)


def replay(rep):
    """Re-run the recorded assignments; returns list of failures."""
    import ast
    consts = tuple(rep['consts'])
    storehist.patch_lf(consts)
    try:
        p = parser_lib.Parser()
        f = p.parse(rep['text'], models.File)
        store = f.token_store
        toks = list(store)
        bad = []
        for a in rep['assignments']:
            t = toks[a['tok'] - 1]
            val = eval(a['val'], {'datetime': datetime, 'Decimal': decimal.Decimal, 'decimal': decimal})
            before_text = ''.join(x.raw_text for x in toks)
            off = sum(len(x.raw_text) for x in toks[:a['tok'] - 1])
            old = t.raw_text
            pre_attrs = {'indent': t.indent, 'value': t.value} if isinstance(t, models.BlockComment) else {}
            setattr(t, a['attr'], val)
            if readback(p, t, a['attr'], val, pre_attrs, t.raw_text):
                bad.append(('C02:assigned-text-does-not-carry-the-value', ''))
            now = list(store)
            if len(now) != len(toks) or any(x is not y for x, y in zip(now, toks)):
                bad.append(('C02:identity-or-order-changed', ''))
            if intro.pr(f) != before_text[:off] + t.raw_text + before_text[off + len(old):]:
                bad.append(('C02:print-not-span-replaced', ''))
            acc = ''
            for i, x in enumerate(now):
                pos = store.get_position(x)
                if (pos.line, pos.column) != (acc.count('\n'), len(acc) - acc.rfind('\n') - 1):
                    bad.append(('C08:position', ''))
                    break
                acc += x.raw_text
            if bad:
                break
        return bad
    finally:
        storehist.patch_lf(storehist.lf_constants(None))
