"""Parallel variant of mutants.py: every seeded change is applied in a scratch git worktree of /repo and judged by a scratch
copy of /verif (own Lean build directory, own evidence and replay files) pointed at it with VERIF_REPO; /repo and /verif
themselves are not touched, every scratch directory is removed when its run is over.

usage: pmutants.py [-j N] [--props C07,C08 | --all] [--dir seeded_harmless] [name ...]
       (default: directory seeded/, each change against the check of its own property; --all = every claimed check)
Merges the outcomes into /verif/seeded/RESULTS.json and prints the table."""
import json, os, shutil, subprocess, sys, time
from concurrent.futures import ThreadPoolExecutor
from pathlib import Path
VERIF = Path(__file__).resolve().parent.parent
SCRATCH = Path('/tmp/pm')


def sh(cmd, **kw):
    return subprocess.run(cmd, stdout=subprocess.PIPE, stderr=subprocess.STDOUT, text=True, **kw)


DIR = 'seeded'


def one(name, props):
    d = VERIF / DIR / name
    meta = json.loads((d / 'meta.json').read_text())
    prop = meta.get('property', '-')
    root = SCRATCH / name
    shutil.rmtree(root, ignore_errors=True)
    root.mkdir(parents=True)
    wt = root / 'repo'
    res = {'property': prop, 'checks': {}}
    try:
        r = sh(['git', '-C', '/repo', 'worktree', 'add', '-q', '--detach', str(wt), 'HEAD'])
        if r.returncode:
            return name, {'property': prop, 'error': 'worktree: ' + r.stdout[:200]}
        r = sh(['git', '-C', str(wt), 'apply', str(d / 'patch.diff')])
        if r.returncode:
            return name, {'property': prop, 'error': 'patch does not apply'}
        v = root / 'verif'
        sh(['rsync', '-a', '--exclude', '.git', '--exclude', 'replays', '--exclude', 'seeded', '--exclude', '__pycache__', str(VERIF) + '/', str(v) + '/'])
        env = dict(os.environ, VERIF_REPO=str(wt))
        for p in (props or [prop]):
            t = time.time()
            out = sh([str(v / 'check'), p, os.environ.get('TIER', 'quick')], cwd=v, env=env)
            viol = [l.replace(str(v), '/verif') for l in out.stdout.splitlines() if l.startswith('VIOLATION')]
            res['checks'][p] = {'rc': out.returncode, 'violations': viol[:3],
                                'summary': out.stdout.strip().splitlines()[-1][-220:] if out.stdout.strip() else '', 's': round(time.time() - t, 1)}
    finally:
        sh(['git', '-C', '/repo', 'worktree', 'remove', '--force', str(wt)])
        shutil.rmtree(root, ignore_errors=True)
    return name, res


def main(argv):
    args = argv[1:]
    global DIR
    jobs, props, names = 5, None, []
    while args:
        a = args.pop(0)
        if a == '-j':
            jobs = int(args.pop(0))
        elif a == '--props':
            props = args.pop(0).split(',')
        elif a == '--all':
            props = [c['property_id'] for c in json.loads((VERIF / 'MANIFEST.json').read_text())['checks']]
        elif a == '--dir':
            DIR = args.pop(0)
        else:
            names.append(a)
    seeded = VERIF / DIR
    dirs = sorted(d.name for d in seeded.iterdir() if d.is_dir() and (d / 'patch.diff').exists() and (not names or d.name in names))
    results = json.loads((seeded / 'RESULTS.json').read_text()) if (seeded / 'RESULTS.json').exists() else {}
    with ThreadPoolExecutor(jobs) as ex:
        for name, res in ex.map(lambda n: one(n, props), dirs):
            old = results.get(name, {})
            if props and 'checks' in old and 'checks' in res:
                old['checks'].update(res['checks'])
                res = old
            results[name] = res
            prop = res['property']
            own = res.get('checks', {}).get(prop, {})
            others = [p for p, c in res.get('checks', {}).items() if p != prop and c.get('rc') == 1]
            kind = '-'
            if own.get('violations'):
                kind = 'concrete' if any('no-failing-input-found' not in x for x in own['violations']) else 'no-failing-input'
            red = {p: c.get('violations') or c.get('summary') for p, c in res.get('checks', {}).items() if c.get('rc') != 0}
            if prop == '-':
                print(f'{name:45s} red={red or "none"}', flush=True)
                continue
            print(f'{name:10s} {prop} rc={own.get("rc")} {kind:16s} also-red={others} {res.get("error", "")}', flush=True)
    out = Path(os.environ['PM_RESULTS']) if os.environ.get('PM_RESULTS') else seeded / 'RESULTS.json'
    out.write_text(json.dumps(results, indent=1))
    sh(['git', '-C', '/repo', 'worktree', 'prune'])


if __name__ == '__main__':
    main(sys.argv)
