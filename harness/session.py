"""Edit sessions on real documents with pluggable oracles (C03 frame, C05 invariant, C06 re-parse,
C19 refused-unchanged).  A session = parse a document, apply a history of ops (edits.py), evaluate the
oracles around every op.  Failing histories are shrunk and recorded as replays."""
from __future__ import annotations
import copy
from autobean_refactor import models, parser as parser_lib
from autobean_refactor.models import base, internal
import intro, edits, docs

SEP_CLASSES = (models.Whitespace, models.Newline, models.Comma)


class Snapshot:
    def __init__(self, root, op=None):
        self.text = intro.pr(root)
        self.toks = list(root.token_store)
        self.tok_ids = [id(t) for t in self.toks]
        self.tok_texts = [t.raw_text for t in self.toks]
        self.claimed = [(id(t), bool(t.claimed)) for t in self.toks if isinstance(t, models.BlockComment)]
        self.meta_items = None
        self.struct = None
        self.parent = None
        if op is not None and op.get('parent') is not None:
            try:
                pm = intro.resolve(root, op['parent'])
                if not isinstance(pm, base.RawTokenModel) or True:
                    pos = {id(t): i for i, t in enumerate(self.toks)}
                    self.parent = pm
                    self.parent_span = (pos[id(pm.first_token)], pos[id(pm.last_token)])
                    self.child_texts = None
                    self.slot_tokens = None
                    self.gaps = None
                    if not isinstance(pm, base.RawTokenModel) and op.get('kind') in ('opt-set', 'req-set') :
                        cur = getattr(pm, op['attr'])
                        self.slot_tokens = [id(t) for t in cur.tokens] if cur is not None else None
                    if not isinstance(pm, base.RawTokenModel):
                        self.child_texts = [(name, id(v), intro.pr(v)) for name, kind, v in intro.field_values(pm)
                                            if v is not None and not isinstance(v, internal.Repeated)]
                        self.item_texts = {name: [(id(x), intro.pr(x)) for x in v.items]
                                           for name, kind, v in intro.field_values(pm) if isinstance(v, internal.Repeated)}
            except Exception:
                self.parent = None
        if self.parent is not None and hasattr(self.parent, 'raw_meta') and not isinstance(self.parent, base.RawTokenModel):
            try:
                self.meta_items = [(id(x), x.key) for x in self.parent.raw_meta]
            except Exception:
                self.meta_items = None
        # the models whose public attributes are read before the op (so that every cached view exists when it runs) and
        # compared with a deep copy after it: the edited model and the receiver of the call
        self.watch = []
        for m in (self.parent, self._receiver(root, op)):
            if m is not None and not isinstance(m, (base.RawTokenModel, internal.Repeated)) and not any(m is w for w in self.watch):
                self.watch.append(m)
        for m in self.watch:
            try:
                intro.public_reads(m)
            except Exception:
                pass

    @staticmethod
    def _receiver(root, op):
        if not op or not op.get('path'):
            return None
        try:
            m = intro.resolve(root, op['path'])
        except Exception:
            return None
        return m if isinstance(m, base.RawTreeModel) else None


# ---- oracles: each returns a list of (signature, description) ------------------------------------------

def o_inv(root, pre, op, res, extra):
    """C05."""
    out = intro.check_inv(root)
    try:
        if len(root.token_store) != sum(1 for _ in root.token_store):
            out = out + [('store-length-drift', f'len(token_store) = {len(root.token_store)} but the store holds {sum(1 for _ in root.token_store)} tokens')]
    except Exception as e:
        out = out + [('store-length-raises', repr(e)[:120])]
    sig_suffix = ':' + op['kind'] if op else ''
    out = [(s + sig_suffix, d) for s, d in out]
    if res and res[0] == 'ok' and op and op['kind'] in ('rep-pop', 'view-pop', 'rep-pop-insert', 'meta-popkey') and isinstance(res[1], base.RawModel):
        x = res[1]
        if op['kind'] != 'rep-pop-insert':
            try:
                intro.pr(x)
            except Exception as e:
                out.append(('pop:returned-node-unprintable', f'the node returned by {op["kind"]} cannot be printed: {type(e).__name__}: {str(e)[:80]}'))
            if isinstance(x, base.RawTreeModel):
                bad = intro.check_inv(x)
                out += [('pop:' + s, d) for s, d in bad]
                st = list(x.token_store)
                if st and (x.first_token is not st[0] or x.last_token is not st[-1]):
                    out.append(('pop:store-not-exactly-span', 'popped node does not span its whole store'))
            if x.token_store is root.token_store:
                out.append(('pop:still-in-document-store', 'popped node still lives in the document store'))
    return out


def o_refused(root, pre, op, res, extra):
    """C19: a refused call leaves text and tree as they were."""
    if not res or res[0] != 'exc':
        return []
    out = []
    kind = op['kind']
    if intro.pr(root) != pre.text:
        out.append((f'refused-changed-text:{kind}:{res[1]}', f'{res[1]} raised by {kind} but the printed text changed'))
    elif pre.struct is not None and intro.struct(root) != pre.struct:
        out.append((f'refused-changed-tree:{kind}:{res[1]}', f'{res[1]} raised by {kind} but the tree changed: ' +
                    str(intro.struct_diff(pre.struct, intro.struct(root)))))
    elif [(id(t), bool(t.claimed)) for t in root.token_store if isinstance(t, models.BlockComment)] != pre.claimed:
        out.append((f'refused-changed-claimed-flag:{kind}:{res[1]}', f'{res[1]} raised by {kind} but a block comment changed its claimed flag'))
    elif [id(t) for t in root.token_store] != pre.tok_ids:
        out.append((f'refused-moved-tokens:{kind}:{res[1]}', f'{res[1]} raised by {kind} but the token sequence of the document (zero-width marks included) is no longer the same'))
    bad = intro.check_inv(root)
    if bad:
        out.append((f'refused-broke-invariant:{kind}:{res[1]}:{bad[0][0]}', bad[0][1]))
    for st, txt in extra.get('hosts', []):
        if ''.join(t.raw_text for t in st) != txt:
            out.append((f'refused-changed-host:{kind}:{res[1]}', f'{res[1]} raised by {kind} but the document the refused node lives in changed'))
            break
    for v, txt in extra.get('donors', []):
        try:
            if intro.pr(v) != txt:
                out.append((f'refused-consumed-donor:{kind}:{res[1]}', f'{res[1]} raised by {kind} but a free-standing argument lost its tokens'))
                break
        except Exception as e:
            out.append((f'refused-broke-donor:{kind}:{res[1]}', repr(e)[:200]))
            break
    return out


def o_no_double(root, pre, op, res, extra):
    """C19: re-inserting a node that already lives elsewhere must always be refused."""
    if not res or res[0] != 'ok' or op['kind'] in ('numop', 'claim', 'unclaim', 'claim-inter', 'unclaim-inter'):
        return []  # arithmetic copies its right operand (C13); (un)claim calls name comments that ARE in the document
    refs = extra.get('attached_args', [])
    for v, same_slot in refs:
        if not same_slot:
            return [(f'attached-node-accepted:{op["kind"]}', f'{op["kind"]} accepted a {type(v).__name__} that is attached elsewhere in the document')]
    return []


def o_frame(root, pre, op, res, extra):
    """C03: outside the parent nothing changes (identity, order, text); inside, siblings keep their text;
    tokens that appear/disappear are the child's own or separator tokens in a run touching the child."""
    if not res or res[0] != 'ok' or pre.parent is None:
        return []
    kind = op['kind']
    if kind in ('spacing', 'claim', 'unclaim', 'claim-inter', 'unclaim-inter', 'tok-raw-bad', 'rep-pop-insert', 'rep-assign'):
        return []  # not single slot edits (pop+insert is two)
    out = []
    post = list(root.token_store)
    post_ids = [id(t) for t in post]
    a, b = pre.parent_span
    before_ids = pre.tok_ids[:a]
    after_ids = pre.tok_ids[b + 1:]
    if post_ids[:len(before_ids)] != before_ids:
        out.append((f'frame:outside-before:{kind}', 'tokens before the parent model changed identity/order'))
    elif after_ids and post_ids[-len(after_ids):] != after_ids:
        out.append((f'frame:outside-after:{kind}', 'tokens after the parent model changed identity/order'))
    else:
        if [t.raw_text for t in post[:len(before_ids)]] != pre.tok_texts[:a]:
            out.append((f'frame:outside-text:{kind}', 'text of a token before the parent changed'))
        if after_ids and [t.raw_text for t in post[-len(after_ids):]] != pre.tok_texts[b + 1:]:
            out.append((f'frame:outside-text:{kind}', 'text of a token after the parent changed'))
    if out:
        return out
    # surviving tokens keep relative order
    pre_set = set(pre.tok_ids)
    post_set = set(post_ids)
    surv_pre = [i for i in pre.tok_ids if i in post_set]
    surv_post = [i for i in post_ids if i in pre_set]
    if surv_pre != surv_post:
        out.append((f'frame:reordered:{kind}', 'surviving tokens changed relative order'))
        return out
    # siblings keep their text (generated models only)
    pm = pre.parent
    if isinstance(pm, models.CostSpec) and kind in ('value-set', 'cost-set', 'cost-raw-set'):
        return out  # the cost group re-shapes its single child by design (C09)
    if pre.child_texts is not None and kind in ('opt-set', 'req-set', 'value-set') or (pre.child_texts is not None and kind.startswith(('rep-', 'view-', 'meta-'))):
        changed_field = op.get('field')
        now = {name: v for name, k, v in intro.field_values(pm)} if not isinstance(pm, base.RawTokenModel) else {}
        f2r = intro.field_to_raw(type(pm)) if not isinstance(pm, (models.NumberAddExpr, models.NumberMulExpr, internal.Repeated, base.RawTokenModel)) else {}
        for name, vid, txt in pre.child_texts:
            v = now.get(name)
            if v is None or id(v) != vid:
                continue  # this child was removed/replaced by the op
            raw = f2r.get(name)
            if raw == changed_field or name == changed_field:
                continue
            if kind == 'value-set' and raw in (op['attr'], 'raw_' + op['attr']):
                continue
            if isinstance(pm, models.Transaction) and name in ('_string0', '_string1', '_string2') and op.get('attr') in ('payee', 'narration', 'raw_payee', 'raw_narration'):
                continue
            if name == '_dedent_mark':
                continue
            try:
                if intro.pr(v) != txt:
                    out.append((f'frame:sibling-text:{kind}:{type(pm).__name__}.{name}', f'sibling {name} text changed'))
            except Exception as e:
                out.append((f'frame:sibling-print-raises:{kind}', repr(e)))
        # items of repeated fields: every surviving item keeps its text
        for name, items in pre.item_texts.items():
            v = now.get(name)
            if v is None:
                continue
            live = {id(x) for x in v.items}
            for iid, txt in items:
                if iid in live:
                    x = next(y for y in v.items if id(y) == iid)
                    if kind in ('value-set', 'view-setitem', 'view-setslice', 'meta-setkey') :
                        continue  # in-place value update of an item is the edit itself
                    if intro.pr(x) != txt:
                        out.append((f'frame:item-text:{kind}:{type(pm).__name__}.{name}', 'an untouched item changed its text'))
                        break
    # drop_many removes exactly the items its indexes designate (negative ones counted from the end, repeats once)
    if kind == 'rep-dropmany' and pre.item_texts is not None:
        fname = next((f for raw_, (f, _) in intro.api_props(type(pm))['rep'].items() if raw_ == op['attr']), None) if not isinstance(pm, base.RawTokenModel) else None
        before_items = pre.item_texts.get(fname) if fname else None
        if before_items is not None:
            n_ = len(before_items)
            want_gone = {before_items[i + n_ if i < 0 else i][0] for i in op['args'][0]['v'] if -n_ <= i < n_}
            now_ids = {id(x) for x in pm.__dict__[fname].items}
            gone = {i for i, _ in before_items if i not in now_ids}
            if gone != want_gone:
                out.append(('frame:dropmany-removed-other-items', f'drop_many({op["args"][0]["v"]}) on {n_} items removed {len(gone)} item(s), '
                            f'{len(gone ^ want_gone)} of them not the designated ones / designated ones left behind'))
    # remove / discard through a string view: the items that go are items OF THAT VIEW carrying the value (the first one /
    # all of them) - a same-named element of the sibling view (`#trip` next to `^trip`) is somebody else's
    if kind in ('view-remove', 'view-discard') and op.get('attr') in ('tags', 'links') and pre.item_texts is not None \
            and res[0] == 'ok' and '_tags_links' in pre.item_texts and isinstance(op['args'][0].get('v'), str):
        before_items = pre.item_texts['_tags_links']
        lexeme = ('#' if op['attr'] == 'tags' else '^') + op['args'][0]['v']
        matching = [i for i, t in before_items if t == lexeme]
        want_gone = set(matching) if op['m'] == 'discard' else set(matching[:1])
        now_ids = {id(x) for x in pm.__dict__['_tags_links'].items}
        gone = {i for i, _ in before_items if i not in now_ids}
        if gone != want_gone:
            out.append((f'frame:view-{op["m"]}-hit-other-items', f'{op["attr"]}.{op["m"]}({op["args"][0]["v"]!r}) on {[t for _, t in before_items]} removed '
                        f'{[t for i, t in before_items if i in gone]}, expected {[t for i, t in before_items if i in want_gone]}'))
    # a key designates the FIRST meta item carrying it: that one, and no other, is removed / replaced / updated
    if kind in ('meta-delkey', 'meta-popkey', 'meta-setkey') and pre.meta_items is not None and hasattr(pm, 'raw_meta'):
        key = op['idx'] if 'idx' in op else op['args'][0]['v']
        designated = next((i for i, k2 in pre.meta_items if k2 == key), None)
        now_items = list(pm.raw_meta)
        now_ids = [id(x) for x in now_items]
        gone = [i for i, _ in pre.meta_items if i not in now_ids]
        if designated is not None:
            if kind in ('meta-delkey', 'meta-popkey') and gone != [designated]:
                out.append((f'frame:key-hit-another-item:{kind}', f'key {key!r} designates the first item carrying it; the call removed '
                            f'{"another item" if gone and designated not in gone else "more than that item" if gone else "nothing"} '
                            f'(items before: {[k2 for _, k2 in pre.meta_items]})'))
            if kind == 'meta-setkey':
                texts0 = dict(pre.item_texts.get('_meta', []))
                for x in now_items:
                    if id(x) != designated and id(x) in texts0 and intro.pr(x) != texts0[id(x)]:
                        out.append((f'frame:key-hit-another-item:{kind}', f'assigning through key {key!r} changed an item the key does not designate'))
                        break
    # optional / required slots: exactly the child and its declared separators appear / disappear
    if kind in ('opt-set', 'req-set') and not isinstance(pm, base.RawTokenModel):
        removed = [t for i, t in zip(pre.tok_ids, pre.toks) if i not in post_set]
        added = [t for t in post if id(t) not in pre_set]
        old_child = set(pre.slot_tokens or [])
        cur = getattr(pm, op['attr'])
        new_child = {id(t) for t in cur.tokens} if cur is not None else set()
        extra_removed = [t for t in removed if id(t) not in old_child]
        extra_added = [t for t in added if id(t) not in new_child]
        fld = dict((n, f) for n, k, tys, f in intro.class_fields(type(pm))).get(op.get('field'))
        seps = [x.raw_text for x in getattr(fld, 'separators', ())] if fld is not None else []
        if any(not isinstance(t, SEP_CLASSES) for t in extra_removed):
            out.append((f'frame:removed-foreign-token:{kind}', 'a token that is neither the child nor a separator disappeared: ' + repr([t.raw_text for t in extra_removed])))
        if pre.slot_tokens is None and cur is not None:
            if [t.raw_text for t in extra_added] != seps:
                out.append((f'frame:created-separators:{kind}:{type(pm).__name__}.{op.get("field")}', f'created child came with {[t.raw_text for t in extra_added]!r}, declared separators are {seps!r}'))
            if extra_removed:
                out.append((f'frame:create-removed-tokens:{kind}', 'creating a child removed tokens'))
        elif pre.slot_tokens is not None and cur is None:
            if [t.raw_text for t in extra_removed] != seps and seps is not None:
                # the existing gap may differ from the default separators (e.g. two blanks); it must be separators only
                pass
            if extra_added:
                out.append((f'frame:remove-added-tokens:{kind}', 'removing a child added tokens'))
        elif pre.slot_tokens is not None and cur is not None:
            if extra_added or extra_removed:
                out.append((f'frame:replace-touched-separators:{kind}', 'replacing a child changed tokens other than the child'))
    # repeated fields: every gap between neighbouring items is an old gap or a fresh copy of the declared separators
    if (kind.startswith('rep-') or kind.startswith('view-') or kind.startswith('meta-')) and not isinstance(pm, (base.RawTokenModel, models.NumberAddExpr, models.NumberMulExpr)):
        pos = {id(t): i for i, t in enumerate(post)}
        for name, k2, tys, fld in intro.class_fields(type(pm)):
            if k2 != 'rep':
                continue
            rp = pm.__dict__.get(name)
            if rp is None:
                continue
            seps = [x.raw_text for x in fld.separators]
            seps0 = [x.raw_text for x in (fld.separators_before if fld.separators_before is not None else fld.separators)]
            prev_last = rp._placeholder
            for i, it in enumerate(rp.items):
                try:
                    a_, b_ = pos[id(prev_last)], pos[id(it.first_token)]
                except KeyError:
                    break
                gap = post[a_ + 1:b_]
                gap = [t for t in gap if t.raw_text or not isinstance(t, intro.Placeholder)]
                new = [t for t in gap if id(t) not in pre_set]
                if new:
                    want = seps0 if i == 0 else seps
                    if len(new) != len(gap):
                        out.append((f'frame:gap-mixed:{kind}:{type(pm).__name__}.{name}', f'gap before item {i} mixes old and new tokens: {[t.raw_text for t in gap]!r}'))
                        break
                    if [t.raw_text for t in gap] != want:
                        out.append((f'frame:gap-not-declared-separators:{kind}:{type(pm).__name__}.{name}', f'new gap before item {i} is {[t.raw_text for t in gap]!r}, declared {want!r}'))
                        break
                prev_last = it.last_token
    # added / removed runs must contain a non-separator token (the child itself)
    if kind in ('opt-set', 'req-set') or kind.startswith('rep-') or kind.startswith('view-') or kind.startswith('meta-'):
        def runs(seq_ids, seq_toks, other):
            r, cur = [], []
            for i, t in zip(seq_ids, seq_toks):
                if i not in other:
                    cur.append(t)
                elif cur:
                    r.append(cur)
                    cur = []
            if cur:
                r.append(cur)
            return r
        for run in runs(pre.tok_ids, pre.toks, post_set) + runs(post_ids, post, pre_set):
            if all(isinstance(t, SEP_CLASSES) for t in run):
                out.append((f'frame:separator-only-change:{kind}', 'separator tokens appeared/disappeared without an adjacent child: ' +
                            repr([t.raw_text for t in run])))
                break
    return out


def o_reparse(root, pre, op, res, extra):
    """C06: print -> parse -> same structure."""
    text = intro.pr(root)
    try:
        again = edits.P().parse(text, type(root), auto_claim_comments=False)
    except Exception as e:
        return [(f'reparse:does-not-parse:{op["kind"] if op else "parse"}', f'{type(e).__name__}: {str(e)[:200]}')]
    a = reparse_struct(root)
    b = reparse_struct(again)
    if a != b:
        return [(f'reparse:structure-differs:{op["kind"] if op else "parse"}', str(intro.struct_diff(a, b)))]
    ca, cb = comment_values(root), comment_values(again)
    if ca != cb:
        return [(f'reparse:comment-values-differ:{op["kind"] if op else "parse"}', f'block comments (indent, value) in document order: {ca!r} != {cb!r}')]
    return []


def comment_values(m):
    """Block comment lines of a document in store order (the indent of a merged block is the first line's, so it is not compared): their attribution is set aside, their
    content is not."""
    out = []
    for t in m.token_store:
        if isinstance(t, models.BlockComment):
            # per line: two adjacent comment blocks of the same indentation re-read as one block
            out.extend(line.rstrip(' \t\r') for line in t.value.split('\n'))
    return out


def reparse_struct(m):
    """struct() with block-comment attribution erased: leading/trailing comments and standalone comment items are
    dropped (the property sets comment attribution aside)."""
    s = intro.struct(m)

    def strip(x):
        if x is None or not isinstance(x, tuple):
            return x
        if len(x) == 2 and x[0] == 'Repeated':
            return ('Repeated', tuple(strip(i) for i in x[1] if not (isinstance(i, tuple) and i and i[0] == 'BlockComment')))
        if len(x) == 2 and isinstance(x[1], tuple) and x[0] != 'Repeated' and all(isinstance(f, tuple) and len(f) == 2 for f in x[1]) and x[1]:
            return (x[0], tuple((n, strip(v)) for n, v in x[1] if n not in ('_leading_comment', '_trailing_comment')))
        return x
    return strip(s)


def _partial(v, st):
    toks = list(st)
    if not toks:
        return False
    if isinstance(v, base.RawTokenModel):
        return len(toks) > 1
    try:
        return v.first_token is not toks[0] or v.last_token is not toks[-1]
    except Exception:   # the harness only inspects; what the accessor does wrong is judged where the code under test calls it
        return False


def arg_info(root, op, prepared):
    """Free-standing donors (with their text) and attached arguments of a prepared op."""
    vals = []

    def flat(v):
        if isinstance(v, (list, tuple)):
            for x in v:
                flat(x)
        elif isinstance(v, base.RawModel):
            vals.append(v)
    flat(prepared['val'])
    flat(prepared['args'])
    for x in prepared.get('batch_items', []):
        if not any(x is y for y in vals):
            flat(x)
    donors, attached, hosts = [], [], []
    for v in vals:
        st = v.token_store
        if st is root.token_store:
            same = False
            if op['k'] == 'setattr':
                try:
                    same = getattr(prepared['recv'], op['attr']) is v
                except Exception:
                    same = False
            attached.append((v, same))
        elif st is not None and _partial(v, st):
            # lives inside another document / a free-standing container without being all of it: attached elsewhere
            attached.append((v, False))
            hosts.append((st, ''.join(t.raw_text for t in st)))
        elif st is not None or isinstance(v, base.RawTokenModel):
            try:
                donors.append((v, intro.pr(v) if not isinstance(v, base.RawTokenModel) else v.raw_text))
            except Exception:
                pass
    return {'donors': donors, 'attached_args': attached, 'hosts': hosts}


def o_nonedit(root, pre, op, res, extra):
    """C04: claim / unclaim / auto-claim calls are not edits: printed text and the visible tokens (identity, order,
    text) are exactly what they were, whether the call succeeds or raises."""
    if op['kind'] not in ('claim', 'unclaim', 'claim-inter', 'unclaim-inter'):
        return []
    out = []
    if intro.pr(root) != pre.text:
        out.append((f'C04:text-changed:{op["kind"]}:{op["m"]}', f'{op["m"]} changed the printed text'))
    vis_pre = [(i, t) for i, t in zip(pre.tok_ids, pre.tok_texts) if t]
    vis_post = [(id(t), t.raw_text) for t in root.token_store if t.raw_text]
    if vis_pre != vis_post:
        out.append((f'C04:visible-tokens-changed:{op["kind"]}:{op["m"]}', f'{op["m"]} created, dropped, re-ordered or altered a visible token'))
    return out


def o_census(root, pre, op, res, extra):
    """C14: ownership census after every call (at most one owner, claimed flag <=> owned, adjacency)."""
    import commentsx
    out = [('C14:' + s_, d) for s_, d in commentsx.check_census(root)]
    # a call that NAMES the comments it is about (a list / tuple, the empty one included) changes the ownership of those only
    if op and op.get('kind') in ('claim-inter', 'unclaim-inter') and res and res[0] == 'ok' and op.get('args') \
            and isinstance(op['args'][0], dict) and op['args'][0].get('t') == 'list' and all(x.get('t') == 'tok-at' for x in op['args'][0]['items']):
        named = {pre.tok_ids[x['i']] for x in op['args'][0]['items'] if x['i'] < len(pre.tok_ids)}
        now = {id(t): bool(t.claimed) for t in root.token_store if isinstance(t, models.BlockComment)}
        other = [i for i, c in pre.claimed if i not in named and i in now and now[i] != c]
        if other:
            out.append((f'C14:selection-exceeded:{op["m"]}', f'{op["m"]} with {len(named)} named comment(s) changed the ownership of {len(other)} comment(s) it did not name'))
    return out


def o_fresh(root, pre, op, res, extra):
    """What the public attributes of the edited model read is a function of its content, not of its history: every
    attribute reads the same on the model and on a deep copy of it made now (the copy has seen no history: no cached view,
    no registered handler, no remembered child)."""
    for pm in getattr(pre, 'watch', []):
        if pm.token_store is not root.token_store:
            continue
        try:
            twin = copy.deepcopy(pm)
        except Exception as e:
            return [(f'fresh:deepcopy-raises:{type(pm).__name__}', repr(e)[:200])]
        a, b = intro.public_reads(pm), intro.public_reads(twin)
        for name in a:
            if a[name] != b.get(name):
                return [(f'fresh:{type(pm).__name__}.{name}', f'after {op["kind"]} on {type(pm).__name__}: .{name} reads {str(a[name])[:160]} on the edited model '
                         f'but {str(b.get(name))[:160]} on a deep copy of it')]
    return []


_READS_N = 0
ARITHMETIC = {'DivisionByZero', 'InvalidOperation', 'DivisionUndefined', 'DivisionImpossible', 'Overflow', 'ZeroDivisionError'}


def _twin_outcome(twin, op):
    try:
        r2 = edits.apply_op(twin, op)
    except edits.DonorError:
        return None
    except Exception as e:
        return ('harness', type(e).__name__)
    try:
        return (r2[0] if r2[0] == 'ok' else r2[1], intro.pr(twin))
    except Exception as e:
        return ('unprintable', type(e).__name__)


def o_twin(root, pre, op, res, extra):
    """The same operation on the edited document and on a deep copy of it taken just before (same content, no history -
    no cached view, no registered handler, nothing remembered) has the same outcome and prints the same text."""
    tw = extra.get('twin') if extra else None
    if tw is None or (op.get('val') or {}).get('t') == 'foreign' or any((a or {}).get('t') == 'foreign' for a in op.get('args', []) if isinstance(a, dict)):
        return []
    mine = 'ok' if res[0] == 'ok' else res[1]
    if tw[0] in ('harness',):
        return []
    if mine != tw[0]:
        return [(f'twin:outcome:{op["kind"]}', f'{op["kind"]} ends in {mine} on the edited document and in {tw[0]} on a deep copy of it taken just before')]
    try:
        text = intro.pr(root)
    except Exception as e:
        return [(f'twin:unprintable:{op["kind"]}', repr(e)[:120])]
    if tw[0] != 'unprintable' and text != tw[1]:
        i = next((k for k, (a, b) in enumerate(zip(text, tw[1])) if a != b), min(len(text), len(tw[1])))
        return [(f'twin:text:{op["kind"]}', f'{op["kind"]} prints {text[max(0, i - 30):i + 30]!r} on the edited document and {tw[1][max(0, i - 30):i + 30]!r} on a deep copy '
                 f'of it taken just before (first difference at {i})')]
    return []


def o_reads(root, pre, op, res, extra):
    """Every public attribute of every model of the document can be read (views iterated, mappings listed) without an
    internal error: a document some accessor of which raises is no longer usable, whatever else still looks right."""
    global _READS_N
    _READS_N += 1
    if pre is None or _READS_N % 3 == 0:
        targets = [(p, m) for p, m in intro.walk_api(root) if not isinstance(m, base.RawTokenModel)]     # the whole document
    else:
        targets = [((type(m).__name__,), m) for m in getattr(pre, 'watch', []) if m.token_store is root.token_store]   # the edited models
    for p, m in targets:
        for k, v in intro.public_reads(m).items():
            if isinstance(v, tuple) and v and isinstance(v[0], str) and 'raises' in v[0]:
                if v[-1] in ARITHMETIC:
                    continue      # the ledger's own arithmetic (1 / (7 - 7)): decimal's signal, not an internal error
                return [(f'reads:{type(m).__name__}.{k}:{v[-1]}', f'after {op["kind"]}: reading {"/".join(map(str, p))} ({type(m).__name__}).{k} raises {v[-1]}')]
    return []


ORACLES = {'twin': o_twin, 'reads': o_reads, 'fresh': o_fresh, 'nonedit': o_nonedit, 'census': o_census, 'inv': o_inv, 'refused': o_refused, 'frame': o_frame, 'reparse': o_reparse, 'nodouble': o_no_double}


def set_lf(lf):
    """Small-block regime: the store's load factor (a module constant the repository's own tests also patch) is
    re-evaluated from the source's definitions with _LOAD_FACTOR := lf (None restores the source's value), so that
    ordinary documents span many blocks and every split / merge / redistribution branch is reached by tree-level edits."""
    import storehist
    storehist.patch_lf(storehist.lf_constants(lf))


def run_history(text, auto_claim, ops, oracles, *, need_struct=False, lf=None):
    """Replays a recorded history; returns (failures, outcomes)."""
    set_lf(lf)
    try:
        return _run_history(text, auto_claim, ops, oracles, need_struct=need_struct)
    finally:
        set_lf(None)


def _run_history(text, auto_claim, ops, oracles, *, need_struct=False):
    root = edits.P().parse(text, models.File, auto_claim_comments=auto_claim)
    fails = []
    outcomes = []
    for op in ops:
        try:
            pre = Snapshot(root, op)
        except Exception:
            continue
        if need_struct:
            pre.struct = intro.struct(root)
        try:
            prepared = edits.prepare_op(root, op)
        except edits.DonorError:
            continue
        try:
            extra = arg_info(root, op, prepared)
        except Exception:
            extra = {}
        twin = None
        if 'twin' in oracles:
            try:
                twin = copy.deepcopy(root)
            except Exception:
                twin = None
        res = edits.apply_prepared(root, op, prepared)
        if twin is not None:
            extra['twin'] = _twin_outcome(twin, op)
        outcomes.append(res[:2] if res[0] == 'exc' else ('ok',))
        for o in oracles:
            try:
                bad = ORACLES[o](root, pre, op, res, extra)
            except Exception as e:
                bad = [(f'{o}:oracle-raised:{type(e).__name__}:{op["kind"]}', repr(e)[:300])]
            if bad:
                fails.extend(bad)
        if fails:
            break
    return fails, outcomes


def shrink(text, auto_claim, ops, oracles, sig, need_struct=False, budget=60, lf=None):
    """Delta-debug the op list keeping the same failure signature."""
    def fails(cand):
        try:
            f, _ = run_history(text, auto_claim, cand, oracles, need_struct=need_struct, lf=lf)
        except Exception:
            return False
        return any(s == sig for s, _ in f)
    cur = list(ops)
    n = 2
    tries = 0
    while len(cur) >= 2 and tries < budget:
        chunk = max(1, len(cur) // n)
        reduced = False
        for i in range(0, len(cur), chunk):
            cand = cur[:i] + cur[i + chunk:]
            tries += 1
            if cand and fails(cand):
                cur = cand
                n = max(n - 1, 2)
                reduced = True
                break
            if tries >= budget:
                break
        if not reduced:
            if chunk == 1:
                break
            n = min(len(cur), n * 2)
    return cur


def run_sessions(ctx, nsessions, nops, oracles, *, syntax_preserving=False, malformed=0.0, kinds=None,
                 prefix='', sizes=(1, 2, 3, 5, 8), need_struct=False, use_corpus=True, auto_claim_only=False, observers=(),
                 lf_choices=(3, 4, 6, 10, 16), lf_prob=0.3):
    r = ctx.rng
    corpus = list(docs.corpus('File')) if use_corpus else []
    for s in range(nsessions):
        if corpus and r.random() < 0.3:
            text = r.choice(corpus)
        else:
            text = docs.gen_file(r, r.choice(sizes))
        auto_claim = auto_claim_only or r.random() < 0.7
        lf = r.choice(list(lf_choices)) if r.random() < lf_prob else None
        set_lf(lf)
        try:
            root = edits.P().parse(text, models.File, auto_claim_comments=auto_claim)
        except Exception:
            ctx.count('doc:rejected')
            set_lf(None)
            continue
        ctx.count('doc:accepted')
        ctx.count('regime:small-blocks' if lf else 'regime:one-block')
        try:
            _session(ctx, r, root, text, auto_claim, lf, nops, oracles, syntax_preserving, malformed, kinds, prefix, need_struct, observers)
        finally:
            set_lf(None)


def _session(ctx, r, root, text, auto_claim, lf, nops, oracles, syntax_preserving, malformed, kinds, prefix, need_struct, observers):
    if True:
        ops = []
        focus = None
        if r.random() < 0.6:
            cands = [list(p) for p, m in intro.walk_api(root)
                     if isinstance(m, (models.Posting, models.Transaction, models.Open, models.Balance, models.Custom, models.MetaItem,
                                       models.Note, models.Plugin, models.Pushmeta, models.CostSpec, models.UnitPrice, models.TotalPrice,
                                       models.CompoundAmount, models.Price, models.Document, models.Close))]
            if cands:
                focus = r.choice(cands)
        for step in range(nops):
            try:
                op = edits.gen_op(r, root, syntax_preserving=syntax_preserving, malformed=malformed, kinds=kinds, focus=focus)
            except Exception as e:
                # choosing the next op only READS the document through its public API: a read that raises is a broken document
                bad = o_reads(root, None, ops[-1] if ops else {'kind': 'parse'}, None, None)
                sig, what = bad[0] if bad else (f'reads:generator:{type(e).__name__}', f'reading the document raised {type(e).__name__}: {str(e)[:120]}')
                ctx.oracle_fail(prefix + sig, what, {'text': text, 'auto_claim': auto_claim, 'ops': [_slim(o) for o in ops],
                                                     'oracles': list(dict.fromkeys(list(oracles) + ['reads'])), 'need_struct': need_struct, 'lf': lf})
                break
            if op is None:
                break
            ctx.current({'text': text, 'auto_claim': auto_claim, 'ops': [_slim(o) for o in ops] + [_slim(op)], 'oracles': list(oracles),
                         'need_struct': need_struct, 'lf': lf})
            pre = Snapshot(root, op)
            if need_struct:
                pre.struct = intro.struct(root)
            try:
                prepared = edits.prepare_op(root, op)
            except edits.DonorError:
                ctx.count('op:donor-error:' + op['kind'])
                continue
            for ob in observers:
                ob.before(root, op, prepared, {'text': text, 'auto_claim': auto_claim, 'ops': ops + [op], 'lf': lf})
            try:
                extra = arg_info(root, op, prepared)
            except Exception:
                extra = {}
            twin = None
            if 'twin' in oracles:
                try:
                    twin = copy.deepcopy(root)      # a document with the same content and no history
                except Exception:
                    twin = None
            res = edits.apply_prepared(root, op, prepared)
            if twin is not None:
                extra['twin'] = _twin_outcome(twin, op)
            for ob in observers:
                ob.after(root, op, prepared, res)
            ops.append(op)
            outcome = 'ok' if res[0] == 'ok' else res[1]
            ctx.count(f'op:{op["kind"]}:{outcome}')
            pm = pre.parent
            ctx.case((op['kind'], type(pm).__name__ if pm is not None else None, op.get('field') or op.get('attr'), outcome),
                     sample={'doc': text[:200], 'op': _slim(op), 'outcome': outcome} if ctx.evaluations % 499 == 0 else None)
            failed = []
            for o in oracles:
                try:
                    bad = ORACLES[o](root, pre, op, res, extra)
                except Exception as e:
                    bad = [(f'{o}:oracle-raised:{type(e).__name__}:{op["kind"]}', repr(e)[:300])]
                failed.extend(bad)
            if failed:
                sig, what = failed[0]
                small = shrink(text, auto_claim, ops, oracles, sig, need_struct=need_struct, lf=lf)
                set_lf(lf)
                ctx.oracle_fail(prefix + sig, what, {'text': text, 'auto_claim': auto_claim, 'ops': [_slim(o) for o in small],
                                                     'oracles': list(oracles), 'need_struct': need_struct, 'lf': lf})
                break
            if res[0] == 'exc' and res[1] in ('AttributeError', 'TypeError', 'AssertionError', 'NotImplementedError', 'ValueError:not-in-store'):
                # an internal error rather than a documented refusal: the document may be unusable afterwards
                break


CHURN_KINDS = ('rep-append', 'rep-extend', 'rep-insert', 'rep-copy-insert', 'rep-pop', 'rep-delitem', 'rep-delslice', 'rep-clear',
               'rep-setslice', 'rep-setitem', 'view-append', 'view-extend', 'view-insert', 'view-pop', 'view-delitem', 'view-delslice',
               'view-clear', 'meta-setkey', 'meta-popkey', 'meta-clear')


def run_churn(ctx, nsessions, nops, oracles, *, kinds=CHURN_KINDS, **kw):
    """Block churn: long histories of child insertions and removals on larger documents whose store is cut into small
    blocks (load factor 4..16), so that the store's split, merge and redistribution paths run underneath ordinary
    tree-level edits; the same oracles judge every step."""
    run_sessions(ctx, nsessions, nops, oracles, kinds=kinds, sizes=(6, 10, 15), use_corpus=False,
                 lf_choices=(4, 5, 6, 8, 10, 16), lf_prob=1.0, **kw)


def finish_observers(ctx, observers):
    for ob in observers:
        ob.finish(ctx)


def _slim(op):
    return {k: v for k, v in op.items()}


def replay(data, oracles=None):
    rep = data.get('replay') or data
    f, _ = run_history(rep['text'], rep['auto_claim'], rep['ops'], oracles or rep.get('oracles', ['inv']),
                       need_struct=rep.get('need_struct', False), lf=rep.get('lf'))
    return f
