"""Runs the checks against the seeded changes under /verif/seeded/<name>/ (patch.diff, demo.py, meta.json).

usage: mutants.py [--all-checks] [name ...]
For each seeded change: git apply in /repo, run the check of the property it breaks (or every claimed check with
--all-checks), record exit status / VIOLATION lines, and ALWAYS undo with `git -C /repo checkout -- .`.
Writes /verif/seeded/RESULTS.json and prints a table."""
import json, subprocess, sys, time
from pathlib import Path
VERIF = Path(__file__).resolve().parent.parent
REPO = Path('/repo')


def sh(cmd, **kw):
    return subprocess.run(cmd, stdout=subprocess.PIPE, stderr=subprocess.STDOUT, text=True, **kw)


def main(argv):
    allc = '--all-checks' in argv
    names = [a for a in argv[1:] if not a.startswith('--')]
    seeded = VERIF / 'seeded'
    dirs = sorted(d for d in seeded.iterdir() if d.is_dir() and (d / 'patch.diff').exists() and (not names or d.name in names))
    claimed = [c['property_id'] for c in json.loads((VERIF / 'MANIFEST.json').read_text())['checks']]
    results = json.loads((seeded / 'RESULTS.json').read_text()) if (seeded / 'RESULTS.json').exists() else {}
    assert sh(['git', '-C', str(REPO), 'status', '--porcelain']).stdout.strip() == '', '/repo is not clean'
    for d in dirs:
        meta = json.loads((d / 'meta.json').read_text())
        prop = meta['property']
        r = sh(['git', '-C', str(REPO), 'apply', str(d / 'patch.diff')])
        if r.returncode != 0:
            print(d.name, 'PATCH DOES NOT APPLY', r.stdout[:200])
            results[d.name] = {'property': prop, 'error': 'patch does not apply'}
            continue
        try:
            res = {'property': prop, 'checks': {}}
            for p in (claimed if allc else [prop]):
                if p not in claimed:
                    res['checks'][p] = {'rc': None, 'note': 'property not claimed'}
                    continue
                t = time.time()
                out = sh([str(VERIF / 'check'), p, 'quick'], cwd=VERIF)
                viol = [l for l in out.stdout.splitlines() if l.startswith('VIOLATION')]
                res['checks'][p] = {'rc': out.returncode, 'violations': viol[:3], 'summary': out.stdout.strip().splitlines()[-1][-200:] if out.stdout.strip() else '',
                                    's': round(time.time() - t, 1)}
            results[d.name] = res
            own = res['checks'].get(prop, {})
            others = [p for p, c in res['checks'].items() if p != prop and c.get('rc') == 1]
            kind = 'concrete' if any('no-failing-input-found' not in v for v in own.get('violations', [])) and own.get('violations') else ('no-failing-input' if own.get('violations') else '-')
            print(f'{d.name:28s} {prop} rc={own.get("rc")} {kind:16s} also-red={others}')
        finally:
            sh(['git', '-C', str(REPO), 'checkout', '--', '.'])
            sh(['git', '-C', str(REPO), 'clean', '-fdq', '--', 'autobean_refactor'])
    (seeded / 'RESULTS.json').write_text(json.dumps(results, indent=1))


if __name__ == '__main__':
    main(sys.argv)
