#!/bin/sh
# Confirms a seeded change in a scratch worktree of /repo (outside /repo and /verif), then removes the worktree.
# usage: harness/confirm_mutant.sh <seeded dir name> [full|quick]
name="$1"; mode="${2:-full}"
d="/verif/seeded/$name"; wt="/tmp/confirm/$name"
rm -rf "$wt"; mkdir -p /tmp/confirm
git -C /repo worktree add -q --detach "$wt" HEAD || exit 2
cd "$wt" || exit 2
res="applies=no"
if git apply "$d/patch.diff" 2>/dev/null; then
  res="applies=yes"
  if [ "$mode" = full ]; then
    t=$(PYTHONPATH="$wt" /venv/bin/python -m pytest -q -p no:cacheprovider --timeout=900 2>&1 | tail -1)
  else
    t=$(PYTHONPATH="$wt" /venv/bin/python -m pytest -q -p no:cacheprovider --benchmark-skip 2>&1 | tail -1)
  fi
  PYTHONPATH="$wt" /venv/bin/python "$d/demo.py" >/dev/null 2>&1; with=$?
  git checkout -q -- . ; git clean -fdq
  PYTHONPATH="$wt" /venv/bin/python "$d/demo.py" >/dev/null 2>&1; without=$?
  res="applies=yes tests=[$t] demo_with_change_exit=$with demo_without_exit=$without"
fi
cd /; git -C /repo worktree remove --force "$wt"
echo "$name $res" | tee "$d/confirm.txt"
