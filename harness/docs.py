"""Documents for the tree-level checks: a schema-driven ledger generator and the corpus harvested from the
repository's own tests.  All randomness comes from the rng passed in."""
from __future__ import annotations
import ast
import functools
from common import REPO

ACCOUNTS = ['Assets:Cash', 'Assets:Bank:Checking', 'Expenses:Food', 'Income:Salary', 'Liabilities:Card', 'Equity:Opening-Balances', 'Assets:Étoile:Ünï']
CURRENCIES = ['USD', 'EUR', 'GBP', 'BTC', 'VTSAX', 'A1.B-C']
STRINGS = ['', 'foo', 'bar baz', 'with "quote"', 'back\\slash', 'multi\nline', 'ünïcode', 'semi; colon', '#nottag']
TAGS = ['trip', 'a-b', 'x.y', 'T1']
KEYS = ['aa', 'note-x', 'k2', 'long_key']


def _date(rng):
    return f'{rng.randrange(1990, 2030):04d}-{rng.randrange(1, 13):02d}-{rng.randrange(1, 29):02d}'


def _str(rng):
    s = rng.choice(STRINGS)
    return '"' + s.replace('\\', '\\\\').replace('"', '\\"') + '"'


def _num(rng, depth=0):
    r = rng.random()
    if r < 0.55 or depth > 2:
        return rng.choice(['1', '10.50', '0.001', '1,234.56', '42', '7.', '0', '0.00'])
    sp = rng.choice(['', ' ', '  '])
    if r < 0.70:
        return f'{_num(rng, depth + 1)}{sp}{rng.choice("+-")}{sp}{_num(rng, depth + 1)}'
    if r < 0.82:
        return f'{_num(rng, depth + 1)}{sp}{rng.choice("*/")}{sp}{_num(rng, depth + 1)}'
    if r < 0.92:
        return f'({sp}{_num(rng, depth + 1)}{sp})'
    return f'-{_num(rng, depth + 2)}'


def _amount(rng):
    return f'{_num(rng)}{rng.choice([" ", "  ", ""]) if False else " "}{rng.choice(CURRENCIES)}'


def _inline_comment(rng):
    # incl. comments glued to the previous token and lines ending in blanks
    return rng.choice(['', '', '', '', ' ; note', '  ;x', ' ;', ';glued', '   ', ' \t', ' ; note  '])


def _meta_value(rng):
    return rng.choice([_str(rng), rng.choice(ACCOUNTS), _date(rng), rng.choice(CURRENCIES), '#' + rng.choice(TAGS),
                       'TRUE', 'FALSE', 'NULL', _num(rng), _amount(rng), ''])


def _meta_lines(rng, indent, nl, n=None):
    out = []
    for _ in range(rng.choice([0, 0, 1, 1, 2, 3]) if n is None else n):
        if rng.random() < 0.2:
            out.append(f'{indent}; meta comment{nl}')
        v = _meta_value(rng)
        out.append(f'{indent}{rng.choice(KEYS)}:{" " + v if v else ""}{_inline_comment(rng)}{nl}')
    return out


def _cost(rng):
    comps = []
    r = rng.random()
    if r < 0.2:
        pass
    elif r < 0.4:
        comps.append(_amount(rng))
    elif r < 0.5:
        comps.append(_num(rng))
    elif r < 0.6:
        comps.append(rng.choice(CURRENCIES))
    elif r < 0.8:
        comps.append(f'{_num(rng)}{rng.choice([" ", " ", ""])}#{rng.choice([" ", " ", ""])}{_num(rng)} {rng.choice(CURRENCIES)}')
    else:
        comps.append(f'# {_num(rng)} {rng.choice(CURRENCIES)}')
    if rng.random() < 0.3:
        comps.append(_date(rng))
    if rng.random() < 0.2:
        comps.append(_str(rng))
    if rng.random() < 0.15:
        comps.append('*')
    rng.shuffle(comps)
    body = ', '.join(comps)
    return '{{' + body + '}}' if rng.random() < 0.3 and '#' not in body else '{' + body + '}'


def _posting(rng, indent, nl, meta_indent):
    flag = rng.choice(['', '', '', '! ', '* ', '!', '*  '])      # incl. a flag glued to the account
    parts = [f'{indent}{flag}{rng.choice(ACCOUNTS)}']
    r = rng.random()
    if r < 0.75:
        parts.append(rng.choice(['  ', ' ', '\t', '    ']) + _amount(rng))
        if rng.random() < 0.3:
            parts.append(rng.choice([' ', ' ', '']) + _cost(rng))       # '' : cost glued to the currency
        if rng.random() < 0.3:
            parts.append(rng.choice([' ', ' ', '']) + rng.choice(['@', '@@']) + rng.choice(['', ' ' + _amount(rng), ' ' + _num(rng), ' ' + rng.choice(CURRENCIES)]))
    elif r < 0.85:
        parts.append('  ' + rng.choice(CURRENCIES))
    line = ''.join(parts) + _inline_comment(rng) + nl
    return [line] + (_meta_lines(rng, meta_indent, nl) if rng.random() < 0.3 else [])


def gen_directive(rng, nl='\n', *, allow_txn=True):
    """One directive as a list of lines (each ending with nl)."""
    indent = rng.choice(['  ', '    ', '\t', '    ', ' '])
    meta_indent = indent
    d = _date(rng)
    kinds = ['open', 'close', 'commodity', 'pad', 'balance', 'event', 'query', 'price', 'note', 'document', 'custom',
             'option', 'include', 'plugin', 'pushtag', 'poptag', 'pushmeta', 'popmeta', 'ignored']
    if allow_txn:
        kinds += ['txn'] * 8
    k = rng.choice(kinds)
    ic = _inline_comment(rng)
    tl = lambda: ''.join(' ' + rng.choice(['#', '^']) + rng.choice(TAGS) for _ in range(rng.choice([0, 0, 1, 2, 3])))
    has_meta = True
    if k == 'open':
        cur = rng.sample(CURRENCIES, rng.choice([0, 0, 1, 2, 3]))
        sep = rng.choice([', ', ',', ' , '])
        head = f'{d} open {rng.choice(ACCOUNTS)}' + (' ' + sep.join(cur) if cur else '') + (' ' + rng.choice(['"STRICT"', '"NONE"']) if rng.random() < 0.3 else '')
    elif k == 'close':
        head = f'{d} close {rng.choice(ACCOUNTS)}'
    elif k == 'commodity':
        head = f'{d} commodity {rng.choice(CURRENCIES)}'
    elif k == 'pad':
        head = f'{d} pad {rng.choice(ACCOUNTS)} {rng.choice(ACCOUNTS)}'
    elif k == 'balance':
        tol = f' ~ {_num(rng)}' if rng.random() < 0.3 else ''
        head = f'{d} balance {rng.choice(ACCOUNTS)}  {_num(rng)}{tol} {rng.choice(CURRENCIES)}'
    elif k == 'event':
        head = f'{d} event {_str(rng)} {_str(rng)}'
    elif k == 'query':
        head = f'{d} query {_str(rng)} {_str(rng)}'
    elif k == 'price':
        head = f'{d} price {rng.choice(CURRENCIES)}  {_amount(rng)}'
    elif k == 'note':
        head = f'{d} note {rng.choice(ACCOUNTS)} {_str(rng)}{tl()}'
    elif k == 'document':
        head = f'{d} document {rng.choice(ACCOUNTS)} {_str(rng)}{tl()}'
    elif k == 'custom':
        vals = []
        prev_num = False
        for _ in range(rng.choice([0, 1, 2, 3])):
            c = rng.choice(['s', 'd', 'b', 'a', 'n', 'acc'])
            if c in ('a', 'n') and prev_num:
                c = 's'
            vals.append({'s': _str(rng), 'd': _date(rng), 'b': 'TRUE', 'a': _amount(rng), 'n': _num(rng), 'acc': rng.choice(ACCOUNTS)}[c])
            prev_num = c == 'n'
        head = f'{d} custom {_str(rng)}' + ''.join(' ' + v for v in vals)
    elif k == 'option':
        head = f'option {_str(rng)} {_str(rng)}'
        has_meta = False
    elif k == 'include':
        head = f'include {_str(rng)}'
        has_meta = False
    elif k == 'plugin':
        head = f'plugin {_str(rng)}' + (' ' + _str(rng) if rng.random() < 0.5 else '')
        has_meta = False
    elif k == 'pushtag':
        head = f'pushtag #{rng.choice(TAGS)}'
        has_meta = False
    elif k == 'poptag':
        head = f'poptag #{rng.choice(TAGS)}'
        has_meta = False
    elif k == 'pushmeta':
        v = _meta_value(rng)
        head = f'pushmeta {rng.choice(KEYS)}:' + (' ' + v if v else '')
        has_meta = False
    elif k == 'popmeta':
        head = f'popmeta {rng.choice(KEYS)}:'
        has_meta = False
    elif k == 'ignored':
        return [rng.choice(['* org heading', ':PROPERTIES:', '#+TITLE: x', '*** deeper']) + nl]
    else:
        flag = rng.choice(['*', '!', 'txn', '*', 'P'])
        strs = rng.choice(['', ' ' + _str(rng), ' ' + _str(rng) + ' ' + _str(rng)])
        head = f'{d} {flag}{strs}{tl()}'
        lines = [head + ic + nl]
        lines += _meta_lines(rng, meta_indent, nl)
        for i in range(rng.choice([0, 1, 2, 2, 3, 4])):
            if rng.random() < 0.15:
                lines.append(f'{indent}; posting comment{nl}')
            lines += _posting(rng, indent, nl, indent + rng.choice(['  ', '    ', '\t']))
        if rng.random() < 0.1:
            lines.append(f'{indent}; trailing indented comment{nl}')
        return lines
    lines = [head + ic + nl]
    if has_meta:
        lines += _meta_lines(rng, meta_indent, nl)
    return lines


def gen_file(rng, n, *, newline=None, final_newline=None):
    """A mostly-valid ledger of about n directives."""
    nl = newline if newline is not None else rng.choice(['\n', '\n', '\n', '\n', '\n', '\r\n', '\r\n', '\r\r\n'])   # the newline terminal is /\r*\n/
    out = []
    if rng.random() < 0.2:
        out.append('; file header comment' + nl)
        if rng.random() < 0.5:
            out.append(nl)
    for i in range(n):
        r = rng.random()
        if r < 0.25:
            out.append(nl * rng.choice([1, 1, 2]))
        elif r < 0.30:
            out.append(rng.choice(['  ', '\t', ' ']) + nl)
        if rng.random() < 0.2:
            out.append('; leading comment' + nl + ((';' + nl if rng.random() < 0.4 else '') + '; second line' + nl if rng.random() < 0.35 else ''))
        elif rng.random() < 0.08:
            out.append('; standalone comment' + nl + nl)
        out.extend(gen_directive(rng, nl))
        if rng.random() < 0.1:
            out.append('; trailing comment' + nl)
            out.append(nl)
    if rng.random() < 0.12:
        # the tail of the file: a line of blanks only, then a comment nobody is next to
        out.append(rng.choice(['  ', '\t', '    ']) + nl)
        out.append('; tail note' + nl)
    text = ''.join(out)
    fin = final_newline if final_newline is not None else rng.random() < 0.85
    if not fin and text.endswith(nl):
        text = text[:-len(nl)]
    return text


@functools.lru_cache(maxsize=1)
def test_strings():
    """Every string constant (< 2000 chars) of the repository's own tests."""
    seen = []
    s = set()
    for p in sorted((REPO / 'autobean_refactor').rglob('*_test.py')):
        try:
            tree = ast.parse(p.read_text())
        except SyntaxError:
            continue
        for node in ast.walk(tree):
            if isinstance(node, ast.Constant) and isinstance(node.value, str) and 0 < len(node.value) < 2000:
                if node.value not in s:
                    s.add(node.value)
                    seen.append(node.value)
    return tuple(seen)


_CORPUS = {}


def corpus(target_name='File'):
    """Test strings that the real parser accepts for the given target."""
    if target_name in _CORPUS:
        return _CORPUS[target_name]
    from autobean_refactor import parser, models
    p = parser.Parser()
    target = getattr(models, target_name)
    out = []
    for s in test_strings():
        try:
            p.parse(s, target)
        except Exception:
            continue
        out.append(s)
    _CORPUS[target_name] = tuple(out)
    return _CORPUS[target_name]
