#!/bin/sh
# Stability sweep: runs every claimed check with several seeds and prints the runs that are not `-> ok`.
# usage: harness/sweep.sh "<seeds>" [tier] [property ids...]
cd "$(dirname "$0")/.." || exit 2
seeds="${1:-0 1 2 3 4}"; tier="${2:-quick}"; shift 2 2>/dev/null
props="$*"
[ -z "$props" ] && props=$(python3 -c "import json; print(' '.join(c['property_id'] for c in json.load(open('MANIFEST.json'))['checks']))")
[ -d lean/.lake/build ] || ./setup.sh >/dev/null 2>&1
for s in $seeds; do for p in $props; do echo "$s $p"; done; done | \
  xargs -P 6 -L 1 sh -c 'out=$(VERIF_SEED=$0 ./check $1 '"$tier"' 2>&1); rc=$?; echo "$out" | tail -1 | sed "s/^/rc=$rc /"; [ $rc -ne 0 ] && echo "$out" | grep -E "VIOLATION|INFRA|Error" | head -3; true'
