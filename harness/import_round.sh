#!/bin/sh
# usage: harness/import_round.sh /tmp/mut3 D E    -- copies deliver/A -> seeded/<Cxx>D, deliver/B -> seeded/<Cxx>E (only complete, new ones)
src="$1"; la="$2"; lb="$3"
for d in "$src"/C*/deliver; do
  p=$(basename "$(dirname "$d")")
  for pair in "A:$la" "B:$lb"; do
    s=${pair%%:*}; l=${pair##*:}
    [ -n "$l" ] || continue
    if [ -f "$d/$s/patch.diff" ] && [ -f "$d/$s/demo.py" ] && [ -f "$d/$s/meta.json" ] && [ ! -d "/verif/seeded/$p$l" ]; then
      mkdir -p "/verif/seeded/$p$l"; cp "$d/$s/patch.diff" "$d/$s/demo.py" "$d/$s/meta.json" "/verif/seeded/$p$l/"; echo "$p$l"
    fi
  done
done
