"""History-mode correspondence and oracle for the real TokenStore (C07, C08, C02 share it).

The real store is driven with random operation histories; after every operation
  * the real internal state (blocks, stored indexes, handles, cached sizes, _len) is dumped in the
    Lean driver's format, and the whole history is replayed on the Lean model `Autobean.Store` carrying
    its own state -> line-by-line diff (correspondence);
  * the observable behaviour is compared with a plain Python list subjected to the same operations,
    and positions with (line, column) recomputed from the concatenated text (oracle).
"""
from __future__ import annotations
import ast, random
from common import REPO, enc_text

from autobean_refactor import token_store as ts

TEXTS = ['a', 'bc', '', '\n', 'x\n', '\ny', 'p\nq\nr', '\n\n', ' ', 'défg', '\r\n', '']


class VTok(ts.Token):
    __slots__ = ('vid', '_raw_text', 'store_handle', 'size')

    def __init__(self, vid, text):
        super().__init__(text)
        self.vid = vid

    def __repr__(self):
        return f'<{self.vid}:{self._raw_text!r}>'

    # the tokens the library stores (RawTokenModel) compare by (rule, text): distinct objects can be ==, and
    # the store must still tell them apart
    def __eq__(self, other):
        return isinstance(other, VTok) and self._raw_text == other._raw_text

    def __hash__(self):
        return hash(self._raw_text)


def lf_constants(lf):
    """Re-evaluate the source's own definitions of the four constants with _LOAD_FACTOR := lf."""
    tree = ast.parse((REPO / 'autobean_refactor' / 'token_store.py').read_text())
    env = {}
    names = ['_LOAD_FACTOR', '_DOUBLE_LOAD_FACTOR', '_HALF_LOAD_FACTOR', '_ONE_HALF_LOAD_FACTOR']
    for node in tree.body:
        if isinstance(node, ast.Assign) and len(node.targets) == 1 and isinstance(node.targets[0], ast.Name) \
                and node.targets[0].id in names:
            n = node.targets[0].id
            if n == '_LOAD_FACTOR' and lf is not None:
                env[n] = lf
            else:
                env[n] = eval(compile(ast.Expression(node.value), '<lf>', 'eval'), {}, dict(env))
    return tuple(env[n] for n in names)


def patch_lf(consts):
    ts._LOAD_FACTOR, ts._DOUBLE_LOAD_FACTOR, ts._HALF_LOAD_FACTOR, ts._ONE_HALF_LOAD_FACTOR = consts


class RealWorld:
    """Real stores + the plain-list reference + dump in the driver's format."""

    def __init__(self, consts):
        self.consts = consts
        patch_lf(consts)
        self.stores = {}      # sid -> TokenStore
        self.refs = {}        # sid -> plain list of VTok
        self.toks = {}        # vid -> VTok
        self.src = {}         # sid -> (list object given to from_tokens, copy of its content)
        self.internal_ok = True

    def tok(self, arg):
        if isinstance(arg, list):  # ['+', vid, text]
            t = VTok(arg[1], arg[2])
            self.toks[arg[1]] = t
            return t
        return self.toks[arg]

    # ---- dumps -----------------------------------------------------------------------------
    def dump_tok(self, store, t):
        h = t.store_handle
        if h is None:
            hs = '@-'
        else:
            p = next((i for i, b in enumerate(store._blocks) if b is h.block), None) if store is not None else None
            hs = f'@{p}.{h.index}' if p is not None else '@?'
        return f'{t.vid}{hs}/{t.size.line}.{t.size.column}'

    def dump_store(self, sid):
        """Internal state in the driver's format; None (and internal_ok = False) when a private name is gone - a
        pure rename degrades the comparison to the observable queries instead of failing."""
        try:
            return self._dump_store(sid)
        except AttributeError:
            self.internal_ok = False
            return None

    def _dump_store(self, sid):
        s = self.stores[sid]
        parts = [f'len={s._len}']
        for b in s._blocks:
            parts.append(f'[{b.index}|{b.size.line}.{b.size.column}|{b.last_newline_index}|' +
                         ' '.join(self.dump_tok(s, t) for t in b.tokens) + ']')
        return ' '.join(parts)

    def dump_queries(self, sid):
        s = self.stores[sid]

        def o(t):
            return '-' if t is None else str(t.vid)

        def q(f):
            try:
                return f()
            except ValueError:
                return '!ValueError:not-in-store'
            except IndexError:
                return '!IndexError'
        per = []
        for t in list(s):
            pos = q(lambda: s.get_position(t))
            per.append(f'{t.vid}:{q(lambda: s.get_index(t))}:' +
                       (pos if isinstance(pos, str) else f'{pos.line}.{pos.column}') + ':' +
                       f'{q(lambda: o(s.get_prev(t)))}:{q(lambda: o(s.get_next(t)))}')
        ids = ','.join(str(t.vid) for t in s) or '-'
        return (f'first={o(s.get_first())} last={q(lambda: o(s.get_last()))} len={len(s)} iter={ids} ' + ' '.join(per)).rstrip() \
            if per else f'first={o(s.get_first())} last={q(lambda: o(s.get_last()))} len={len(s)} iter={ids} '

    @staticmethod
    def _ok(d):
        return None if d is None else 'ok ' + d

    # ---- operations ---------------------------------------------------------------------------
    def apply(self, op):
        """Apply one op to the real store (and to the reference list when it succeeds).
        Returns (protocol line, expected output line, removed tokens, error tag or None)."""
        k = op['op']
        enc = lambda a: (f'+{a[1]}:{enc_text(a[2])}' if isinstance(a, list) else str(a))
        o = lambda x: '-' if x is None else str(x)
        if k == 'from':
            sid = op['sid']
            toks = [self.tok(a) for a in op['toks']]
            line = f'S from {sid} ' + ' '.join(enc(a) for a in op['toks'])
            try:
                s = ts.TokenStore.from_tokens(toks)
            except ValueError:
                return line.rstrip(), 'err ValueError:already-in-store', [], 'ValueError'
            self.stores[sid] = s
            self.refs[sid] = list(toks)
            self.src[sid] = (toks, list(toks))      # the very list object handed to from_tokens, and what it held
            return line.rstrip(), self._ok(self.dump_store(sid)), [], None
        if k == 'scribble':
            # the caller goes on using the list it built the store from: the store is a container of its own
            lst, _ = self.src[op['sid']]
            if op['how'] == 'clear':
                lst.clear()
            else:
                lst.reverse()
            self.src[op['sid']] = (lst, list(lst))
            return None, None, [], None
        if k == 'update_free':
            # a token that is in no store has its text changed (and is typically re-inserted later)
            t = self.toks[op['tok']]
            t.raw_text = op['text']
            return f'S updatefree {op["tok"]} {enc_text(op["text"])}', 'ok ' + self.dump_tok(None, t), [], None
        sid = op['sid']
        s = self.stores[sid]
        ref = self.refs[sid]
        before = list(s)
        if k == 'query':
            return f'S query {sid}', 'ok ' + self.dump_queries(sid), [], None
        if k == 'iter':
            a, b = self.toks[op['a']], self.toks[op['b']]
            try:
                got = ','.join(str(t.vid) for t in s.iter(a, b)) or '-'
                return f'S iter {sid} {op["a"]} {op["b"]}', 'ok ' + got, [], None
            except ValueError:
                return f'S iter {sid} {op["a"]} {op["b"]}', '!ValueError:not-in-store', [], 'ValueError'
        if k == 'update':
            t = self.toks[op['tok']]
            line = f'S update {sid} {op["tok"]} {enc_text(op["text"])}'
            t.raw_text = op['text']
            return line, self._ok(self.dump_store(sid)), [], None
        toks = [self.tok(a) for a in op.get('toks', [])]
        tl = ' '.join(enc(a) for a in op.get('toks', []))
        g = lambda key: (self.toks[op[key]] if op.get(key) is not None else None)
        try:
            if k == 'splice':
                line = f'S splice {sid} {o(op["ref"])} {o(op["end"])} {tl}'
                s.splice(toks, g('ref'), g('end'))
            elif k == 'insert_after':
                line = f'S insert_after {sid} {o(op["ref"])} {tl}'
                s.insert_after(g('ref'), toks)
            elif k == 'insert_before':
                line = f'S insert_before {sid} {o(op["ref"])} {tl}'
                s.insert_before(g('ref'), toks)
            elif k == 'replace':
                line = f'S replace {sid} {op["tok"]} {enc(op["toks"][0])}'
                s.replace(self.toks[op['tok']], toks[0])
            elif k == 'remove':
                line = f'S remove {sid} {op["a"]} {o(op.get("b"))}'
                s.remove(self.toks[op['a']], g('b'))
            else:
                raise AssertionError(k)
        except ValueError as e:
            tag = 'ValueError:already-in-store' if 'already' in str(e) else 'ValueError:not-in-store'
            return line.rstrip(), 'err ' + tag, [], tag
        except IndexError:
            return line.rstrip(), 'err IndexError', [], 'IndexError'
        # reference list semantics
        def idx(t):
            return next(i for i, x in enumerate(ref) if x is t)
        if k == 'splice':
            i = idx(g('ref')) if op['ref'] is not None else 0
            j = idx(g('end')) + 1 if op['end'] is not None else i
            ref[i:j] = toks
        elif k == 'insert_after':
            i = idx(g('ref')) + 1 if op['ref'] is not None else 0
            ref[i:i] = toks
        elif k == 'insert_before':
            i = idx(g('ref')) if op['ref'] is not None else 0
            ref[i:i] = toks
        elif k == 'replace':
            i = idx(self.toks[op['tok']])
            ref[i:i + 1] = toks
        elif k == 'remove':
            i = idx(self.toks[op['a']])
            j = idx(g('b')) + 1 if op.get('b') is not None else i + 1
            ref[i:j] = []
        after_ids = {id(t) for t in ref}
        removed = [t for t in before if id(t) not in after_ids]
        d = self.dump_store(sid)
        out = None if d is None else 'ok ' + d + ' removed=' + ' '.join(self.dump_tok(None, t) for t in removed)
        return line.rstrip(), out, removed, None

    # ---- oracle ---------------------------------------------------------------------------------
    def oracle(self, sid, removed=()):
        """Plain-list semantics + recomputed positions; returns a list of (signature, description)."""
        s = self.stores[sid]
        ref = self.refs[sid]
        bad = []
        if sid in self.src:
            lst, held = self.src[sid]
            if len(lst) != len(held) or any(a is not b for a, b in zip(lst, held)):
                bad.append(('C07:callers-list-changed', 'the list object given to from_tokens was changed by a store operation'))
                return bad
        got = list(s)
        if len(got) != len(ref) or any(a is not b for a, b in zip(got, ref)):
            bad.append(('C07:iter', f'iteration {[t.vid for t in got]} != list {[t.vid for t in ref]}'))
            return bad
        if len(s) != len(ref):
            bad.append(('C07:len', f'len {len(s)} != {len(ref)}'))
        first = ref[0] if ref else None
        last = ref[-1] if ref else None
        try:
            if s.get_first() is not first:
                bad.append(('C07:first', 'get_first differs'))
            if s.get_last() is not last:
                bad.append(('C07:last', 'get_last differs'))
        except Exception as e:
            bad.append(('C07:first-last-raises', repr(e)))
        text_before = ''
        for i, t in enumerate(ref):
            try:
                if t.store_handle is None:
                    bad.append(('C07:handle-none', f'token {t.vid} in store has no handle'))
                    continue
                if s.get_index(t) != i:
                    bad.append(('C07:index', f'get_index({t.vid})={s.get_index(t)} != {i}'))
                p = s.get_prev(t)
                if p is not (ref[i - 1] if i else None):
                    bad.append(('C07:prev', f'get_prev({t.vid}) wrong'))
                n = s.get_next(t)
                if n is not (ref[i + 1] if i + 1 < len(ref) else None):
                    bad.append(('C07:next', f'get_next({t.vid}) wrong'))
                pos = s.get_position(t)
                line = text_before.count('\n')
                col = len(text_before) - text_before.rfind('\n') - 1
                if (pos.line, pos.column) != (line, col):
                    bad.append(('C08:position', f'get_position({t.vid})=({pos.line},{pos.column}) != ({line},{col})'))
            except Exception as e:
                bad.append(('C07:query-raises', f'{type(e).__name__} on token {t.vid}'))
            text_before += t.raw_text
        for t in removed:
            if t.store_handle is not None:
                bad.append(('C07:removed-attached', f'removed token {t.vid} still has a handle'))
        return bad

    def oracle_iter(self, sid, rng):
        s = self.stores[sid]
        ref = self.refs[sid]
        bad = []
        if ref:
            i = rng.randrange(len(ref))
            j = rng.randrange(i, len(ref))
            try:
                got = list(s.iter(ref[i], ref[j]))
                if len(got) != j - i + 1 or any(a is not b for a, b in zip(got, ref[i:j + 1])):
                    bad.append(('C07:iter-range', f'iter({ref[i].vid},{ref[j].vid}) wrong'))
            except Exception as e:
                bad.append(('C07:iter-raises', repr(e)))
        return bad


class Gen:
    def __init__(self, rng):
        self.rng = rng
        self.next_vid = 1

    def new(self, n):
        out = []
        for _ in range(n):
            out.append(['+', self.next_vid, self.rng.choice(TEXTS)])
            self.next_vid += 1
        return out

    def history(self, world: RealWorld, nops, lf, errors=True):
        """Generates ops lazily against the evolving real state (refs are chosen among live tokens)."""
        rng = self.rng
        n0 = rng.choice([0, 1, 2, lf, lf + 1, 2 * lf, 2 * lf + 1, 3 * lf + 1, 5 * lf, rng.randrange(0, 6 * lf + 2)])
        yield {'op': 'from', 'sid': 1, 'toks': self.new(n0)}
        pool = []  # vids of removed tokens (free again)
        if rng.random() < 0.25:
            yield {'op': 'scribble', 'sid': 1, 'how': rng.choice(['clear', 'reverse'])}
        for _ in range(nops):
            ref = world.refs[1]
            r = rng.random()
            n = len(ref)
            pick = lambda: ref[rng.randrange(n)].vid
            if r < 0.06 and errors:
                # refusal paths
                c = rng.random()
                if c < 0.4 and n >= 2:
                    yield {'op': 'insert_after', 'sid': 1, 'ref': pick(), 'toks': self.new(rng.randrange(0, 2)) + [pick()]}
                elif c < 0.7:
                    if 2 not in world.stores:
                        yield {'op': 'from', 'sid': 2, 'toks': self.new(rng.randrange(1, 2 * lf + 2))}
                    other = world.refs[2]
                    if other:
                        v = other[rng.randrange(len(other))].vid
                        if n:
                            a = pick()
                            yield {'op': 'splice', 'sid': 1, 'ref': a, 'end': a, 'toks': [v]}
                        else:
                            yield {'op': 'insert_after', 'sid': 1, 'ref': None, 'toks': [v]}
                elif pool:
                    yield {'op': 'insert_after', 'sid': 1, 'ref': rng.choice(pool), 'toks': self.new(1)}
                continue
            if pool and rng.random() < 0.08:
                yield {'op': 'update_free', 'sid': 1, 'tok': rng.choice(pool), 'text': rng.choice(TEXTS)}
                continue
            if n == 0 or r < 0.30:
                k = rng.choice([0, 1, 1, 2, 3, lf, 2 * lf + 1])
                toks = self.new(k)
                if pool and rng.random() < 0.4:
                    toks.append(pool.pop(rng.randrange(len(pool))))
                which = rng.choice(['insert_after', 'insert_before'])
                yield {'op': which, 'sid': 1, 'ref': (pick() if n and rng.random() < 0.9 else None), 'toks': toks}
            elif r < 0.55:
                i = rng.randrange(n)
                span = rng.choice([0, 0, 1, 2, lf, 2 * lf, n])
                j = min(n - 1, i + span)
                k = rng.choice([0, 0, 1, 2, lf + 1])
                toks = self.new(k)
                if rng.random() < 0.3:
                    # re-insert tokens of the replaced range itself (allowed: they are inside [start, end)): the first few, or
                    # any few of them in any order; half of the time NOTHING but re-used tokens (the call shape of
                    # `x.raw_spacing_after = x.raw_spacing_after[:1]`: some kept, the rest dropped)
                    if rng.random() < 0.5:
                        sub = [ref[x].vid for x in range(i, j + 1)][:3]
                    else:
                        sub = [ref[x].vid for x in rng.sample(range(i, j + 1), min(j - i + 1, rng.choice([1, 1, 2, 3])))]
                    toks = ([] if rng.random() < 0.5 else toks) + sub
                before = {t.vid for t in ref}
                if rng.random() < 0.12:
                    # the other call shape: no start token = from the very beginning, up to and including `end`
                    yield {'op': 'splice', 'sid': 1, 'ref': None, 'end': (ref[j].vid if rng.random() < 0.8 else None), 'toks': [t for t in toks if isinstance(t, list)]}
                else:
                    yield {'op': 'splice', 'sid': 1, 'ref': ref[i].vid, 'end': (ref[j].vid if rng.random() < 0.85 else None), 'toks': toks}
                pool.extend(sorted(before - {t.vid for t in world.refs[1]}))
            elif r < 0.70:
                i = rng.randrange(n)
                span = rng.choice([0, 0, 1, 3, lf, 3 * lf, n])
                j = min(n - 1, i + span)
                before = {t.vid for t in ref}
                yield {'op': 'remove', 'sid': 1, 'a': ref[i].vid, 'b': (ref[j].vid if j > i or rng.random() < 0.5 else None)}
                pool.extend(sorted(before - {t.vid for t in world.refs[1]}))
            elif r < 0.78:
                v = pick()
                new = self.new(1)
                if rng.random() < 0.35:
                    new[0][2] = world.toks[v].raw_text     # a distinct token that compares equal to the replaced one
                yield {'op': 'replace', 'sid': 1, 'tok': v, 'toks': new}
                pool.append(v)
            elif r < 0.95:
                yield {'op': 'update', 'sid': 1, 'tok': pick(), 'text': rng.choice(TEXTS)}
            else:
                i = rng.randrange(n)
                j = rng.randrange(n)
                yield {'op': 'iter', 'sid': 1, 'a': ref[i].vid, 'b': ref[j].vid}


def block_sig(world, sid):
    s = world.stores.get(sid)
    if s is None:
        return ()
    return tuple(len(b.tokens) for b in s._blocks)


def run_histories(ctx, nhist, nops, lfs, with_model=True, prefix='C07', judge=('C07', 'C08')):
    """Generates and runs histories.  Returns nothing; reports through ctx."""
    batches = []  # (replay dict, [(line, expected)])
    for h in range(nhist):
        lf = lfs[h % len(lfs)]
        consts = lf_constants(lf)
        world = RealWorld(consts)
        gen = Gen(ctx.rng)
        lines = [(f'S lf {consts[0]} {consts[1]} {consts[2]} {consts[3]}', 'ok')]
        ops = []
        failed = False
        it = gen.history(world, nops, lf)
        for op in it:
            ops.append(op)
            if hasattr(ctx, 'current'):
                ctx.current({'consts': consts, 'history': list(ops)})
            shape0 = block_sig(world, op['sid'])
            try:
                line, exp, removed, err = world.apply(op)
            except Exception as e:  # the real store raised something unexpected: the history is the replay
                ctx.oracle_fail(f'{prefix}:unexpected-{type(e).__name__}:{op["op"]}',
                                f'{type(e).__name__}: {e} in {op["op"]}', {'consts': consts, 'history': ops})
                failed = True
                break
            if line is not None:
                lines.append((line, exp))
            ctx.count('op:' + op['op'] + (':' + err if err else ''))
            shape1 = block_sig(world, op['sid'])
            ctx.case((op['op'], err, len(shape0), len(shape1), shape0 != shape1, min(shape1 or (0,)) <= consts[2], lf),
                     sample={'lf': lf, 'op': op, 'blocks_before': shape0, 'blocks_after': shape1} if ctx.evaluations % 997 == 0 else None)
            if err is None and op['op'] not in ('iter', 'update_free'):   # (after a scribble the store is compared with the plain list as after any op)
                bad = world.oracle(op['sid'], removed) + world.oracle_iter(op['sid'], ctx.rng)
                bad = [b for b in bad if b[0].split(':')[0] in judge]
                ql, qe, _, _ = world.apply({'op': 'query', 'sid': op['sid']})
                lines.append((ql, qe))
                if bad:
                    sig, what = bad[0]
                    ctx.oracle_fail(sig, what, {'consts': consts, 'history': list(ops)})
                    failed = True
                    break
        batches.append(({'consts': consts, 'history': ops}, lines))
        if not world.internal_ok:
            ctx.extra['internal_view'] = 'unavailable'
    if with_model and ctx.extra.get('model_available', True):
        all_lines = ['reset'] * 0
        index = []
        for bi, (rep, lines) in enumerate(batches):
            all_lines.append('reset')
            index.append((bi, None))
            for li, (l, e) in enumerate(lines):
                all_lines.append(l)
                index.append((bi, li))
        outs = ctx.driver.run(all_lines)
        seen = set()
        for (bi, li), out in zip(index, outs):
            if li is None or bi in seen:
                continue
            exp = batches[bi][1][li][1]
            if exp is None:
                continue   # internal view unavailable for this line (private name renamed): observable queries only
            if out.rstrip() != exp.rstrip():
                seen.add(bi)
                ctx.divergence('store-history', {'line': batches[bi][1][li][0], 'model': out[:600], 'real': exp[:600], 'step': li},
                               batches[bi][0])
        ctx.extra['traces_validated_against_model'] = ctx.extra.get('traces_validated_against_model', 0) + len(batches)
    patch_lf(lf_constants(None))


def replay_history(data):
    """Re-run a recorded history on the real store with the oracle; returns list of (sig, what)."""
    consts = tuple(data['consts'])
    world = RealWorld(consts)
    try:
        for op in data['history']:
            try:
                line, exp, removed, err = world.apply(op)
            except KeyError:
                continue  # op refers to a token an earlier (shrunk-away) op would have created
            except Exception as e:
                return [(f'unexpected-{type(e).__name__}:{op["op"]}', repr(e))]
            if err is None and op['op'] not in ('iter', 'query'):
                bad = world.oracle(op['sid'], removed)
                if bad:
                    return bad
        return []
    finally:
        patch_lf(lf_constants(None))
