"""./check Cxx quick|thorough   |   ./check Cxx --replay <file>

Verdict logic (DESIGN.md §2.4):
  1 extract  2 lake build  3 audit  4 correspondence  5 oracle
  all pass -> exit 0.  A broken proof/obligation/correspondence -> search the real code for a failing
  input -> VIOLATION with that replay, or VIOLATION ... no-failing-input-found.  Oracle failure on the
  real code -> VIOLATION with the (shrunk) input.  Failures listed in known_findings.json print
  KNOWN-FINDING and do not count.  Infrastructure errors -> exit 2.
"""
from __future__ import annotations
import collections, importlib, json, os, random, signal, sys, time, traceback
from pathlib import Path
sys.path.insert(0, str(Path(__file__).resolve().parent))
import common
sys.path.insert(0, str(common.REPO))   # the tree under test (VERIF_REPO, default /repo) shadows any installed copy
from common import VERIF, LEAN, EVIDENCE, REPLAYS, Infra


class Ctx:
    def __init__(self, prop, tier, seed):
        self.prop, self.tier, self.seed = prop, tier, seed
        self.rng = random.Random(f'{prop}:{seed}')
        self.thorough = tier == 'thorough'
        self.evaluations = 0
        self.nontrivial = set()
        self.samples = []
        self.dist = collections.Counter()
        self.oracle_fails = []      # {sig, what, replay(dict)}
        self.divergences = []       # {stream, detail, replay(dict)}
        self.proof_breaks = []      # {kind, detail}
        self.notes = []
        self.extra = {}
        self.driver = common.Driver()
        self.t0 = time.time()
        self.searching = False

    def scale(self, quick, thorough):
        return thorough if self.thorough else quick

    def count(self, key, n=1):
        self.dist[key] += n
        common.alive()

    def current(self, replay):
        """The step about to be executed on the real code (named in the replay if that step never returns)."""
        common.CURRENT = replay
        common.alive()

    def case(self, signature=None, sample=None):
        """One evaluated case; `signature` identifies it for the distinct-nontrivial count (None = trivial)."""
        self.evaluations += 1
        common.alive()
        if signature is not None:
            self.nontrivial.add(signature if isinstance(signature, (str, int)) else repr(signature))
        if sample is not None and len(self.samples) < 6:
            self.samples.append(sample)

    def oracle_fail(self, sig, what, replay):
        if len(self.oracle_fails) < 200:
            self.oracle_fails.append({'sig': sig, 'what': what, 'replay': replay})

    def divergence(self, stream, detail, replay):
        if len(self.divergences) < 200:
            self.divergences.append({'stream': stream, 'detail': detail, 'replay': replay})

    def proof_break(self, kind, detail):
        self.proof_breaks.append({'kind': kind, 'detail': detail})


def watchdog(stall):
    """No sign of life from the harness for `stall` seconds while the real code runs -> common.Hang in the main thread."""
    def handler(signum, frame):
        if common.IN_DRIVER:
            common.alive()
        elif time.time() - common.PROGRESS > stall:
            raise common.Hang()
    signal.signal(signal.SIGALRM, handler)
    signal.setitimer(signal.ITIMER_REAL, 10, 10)
    common.alive()


def watchdog_off():
    signal.setitimer(signal.ITIMER_REAL, 0)


def guarded(ctx, prop, stall, fn, *args):
    """Runs a phase under the watchdog; a step of the real code that does not return is a failure of that step."""
    watchdog(stall)
    try:
        return fn(*args)
    except common.Hang:
        cur = common.CURRENT
        what = f'the implementation made no progress for {stall} s (a call that does not return, or that grows without bound)'
        if cur is not None:
            ctx.oracle_fail(f'{prop}:hang', what + ' on the recorded step', dict(cur, hang=True) if isinstance(cur, dict) else {'step': cur, 'hang': True})
        else:
            ctx.proof_break('hang', what + '; the harness could not name the step')
    finally:
        watchdog_off()
        common.CURRENT = None


def write_replay(ctx, n, body):
    REPLAYS.mkdir(exist_ok=True)
    p = REPLAYS / f'{ctx.prop}-{ctx.tier}-{ctx.seed}-{n}.json'
    p.write_text(json.dumps(body, indent=1, default=str))
    return p


def main(argv):
    if len(argv) < 3:
        print(__doc__)
        return 2
    prop = argv[1]
    seed = int(os.environ.get('VERIF_SEED', '0') or 0)
    mod = importlib.import_module(f'props.{prop.lower()}')
    if argv[2] == '--replay':
        ctx = Ctx(prop, 'quick', seed)
        data = json.loads(Path(argv[3]).read_text())
        watchdog(120)
        try:
            ok = mod.replay(ctx, data)
        except common.Hang:
            print('replay: the implementation did not return within 120 s')
            ok = False
        finally:
            watchdog_off()
        if ok:
            print(f'replay: property {prop} holds on this input now')
            return 0
        print(f'VIOLATION property={prop} replay={argv[3]}')
        return 1
    tier = argv[2]
    if tier not in ('quick', 'thorough'):
        tier = os.environ.get('VERIF_TIER', 'quick')
    ctx = Ctx(prop, tier, seed)
    for old in REPLAYS.glob(f'{prop}-{tier}-{seed}-*.json'):
        old.unlink()       # replays of an earlier run with the same (property, tier, seed) are stale
    obligations = 0
    discharged = 0
    theorems = []
    axioms = {}
    try:
        # 1-3: translator, build, audit (serialised: several checks may run in parallel)
        with common.BuildLock():
            ok, log = common.run_extract()
            if not ok:
                ctx.proof_break('extract', log[-1500:])
            targets = list(mod.LEAN_TARGETS) + ['Driver']
            ok, failed, log, errs = common.lake_build(targets)
            if not ok:
                own = [f for f in failed if any(f == t or f.startswith('Autobean.') for t in mod.LEAN_TARGETS)]
                if any(f.startswith('Driver') for f in failed) and not own:
                    raise Infra('driver build failed:\n' + log[-3000:])
                ctx.proof_break('build', {'failed_modules': failed, 'errors': [list(e) for e in errs[:20]], 'log_tail': log[-1500:]})
            hits = common.grep_forbidden()
            if hits:
                ctx.proof_break('forbidden-construct', hits)
            pfile = LEAN / mod.PROPERTY_FILE
            theorems = common.list_theorems(pfile) if pfile.exists() else []
            obl_modules = [t for t in mod.LEAN_TARGETS if '.Obligations.' in t]
            for om in obl_modules:
                theorems_om = common.list_theorems(LEAN / (om.replace('.', '/') + '.lean'))
                theorems += theorems_om
            obligations = len(theorems)
            if not any(b['kind'] == 'build' for b in ctx.proof_breaks):
                pmod = mod.PROPERTY_FILE[:-5].replace('/', '.')
                src = 'import ' + '\nimport '.join([pmod] + obl_modules) + '\n' + ''.join(f'#print axioms {t}\n' for t in theorems)
                tmp = LEAN / '.lake' / f'audit_{prop}_{os.getpid()}.lean'
                tmp.write_text(src)
                try:
                    r = common.sh(['lake', 'env', 'lean', str(tmp)], cwd=LEAN, timeout=1200)
                finally:
                    tmp.unlink(missing_ok=True)
                import re
                for m in re.finditer(r"'([^']+)' depends on axioms: \[([^\]]*)\]", r.stdout, re.S):
                    axioms[m.group(1)] = [a.strip() for a in m.group(2).replace('\n', ' ').split(',') if a.strip()]
                for m in re.finditer(r"'([^']+)' does not depend on any axioms", r.stdout):
                    axioms[m.group(1)] = []
                for t in theorems:
                    ax = axioms.get(t)
                    if ax is None:
                        ctx.proof_break('audit', f'no axiom report for {t}: {r.stdout[-500:]}')
                    elif not set(ax) <= common.ALLOWED_AXIOMS:
                        ctx.proof_break('audit', f'{t} depends on {ax}')
                    else:
                        discharged += 1
                if ctx.thorough:
                    # independent re-check of the compiled proofs with the toolchain's leanchecker
                    mods = [pmod] + obl_modules
                    r = common.sh(['lake', 'env', 'leanchecker', *mods], cwd=LEAN, timeout=3000)
                    ctx.extra['leanchecker'] = {'modules': mods, 'rc': r.returncode, 'tail': r.stdout[-300:]}
                    if r.returncode != 0:
                        ctx.proof_break('leanchecker', r.stdout[-1500:])
        # 4-5: correspondence and oracle on the real code
        driver_ok = not any(b['kind'] == 'build' and any(str(f).startswith('Driver') or str(f).startswith('Autobean.Model') for f in b['detail']['failed_modules']) for b in ctx.proof_breaks)
        ctx.extra['model_available'] = driver_ok
        stall = 600 if ctx.thorough else 240
        guarded(ctx, prop, stall, mod.run, ctx)
        violations = []
        known = [k for k in common.load_known() if k['property'] == prop and k['status'] == 'finding']
        known_hit = {}

        def triage(fails):
            for f in fails:
                k = next((k for k in known if k['signature'] == f['sig']), None)
                if k is not None:
                    known_hit.setdefault(k['signature'], k)
                else:
                    violations.append(f)
        triage(ctx.oracle_fails)
        if (ctx.proof_breaks or ctx.divergences) and not violations:
            # the property is no longer shown to hold: look for a concrete failing input on the real code
            ctx.searching = True
            before = len(ctx.oracle_fails)
            hints = {'proof_breaks': ctx.proof_breaks, 'divergences': ctx.divergences}
            if hasattr(mod, 'search'):
                guarded(ctx, prop, stall, mod.search, ctx, hints)
            triage(ctx.oracle_fails[before:])
        lines = []
        n = 0
        seen_sigs = set()
        for f in violations:
            if f['sig'] in seen_sigs:
                continue
            seen_sigs.add(f['sig'])
            n += 1
            p = write_replay(ctx, n, {'property': prop, 'kind': 'failing-input', 'signature': f['sig'], 'what': f['what'],
                                      'replay': f['replay'], 'how': f'./check {prop} --replay <this file>'})
            lines.append(f'VIOLATION property={prop} replay={p}')
            if n >= 5:
                break
        if not violations and (ctx.proof_breaks or ctx.divergences):
            n += 1
            p = write_replay(ctx, n, {
                'property': prop, 'kind': 'no-failing-input-found',
                'no_longer_checks': {
                    'proof_or_obligation': ctx.proof_breaks,
                    'correspondence': [{'stream': d['stream'], 'detail': d['detail']} for d in ctx.divergences[:10]]},
                'first_diverging_replay': ctx.divergences[0]['replay'] if ctx.divergences else None,
                'searched': {'evaluations': ctx.evaluations, 'seed': ctx.seed, 'tier': ctx.tier}})
            lines.append(f'VIOLATION property={prop} replay={p} no-failing-input-found')
        for sig, k in known_hit.items():
            print(f'KNOWN-FINDING: property={prop} {k["what"]} [{sig}]')
        wall = time.time() - ctx.t0
        ev = {
            'property_id': prop, 'tier': tier, 'seed': seed, 'level': 'proof',
            'coverage': {
                'obligations': max(obligations, 1), 'discharged': discharged,
                'checker_cmd': f'cd lean && lake build {" ".join(mod.LEAN_TARGETS)} && lake env lean <#print axioms of every theorem in {mod.PROPERTY_FILE} and its obligations>',
                'trusted_base': common.TRUSTED_BASE + list(getattr(mod, 'TRUSTED_EXTRA', [])),
                'theorems': theorems, 'axioms': axioms,
                'evaluations': ctx.evaluations, 'distinct_nontrivial': len(ctx.nontrivial),
                'rule': getattr(mod, 'RULE', ''), 'samples': ctx.samples[:6],
                'input_distribution': dict(ctx.dist.most_common(80)),
                'proof_breaks': ctx.proof_breaks, 'correspondence_divergences': len(ctx.divergences),
                'oracle_failures': len(ctx.oracle_fails), 'known_findings_hit': sorted(known_hit),
                'exhaustive': False, **ctx.extra,
            },
            'assumptions': list(getattr(mod, 'ASSUMPTIONS', [])) + ctx.notes,
            'wall_s': round(wall, 2), 'violations': len(lines),
        }
        EVIDENCE.mkdir(exist_ok=True)
        (EVIDENCE / f'{prop}.json').write_text(json.dumps(ev, indent=1, default=str))
        for l in lines:
            print(l)
        print(f'{prop} {tier} seed={seed}: theorems {discharged}/{obligations} audited, {ctx.evaluations} cases '
              f'({len(ctx.nontrivial)} distinct non-trivial), divergences={len(ctx.divergences)}, '
              f'oracle failures={len(ctx.oracle_fails)}, {wall:.1f}s -> {"VIOLATION" if lines else "ok"}')
        return 1 if lines else 0
    except Infra as e:
        print(f'INFRA-ERROR {prop}: {e}', file=sys.stderr)
        return 2
    except Exception:
        traceback.print_exc()
        print(f'INFRA-ERROR {prop}: unexpected exception in the harness', file=sys.stderr)
        return 2


if __name__ == '__main__':
    sys.exit(main(sys.argv))
