"""Regenerates MANIFEST.json from the per-property modules (harness/props/cXX.py)."""
import importlib, json, sys
from pathlib import Path
sys.path.insert(0, str(Path(__file__).resolve().parent))
VERIF = Path(__file__).resolve().parent.parent
props = [json.loads(l) for l in (VERIF / 'properties.jsonl').read_text().splitlines() if l.strip()]
checks = []
na = []
for p in props:
    pid = p['id']
    f = VERIF / 'harness' / 'props' / f'{pid.lower()}.py'
    if not f.exists():
        na.append({'property_id': pid, 'reason': 'check not built yet in this round (planned: see DESIGN.md section 5)'})
        continue
    src = f.read_text()
    ns = {}
    # read the declarative constants without importing the repo
    import ast
    for node in ast.parse(src).body:
        if isinstance(node, ast.Assign) and len(node.targets) == 1 and isinstance(node.targets[0], ast.Name):
            try:
                ns[node.targets[0].id] = ast.literal_eval(node.value)
            except Exception:
                pass
    checks.append({
        'property_id': pid,
        'quick_cmd': f'./check {pid} quick',
        'thorough_cmd': f'./check {pid} thorough',
        'evidence_file': f'/verif/evidence/{pid}.json',
        'replay_cmd_template': f'./check {pid} --replay {{path}}',
        'engine': 'lean4-proof+correspondence',
        'level_claimed': {
            'category': 'proof',
            'text': ns.get('LEVEL_TEXT', 'Lean 4 theorems about an executable model of the mechanism, tied to /repo by the translator obligations and by a per-run correspondence diff against the real code; an executable oracle on the real code supplies concrete failing inputs.'),
            'design_ref': f'DESIGN.md section 5, {pid}',
        },
        'level_note': ns.get('LEVEL_NOTE', 'Trusted: Lean kernel (axioms propext, Classical.choice, Quot.sound only), the translator, the correspondence harness; Python control flow is hand-transcribed (modelled, not verified); lark/re/decimal/OS outside the model.'),
        'technique': ns.get('TECHNIQUE', 'Lean 4 machine-checked proof over a hand-written model + run-time correspondence check against the implementation'),
    })
m = {
    'version': 1,
    'setup_cmd': './setup.sh',
    'hooks': {
        'guard': 'AUTOBEAN_REFACTOR_VERIF',
        'enable': 'no source hooks are needed: the checks import /repo in-process and patch module globals (token_store load-factor constants) from the harness',
        'baseline_off_cmd': 'cd /repo && /venv/bin/python -m pytest -ra -q -p no:cacheprovider --timeout=900',
        'source_commits': [],
        'add_only': True,
    },
    'engines': [{
        'name': 'lean4-proof+correspondence', 'path': 'lean/',
        'serves_properties': [c['property_id'] for c in checks],
        'kind_free_text': 'Lean 4.33 lake project (models, proofs, property theorems, decide-obligations over tables regenerated from /repo by extract/extract.py) + Python correspondence/oracle harness driving the real autobean_refactor in-process and the Lean driver over a line protocol',
    }],
    'checks': checks,
    'not_applicable': na,
    'notes': 'See DESIGN.md. Every check: extract -> lake build -> axiom audit -> correspondence -> oracle; exit 0/1/2.',
}
(VERIF / 'MANIFEST.json').write_text(json.dumps(m, indent=1) + '\n')
print(len(checks), 'checks;', len(na), 'not claimed')
