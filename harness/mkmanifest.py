"""Regenerates MANIFEST.json from the per-property modules (harness/props/cXX.py)."""
import importlib, json, sys
from pathlib import Path
sys.path.insert(0, str(Path(__file__).resolve().parent))
VERIF = Path(__file__).resolve().parent.parent
props = [json.loads(l) for l in (VERIF / 'properties.jsonl').read_text().splitlines() if l.strip()]
checks = []
na = []
# Per-property wording of what the claimed level covers (kept here so that it is one table to review).
LEVELS = {
 'C01': ('Lean theorems about the post-lexer and the model builder (text preservation, every lexeme materialised once, sorted leaves, every sub-model prints its slice, File prints the input) under three per-input-validated assumptions about lark; obligations pin the split regex, token names, %ignore list; per input the real lexer/parser run is replayed on the model and diffed.', 'lark (lexer + LALR) is outside the model: assumptions A1-A3 are validated on every explored input, not proved'),
 'C02': ('Lean theorem on the blocked-store model: a text update keeps identities, order and invariants and replaces exactly one entry of the abstract (id, text) list, for every history of assignments; obligation: _raw_text has a single writer; store internals diffed on parsed multi-block documents.', 'setter glue of each token class is checked by correspondence, not proved'),
 'C03': ('43 Lean frame theorems over list-level store / slot / repeated-field models (everything outside the window unchanged, siblings keep their token lists, new gaps are copies of declared separators, Python list semantics incl. extended slices and drop_many, histories); obligations on pivots and separators; every slot / raw-wrapper op and the whole slice grid replayed on the model in lock-step.', 'views / mappings / value-level properties are observed at the raw-wrapper level'),
 'C04': ('Lean theorems: claim / shift / interleaving-claim / auto-claim preserve the visible tokens (ids, order, text), are permutations moving only placeholders; unclaim touches flags only; obligation: no read-only role reaches a store mutator (372 getters); every primitive claim call is locked-stepped with the model.', 'the effect table is name-based (conservative); dynamic dispatch is not resolved'),
 'C05': ('Lean theorems at tree level: the document invariant (tags, distinct leaves in store order) is preserved by replace / create / remove / insert / extend / remove-items / pop (popped node self-contained) and by every history; lifting lemmas; parse establishes it; witness that the pre-repair extend() violates it; obligations reattach_complete, first_last_canonical; invariant evaluated on the real objects after every operation of random histories.', 'that the generated Python updates the same fields the model updates is checked (oracle + obligations), not proved'),
 'C06': ('Lean theorems for the model-side premises only (separator discipline: created children are kept apart by the declared separators, new gaps of repeated fields are declared separators with visible text); obligations separators_non_empty, pivots_canonical, pivots_not_cached; the disambiguation loop of Custom.from_value / from_children proved to lose no value (disamb_reads_all) and diffed against the real constructors and the real parser on every value sequence of length <= 3; re-parse by the real parser after every syntax-preserving edit.', 'PARTIAL: "the printed text parses to the same structure" needs the lexer/parser, which is outside the model; it is checked on every explored history'),
 'C07': ('Full refinement proof: for every load factor >= 2 the blocked store (blocks with stored indexes, handles, split/merge/rebalance, fast path) refines a plain list for every operation history; all queries equal their list counterparts; removed tokens detached; obligation on the constants; internal state diffed against the real store on random histories.', 'hand transcription of token_store.py validated by the internal-state diff'),
 'C08': ('Lean theorems: cache invariant preserved by every mutator incl. text updates that add/remove line breaks and the fast path; get_position = size of the text before the token; obligations single writer of _raw_text/size; positions recomputed from the concatenated text on store histories and on parsed multi-block documents.', 'as C07'),
 'C09': ('Lean refinement of the cost group and of payee/narration to records of optionals (every setter branch, iff with the documented rejection, all histories, all start forms), generic optional-slot round trip; history-mode diff on real objects; every value property of every class read back / siblings / re-parse.', 're-parse clause relies on the real parser; four recorded findings about comment ownership / trailing blanks on re-parse'),
 'C10': ('Lean theorems: handle_splice correct, every raw-wrapper method notifies with a normalised range describing exactly its change, view invariant for every history through any view, views equal filter(raw), Python list semantics for all indices/slices/steps, mapping views equal a first-match ordered multi-dict reference; obligation field_assignment_drops_views; _raw_indexes diffed line by line on histories through all aliasing views incl. whole-field assignment and += statements.', 'CPython list semantics are a Lean reference definition compared with real lists on every explored op'),
 'C11': ('Lean theorems: deepcopy total under the invariant, copied store = renamed span, shape/leaves preserved, invariant + whole-store span, equal to the original, same text and flags, disjoint ids; obligation clone_complete; lock-step of the model copy vs the real copy; independence by edits on either side.', 'aliasing of Python objects other than tokens/models is visible only through the follow-up edits'),
 'C12': ('62 Lean theorems by induction on strings: parse(format v) = v, format v lexes back as exactly one token with the stated condition on the next character, every lexeme parses, setter machine consistent for any assignment sequence, per class on explicit decidable domains; obligations pin the escape map and 28 terminal definitions; every value/text diffed against the real codecs, re and parse_token, incl. in-document read back.', 'terminal regexes are hand models validated against re, not derived'),
 'C13': ('Lean theorems over an abstract arithmetic carrier: evaluation is the left fold, every operator (plain/reflected/in-place/unary) has the arithmetic value, printed tokens re-parse to the same tree (reference parser proved complete and sound), parentheses exactly when needed; lark tree vs reference parser and printed text after every application diffed; independent evaluator.', 'decimal arithmetic abstract; operand ownership (nothing consumed, nothing raised) is the oracle\'s'),
 'C14': ('Lean theorems: ownership invariant (at most one slot per comment, claimed <=> held) preserved by every claim/unclaim/auto call and call list; claims never take a claimed comment; unclaim-claim restores; a call with an explicit selection (the empty one included) touches comments of the selection only; census, parse-vs-later, idempotence, adjacency and the documented rule evaluated on all parseable layouts of <= 5 lines and on random sequences.', 'PARTIAL: the tree walk deciding which calls auto_claim issues and the documented rule are evaluated on the real code (exhaustively on small layouts), not proved; two recorded rule findings'),
 'C15': ('Lean theorems about the constructor model (own tokens in order, only declared separators in between, gaps of repeated fields, absent parts emit nothing); obligation from_children_canonical over the extracted recipes; emitted token list of every constructed model diffed against assemble run on the extracted recipe; invariant + re-parse on every subset of optional arguments.', 'PARTIAL: parse-back equality relies on the real parser'),
 'C16': ('Lean theorems over an abstract file map: BFS visits every reachable file once for any include graph and spelling identity, exit writes exactly the changed files / unlinks removed / creates added, a raising body touches nothing, identity decoding round-trips (and the witness that text-mode translation does not); obligations newline=\'\' and makedirs guard; bytes/mtimes/existence compared on real temporary trees and with the model.', 'PARTIAL by nature: OS, glob, decoding and path resolution are runtime behaviour the model mirrors'),
 'C17': ('Lean theorems: getter = maximal blank run modulo zero-width tokens (exact layout characterisation), both sides agree iff the stated layout condition, setter frame (non-blank tokens keep identity/text/order, length changes by the difference), read-back for non-empty values, regex tokenisation; obligation on the regex; lock-step get/set on every model of real documents.', 'sides agreement has a layout hypothesis; its failures on real documents are counted, not failed'),
 'C18': ('Lean theorems: indent rule (siblings\' indent else parent indent + indent_by), every line of a formatted comment carries the indent, inserting keeps every existing item\'s tokens incl. its INDENT token (through the C03 frame); rule evaluated over routes x layouts x indent_by on real objects.', 'the rule itself is a two-line function; assurance is in its composition with C03 and the correspondence'),
 'C19': ('Lean theorems in a state monad without rollback (statement order of the Python): a raise of slice assignment / view slice assignment / raw_text setter / unclaim / claim-by-name / payee setter / cost number setters leaves the state it started from, re-use is refused, with witnesses that the pre-repair orders violate it; malformed stream mixed into edit histories + 26 deterministic refusal probes on the real code.', 'the refusal sites are transcribed individually; completeness of the site list is the harness\'s (every raise observed in the malformed stream is judged)'),
 'C20': ('Lean theorems: treeEq reflexive/symmetric/transitive, implies same class/text/shape, iff under alignment (the unconditional iff is false: both counterexamples proved), every single perturbation makes it unequal, token equality consistent with hash; obligation eq_complete; parse-twice / copy / every single perturbation / trailing-trivia pairs / hash-after-edit on real objects.', 'the characterisation is a sandwich (positional structure => == => abstract structure)'),
}

for p in props:
    pid = p['id']
    f = VERIF / 'harness' / 'props' / f'{pid.lower()}.py'
    if not f.exists():
        na.append({'property_id': pid, 'reason': 'check not built yet in this round (planned: see DESIGN.md section 5)'})
        continue
    src = f.read_text()
    ns = {}
    # read the declarative constants without importing the repo
    import ast
    for node in ast.parse(src).body:
        if isinstance(node, ast.Assign) and len(node.targets) == 1 and isinstance(node.targets[0], ast.Name):
            try:
                ns[node.targets[0].id] = ast.literal_eval(node.value)
            except Exception:
                pass
    checks.append({
        'property_id': pid,
        'quick_cmd': f'./check {pid} quick',
        'thorough_cmd': f'./check {pid} thorough',
        'evidence_file': f'/verif/evidence/{pid}.json',
        'replay_cmd_template': f'./check {pid} --replay {{path}}',
        'engine': 'lean4-proof+correspondence',
        'level_claimed': {
            'category': 'proof',
            'text': LEVELS.get(pid, (ns.get('LEVEL_TEXT', ''), ''))[0] or ns.get('LEVEL_TEXT', 'Lean 4 theorems about an executable model, tied to /repo by translator obligations and a per-run correspondence diff; an oracle on the real code supplies failing inputs.'),
            'design_ref': f'DESIGN.md section 5, {pid}',
        },
        'level_note': (LEVELS.get(pid, ('', ''))[1] + '. ' if LEVELS.get(pid) else '') + ns.get('LEVEL_NOTE', 'Trusted: Lean kernel (axioms propext, Classical.choice, Quot.sound only), the translator, the correspondence harness; Python control flow is hand-transcribed (modelled, not verified); lark/re/decimal/OS outside the model.'),
        'technique': ns.get('TECHNIQUE', 'Lean 4 machine-checked proof over a hand-written model + run-time correspondence check against the implementation'),
    })
m = {
    'version': 1,
    'setup_cmd': './setup.sh',
    'hooks': {
        'guard': 'AUTOBEAN_REFACTOR_VERIF',
        'enable': 'no source hooks are needed: the checks import /repo in-process; at run time the harness patches module globals (token_store load-factor constants, re-evaluated from the source) and wraps the comment-claim primitives with tracers (C04/C14)',
        'baseline_off_cmd': 'cd /repo && /venv/bin/python -m pytest -ra -q -p no:cacheprovider --timeout=900',
        'source_commits': [],
        'add_only': True,
    },
    'engines': [{
        'name': 'lean4-proof+correspondence', 'path': 'lean/',
        'serves_properties': [c['property_id'] for c in checks],
        'kind_free_text': 'Lean 4.33 lake project (models, proofs, property theorems, decide-obligations over tables regenerated from /repo by extract/extract.py) + Python correspondence/oracle harness driving the real autobean_refactor in-process and the Lean driver over a line protocol',
    }],
    'checks': checks,
    'not_applicable': na,
    'notes': 'See DESIGN.md. Every check: extract -> lake build -> axiom audit -> correspondence -> oracle; exit 0/1/2.',
}
(VERIF / 'MANIFEST.json').write_text(json.dumps(m, indent=1) + '\n')
print(len(checks), 'checks;', len(na), 'not claimed')
