"""Dump of real autobean_refactor documents in the format of the Lean tree driver (lean/Driver/TreeD.lean),
shared by C11 (deep copy) and C20 (equality).

  store  = `-` | id:kind:text:claimed,...     id = position in the store (canonical), kind = index of the token's
                                              RULE in the sorted list of all token RULEs, text = common.enc_text
  tree   = prefix notation: t<id> | _ | n<cls>:<tag>:<ind>:<k>,<k fields> | r<tag>:<ph>:<k>,<k items>
           cls = 1 for File (it spans its whole store), 2 + index of the class name in the sorted list of the
           other tree classes (0 is the repeated field),
           tag = small int of the node's token_store object in order of first appearance (root store = 0),
           ind = `-` when the class has no indent_by, else the encoded text
  path   = `-` | k,k,...                      field / item indexes (Repeated: item index, placeholder not counted)

Generated classes are walked through harness/intro.py (`field_values`): fields in constructor order, `None` -> `_`.
NumberAddExpr / NumberMulExpr: operand0, op0, operand1, ... (the `_eq` of these classes compares the two tuples,
which is the pairwise comparison of the interleaved list).  Repeated: placeholder + items."""
from __future__ import annotations
from autobean_refactor import models
from autobean_refactor.models import base, internal
from autobean_refactor.models.internal.placeholder import Placeholder
import intro
from common import enc_text


def _all_token_rules():
    seen = set()

    def subs(c):
        for s in c.__subclasses__():
            yield s
            yield from subs(s)
    for c in subs(base.RawTokenModel):
        r = c.__dict__.get('RULE', getattr(c, 'RULE', None))
        if isinstance(r, str):
            seen.add(r)
    seen.update(models.TOKEN_MODELS.keys())
    seen.add(Placeholder.RULE)
    return sorted(seen)


def _all_tree_classes():
    names = {c.__name__ for c in models.TREE_MODELS.values()}
    names.update({'NumberAddExpr', 'NumberMulExpr'})
    names.discard('File')
    return ['File'] + sorted(names)     # File is class 1 (`fileCls` of Model/Tree.lean): it spans its whole store


KINDS = _all_token_rules()
KIND_IDX = {k: i for i, k in enumerate(KINDS)}
CLASSES = _all_tree_classes()
CLASS_IDX = {c: i + 1 for i, c in enumerate(CLASSES)}


def kind_of(tok):
    r = type(tok).RULE
    k = KIND_IDX.get(r)
    if k is None:
        KINDS.append(r)
        k = KIND_IDX[r] = len(KINDS) - 1
    return k


def class_of(m):
    n = type(m).__name__
    c = CLASS_IDX.get(n)
    if c is None:
        CLASSES.append(n)
        c = CLASS_IDX[n] = len(CLASSES)
    return c


def has_indent_by(m):
    return 'indent_by' in m.__dict__


class Dump:
    """store_w, tree_w: the two words of the document; paths: id(model) -> index path (list of ints);
    store: [(id, kind, text, claimed)], tree: nested python tuples (for the reference checks)."""

    def __init__(self, root):
        self.root = root
        st = root.token_store
        toks = list(st) if st is not None else []
        self.tok_id = {}
        for i, t in enumerate(toks):
            self.tok_id.setdefault(id(t), i)
        self.next_id = len(toks)
        self.store = [(i, kind_of(t), t.raw_text, bool(getattr(t, 'claimed', False)) if isinstance(t, models.BlockComment) else False)
                      for i, t in enumerate(toks)]
        self.tags = {id(st): 0} if st is not None else {}
        self.paths = {}
        self.tree = self._node(root, [])
        self.store_w = ','.join(f'{i}:{k}:{enc_text(x)}:{1 if c else 0}' for i, k, x, c in self.store) or '-'
        self.tree_w = ','.join(self._enc(self.tree))

    def _tid(self, t):
        i = self.tok_id.get(id(t))
        if i is None:
            i = self.tok_id[id(t)] = self.next_id     # a leaf that is not in the store (dangling)
            self.next_id += 1
        return i

    def _tag(self, m):
        s = m.token_store
        k = self.tags.get(id(s))
        if k is None:
            k = self.tags[id(s)] = len(self.tags) if self.tags else 0
        return k

    def _node(self, m, path):
        self.paths[id(m)] = list(path)
        if isinstance(m, base.RawTokenModel):
            return ('t', self._tid(m))
        if isinstance(m, internal.Repeated):
            items = [self._node(x, path + [i]) for i, x in enumerate(m.items)]
            return ('r', self._tag(m), self._tid(m._placeholder), items)
        fs = []
        for i, (name, kind, v) in enumerate(intro.field_values(m)):
            fs.append(('_',) if v is None else self._node(v, path + [i]))
        ind = m.__dict__['indent_by'] if has_indent_by(m) else None
        return ('n', class_of(m), self._tag(m), ind, fs)

    def _enc(self, t):
        if t[0] == 't':
            return [f't{t[1]}']
        if t[0] == '_':
            return ['_']
        if t[0] == 'r':
            out = [f'r{t[1]}:{t[2]}:{len(t[3])}']
            for x in t[3]:
                out.extend(self._enc(x))
            return out
        ind = '-' if t[3] is None else enc_text(t[3])
        out = [f'n{t[1]}:{t[2]}:{ind}:{len(t[4])}']
        for x in t[4]:
            out.extend(self._enc(x))
        return out

    def path_w(self, m):
        p = self.paths[id(m)]
        return ','.join(map(str, p)) or '-'

    def doc_w(self):
        return f'{self.store_w} {self.tree_w}'


# ---- reference evaluation of the Lean definitions on a dump (independent re-implementation, for the driver diff)

def t_leaves(t):
    if t[0] == 't':
        return [t[1]]
    if t[0] == '_':
        return []
    if t[0] == 'r':
        out = [t[2]]
        for x in t[3]:
            out.extend(t_leaves(x))
        return out
    out = []
    for x in t[4]:
        out.extend(t_leaves(x))
    return out


def t_tags(t):
    if t[0] in ('t', '_'):
        return []
    if t[0] == 'r':
        out = [t[1]]
        for x in t[3]:
            out.extend(t_tags(x))
        return out
    out = [t[2]]
    for x in t[4]:
        out.extend(t_tags(x))
    return out


def ref_inv(store, tree, tag=0):
    """`tinvViolation` of Model/Tree.lean."""
    ids = [s[0] for s in store]
    if len(set(ids)) != len(ids):
        return 'store-dup'
    ls = t_leaves(tree)
    if not ls:
        return 'no-leaf'
    if len(set(ls)) != len(ls):
        return 'leaf-dup'
    idset = set(ids)
    if any(i not in idset for i in ls):
        return 'leaf-not-in-store'
    it = iter(ids)
    if not all(any(x == i for x in it) for i in ls):
        return 'leaf-order'
    if any(g != tag for g in t_tags(tree)):
        return 'stale-store'
    return 'ok'
