"""Step-by-step replay of `Parser._parse` on the real lark objects, generic walking of built models, and the
dumps in the Lean driver's `L` protocol (lean/Driver/LexD.lean).  Shared by C01 (and usable by C05/C14).

Nothing here judges the property; `props/c01.py` does.
"""
from __future__ import annotations
import ast, copy, io
from common import REPO, enc_text

import lark
from autobean_refactor import parser as parser_lib, models, printer
from autobean_refactor.models import internal
from autobean_refactor.models.internal import fields as fields_lib

TARGETS = list(models.TREE_MODELS.values())
TARGET_BY_RULE = dict(models.TREE_MODELS)
FILE = models.File


# ------------------------------------------------------------------------------------------------
# corpus
# ------------------------------------------------------------------------------------------------
def harvest_strings(max_len=2000):
    """Every string constant (< max_len chars) of the repository's own *_test.py files, in file order."""
    seen = {}
    for p in sorted((REPO / 'autobean_refactor').rglob('*_test.py')):
        try:
            tree = ast.parse(p.read_text())
        except SyntaxError:
            continue
        for node in ast.walk(tree):
            if isinstance(node, ast.Constant) and isinstance(node.value, str) and len(node.value) < max_len:
                seen.setdefault(node.value, None)
    return list(seen)


def accepting_targets(p, text, targets=None):
    """Targets T for which Parser().parse(text, T) returns (attribution off)."""
    out = []
    for t in (targets or TARGETS):
        try:
            p.parse(text, t, auto_claim_comments=False)
        except Exception:
            continue
        out.append(t)
    return out


# ------------------------------------------------------------------------------------------------
# replay of Parser._parse
# ------------------------------------------------------------------------------------------------
class _RecordingPostLex:
    """Wraps the real post-lexer: records the raw lexer tokens it is handed, in order."""

    def __init__(self, inner, rec):
        self.inner = inner
        self.rec = rec
        self.always_accept = inner.always_accept

    def process(self, stream):
        def tap():
            for t in stream:
                self.rec.append(t)
                yield t
        return self.inner.process(tap())


class Replay:
    """raw: raw lexer tokens (before PostLex); fed: tokens the parser loop saw (after PostLex);
    tree: lark tree; error: (stage, exception) or None; model: built model or None."""
    __slots__ = ('text', 'target', 'inline', 'raw', 'fed', 'tree', 'stage', 'error', 'model')


def replay_parse(p: parser_lib.Parser, text: str, target) -> Replay:
    r = Replay()
    r.text, r.target, r.inline = text, target, bool(target.INLINE)
    r.raw, r.fed, r.tree, r.stage, r.error, r.model = [], [], None, 'lex/parse', None, None
    lk = p._lark_inline if target.INLINE else p._lark
    try:
        ip = lk.parse_interactive(text=text, start=target.RULE)
        conn = ip.lexer_thread.lexer
        rec = copy.copy(conn)
        rec.postlexer = _RecordingPostLex(conn.postlexer, r.raw)
        ip.lexer_thread.lexer = rec
        for tok in ip.lexer_thread.lex(ip.parser_state):
            r.fed.append(tok)
            if tok.type not in parser_lib._IGNORED_TOKENS or tok.type in ip.choices():
                ip.feed_token(tok)
        r.tree = ip.feed_eof()
    except Exception as e:  # not accepted (or PostLex assertion)
        r.error = e
        return r
    r.stage = 'build'
    try:
        r.model = parser_lib.ModelBuilder(r.fed).build(r.tree, target)
    except Exception as e:
        r.error = e
    return r


def exc_tag(e: BaseException) -> str:
    """Short tag comparable with the Lean model's error tags."""
    n = type(e).__name__
    if n == 'UnexpectedInput' and 'Missing indent' in str(e):
        return 'UnexpectedInput:missing-indent'
    if n == 'AssertionError':
        return 'assert'
    return n


# ------------------------------------------------------------------------------------------------
# dumps in the driver's format
# ------------------------------------------------------------------------------------------------
def enc_ltok(t) -> str:
    return f'{t.type}:{enc_text(str(t.value))}'


def enc_ltoks(toks) -> str:
    return ' '.join(enc_ltok(t) for t in toks)


def ptree_words(tree, index_of, leaves_out):
    """lark tree -> words of the s-expression; token leaves -> index in the fed list (-1 recorded in
    leaves_out when the object is not in the list)."""
    out = []

    def go(n):
        if n is None:
            out.append('-')
        elif isinstance(n, lark.Tree):
            out.append('(')
            out.append(str(n.data))
            for c in n.children:
                go(c)
            out.append(')')
        else:
            i = index_of.get(id(n), -1)
            leaves_out.append(i)
            out.append(str(i if i >= 0 else 10 ** 9))
    go(tree)
    return out


# ------------------------------------------------------------------------------------------------
# generic walk of a built model
# ------------------------------------------------------------------------------------------------
_FIELDS_CACHE: dict = {}


def field_names(cls):
    names = _FIELDS_CACHE.get(cls)
    if names is None:
        names = []
        for k in cls.__mro__[::-1]:
            for name, v in vars(k).items():
                if isinstance(v, fields_lib.field) and name not in names:
                    names.append(name)
        if '_leading_comment' in names:
            names.remove('_leading_comment')
            names.insert(0, '_leading_comment')
        if '_trailing_comment' in names:
            names.remove('_trailing_comment')
            names.append('_trailing_comment')
        _FIELDS_CACHE[cls] = names
    return names


def children_of(m):
    """Children of a tree model in document order: list of models / None / Repeated."""
    if isinstance(m, (models.NumberAddExpr, models.NumberMulExpr)):
        out = [m._raw_operands[0]]
        for op, operand in zip(m._raw_ops, m._raw_operands[1:]):
            out.append(op)
            out.append(operand)
        return out
    if isinstance(m, internal.Repeated):
        return list(m.items)
    return [m.__dict__[name] for name in field_names(type(m))]


def is_token(m):
    return isinstance(m, models.RawTokenModel)


def walk(m):
    """All reachable sub-models in DFS pre-order (the node itself first; None fields skipped).  Same order as
    `MTree.subs` of the Lean model."""
    yield m
    if is_token(m):
        return
    for c in children_of(m):
        if c is not None:
            yield from walk(c)


def mtree_words(m, id_of):
    """Built model -> words of the driver's mtree s-expression."""
    out = []

    def go(n):
        if n is None:
            out.append('-')
        elif is_token(n):
            out.append(str(id_of.get(id(n), 10 ** 9)))
        elif isinstance(n, internal.Repeated):
            out.append('[')
            out.append(str(id_of.get(id(n.placeholder), 10 ** 9)))
            for c in n.items:
                go(c)
            out.append(']')
        else:
            out.append('(')
            out.append(type(n).RULE)
            for c in children_of(n):
                go(c)
            out.append(')')
    go(m)
    return out


def print_model(m) -> str:
    return printer.print_model(m, io.StringIO()).getvalue()


def store_dump(store):
    toks = list(store)
    return toks, ' '.join(f'{type(t).RULE}:{enc_text(t.raw_text)}' for t in toks)
