"""Deterministic cross-wrapper comment-claim histories followed by edits (C05): a comment is claimed through one
repeated field, unclaimed, claimed through the neighbouring one, and then entries are deleted / appended; the
structural invariant must hold after every step."""
from __future__ import annotations
import itertools
import session

TEXTS = [
    '2000-01-01 *\n    ; c\n    Assets:A  1 USD\n    Assets:B\n',
    '2000-01-01 *\n    aa: 1\n    ; c\n    Assets:A  1 USD\n',
    '2000-01-01 *\n    ; c1\n    ; c2\n    aa: 1\n    Assets:A  1 USD\n2000-01-02 close Assets:A\n',
    '2000-01-01 *\n    aa: 1\n    ; c\n',
    '; top\n2000-01-01 open Assets:A\n    ; m\n    aa: 1\n; between\n2000-01-02 close Assets:A\n',
]


def _op(path, attr, m, args=()):
    kind = {'claim_interleaving_comments': 'claim-inter', 'unclaim_interleaving_comments': 'unclaim-inter'}.get(m, 'rep-' + m)
    return {'k': 'call', 'kind': kind, 'path': path, 'attr': attr, 'm': m, 'args': list(args), 'parent': []}


def histories():
    d0 = ['raw_directives_with_comments', 0]
    wrappers = ['raw_meta_with_comments', 'raw_postings_with_comments']
    for text in TEXTS:
        attrs = wrappers if '*' in text.split('\n')[0] or text.startswith('2000-01-01 *') else ['raw_meta_with_comments']
        path = d0 if not text.startswith(';') else ['raw_directives_with_comments', 1]
        for seq in itertools.product(attrs, repeat=3):
            ops = []
            for i, w in enumerate(seq):
                ops.append(_op(path, w, 'claim_interleaving_comments'))
                if i < 2:
                    ops.append(_op(path, w, 'unclaim_interleaving_comments'))
            last = seq[-1]
            tail = [
                {'k': 'delitem', 'kind': 'rep-delitem', 'path': path, 'attr': last, 'idx': 0, 'parent': path, 'field': last},
                _op(path, last, 'claim_interleaving_comments'),
            ]
            if last == 'raw_postings_with_comments':
                tail.append({'k': 'call', 'kind': 'rep-append', 'path': path, 'attr': last, 'm': 'append', 'parent': path, 'field': last,
                             'args': [{'t': 'posting', 'acc': 'Assets:C', 'num': None, 'cur': None, 'indent': '    '}]})
            else:
                tail.append({'k': 'call', 'kind': 'rep-append', 'path': path, 'attr': last, 'm': 'append', 'parent': path, 'field': last,
                             'args': [{'t': 'meta', 'k': 'zz', 'v': {'t': 'lit', 'v': 'v'}, 'indent': '    '}]})
            yield text, ops + tail


def run(ctx, oracles=('inv',)):
    for auto in (False, True):
        for text, ops in histories():
            try:
                fails, outcomes = session.run_history(text, auto, ops, list(oracles))
            except Exception as e:
                fails, outcomes = [(f'claim-history-raises:{type(e).__name__}', repr(e)[:200])], []
            ctx.case(('claim-history', auto, text[:20], tuple(o['attr'] for o in ops[:5]), tuple(o[0] for o in outcomes)))
            # a step that raises an internal error (not a documented refusal) after claim/unclaim is a failure too
            for o, op in zip(outcomes, ops):
                if o[0] == 'exc' and o[1] in ('ValueError:not-in-store', 'AttributeError', 'TypeError', 'AssertionError'):
                    fails = fails or [(f'claim-history:{op["kind"]}:{o[1]}', f'{op["kind"]} raised {o[1]} after a claim/unclaim history')]
            if fails:
                sig, what = fails[0]
                ctx.oracle_fail(sig, what, {'text': text, 'auto_claim': auto, 'ops': ops, 'oracles': list(oracles)})


HANDOVER_TEXTS = [
    '2000-01-01 *\n    aa: 1\n    ; c\n    Assets:A  1 USD\n    Assets:B\n',
    '2000-01-01 *\n    aa: 1\n    ; c\n    ; d\n    Assets:A  1 USD\n2000-01-02 close Assets:A\n',
    '2000-01-01 *\n    Assets:A  1 USD\n    ; c\n    Assets:B\n',
]


def handover_histories(maxlen=5):
    """A comment that sits between two models / two repeated fields is handed back and forth: all sequences (no
    immediate repetition) of claim/unclaim calls of the two neighbours, surrounding and interleaving family."""
    d0 = ['raw_directives_with_comments', 0]
    for ti, text in enumerate(HANDOVER_TEXTS):
        if ti < 2:
            upper = d0 + ['raw_meta_with_comments', 0]
        else:
            upper = d0 + ['raw_postings_with_comments', 0]
        lower = d0 + ['raw_postings_with_comments', 0 if ti < 2 else 1]

        def call(path, m):
            return {'k': 'call', 'kind': 'claim' if m.startswith('claim') else 'unclaim', 'path': path, 'm': m, 'args': [], 'parent': []}
        fam_s = [call(upper, 'claim_trailing_comment'), call(upper, 'unclaim_trailing_comment'),
                 call(lower, 'claim_leading_comment'), call(lower, 'unclaim_leading_comment')]
        fam_i = [_op(d0, 'raw_meta_with_comments', 'claim_interleaving_comments'), _op(d0, 'raw_meta_with_comments', 'unclaim_interleaving_comments'),
                 _op(d0, 'raw_postings_with_comments', 'claim_interleaving_comments'), _op(d0, 'raw_postings_with_comments', 'unclaim_interleaving_comments')]
        for fam in (fam_s, fam_i):
            def rec(prefix, last):
                if prefix:
                    yield prefix
                if len(prefix) == maxlen:
                    return
                for k, o in enumerate(fam):
                    if k != last:
                        yield from rec(prefix + [o], k)
            for seq in rec([], -1):
                if len(seq) >= 3:
                    yield text, seq


def run_handover(ctx, oracles, maxlen=5, lfs=(None, 3, 4)):
    """(every history also with the store cut into blocks of 3-5 tokens: the re-spliced stretches straddle block boundaries)"""
    for text, ops in handover_histories(maxlen):
      for lf in lfs:
        if hasattr(ctx, 'current'):
            ctx.current({'text': text, 'auto_claim': False, 'ops': ops, 'oracles': list(oracles), 'lf': lf})
        try:
            fails, outcomes = session.run_history(text, False, ops, list(oracles), lf=lf)
        except Exception as e:
            fails, outcomes = [(f'claim-history-raises:{type(e).__name__}', repr(e)[:200])], []
        ctx.case(('handover', text[:24], tuple((o['m'], tuple(o['path'][-2:])) for o in ops), tuple(x[-1] if x[0] == 'exc' else 'ok' for x in outcomes), lf))
        ctx.count('handover:len%d' % len(ops))
        if fails:
            sig, what = fails[0]
            ctx.oracle_fail(sig, what, {'text': text, 'auto_claim': False, 'ops': ops, 'oracles': list(oracles), 'lf': lf})
            break
