"""Deterministic probes of refusal sites the random stream reaches rarely (C19)."""
from __future__ import annotations
import datetime, decimal
from autobean_refactor import models
import intro, edits

DOC = ('2000-01-01 open Assets:A USD, EUR\n'
       '; standalone\n\n'
       '2000-01-02 * "payee" "narr" #t1 ^l1\n'
       '    aa: 1\n'
       '    ; c1\n'
       '    Assets:A  1 + 2 USD {1 USD}\n'
       '    Assets:B\n'
       '2000-01-03 close Assets:A\n')


def _sites():
    """(name, function(file, other_file) performing a call that must be refused)."""
    def s_claim_foreign(f, g):
        c = [t for t in g.token_store if isinstance(t, models.BlockComment)][0]
        f.raw_directives[1].raw_postings_with_comments.claim_interleaving_comments([c])

    def s_unclaim_foreign(f, g):
        c = [t for t in g.token_store if isinstance(t, models.BlockComment)][0]
        f.raw_directives[1].raw_postings_with_comments.unclaim_interleaving_comments([c])

    def s_claim_claimed(f, g):
        # the comment right below the first directive was claimed as the leading comment of the second one
        h = edits.P().parse('2000-01-01 open Assets:A\n; c\n2000-01-02 close Assets:A\n', models.File)
        yield
        h.raw_directives[0].claim_trailing_comment()

    def s_cost_illegal(f, g):
        c = f.raw_directives[1].raw_postings[0].raw_cost
        c.currency = None
        yield
        c.number_total = decimal.Decimal(3)

    def s_cost_compound(f, g):
        c = f.raw_directives[1].raw_postings[0].raw_cost
        c.number_total = decimal.Decimal(3)
        yield
        c.currency = None

    def s_raw_text_date(f, g):
        f.raw_directives[0].raw_date.raw_text = 'not-a-date'

    def s_raw_text_bool(f, g):
        b = models.Bool.from_value(True)
        f.raw_directives[1].raw_meta[0].raw_value = b
        yield
        b.raw_text = 'MAYBE'

    def s_spacing_foreign_token(f, g):
        ws = g.raw_directives[0].raw_date.raw_spacing_after[0]
        f.raw_directives[0].raw_date.raw_spacing_after = [ws]

    def s_spacing_own_token_elsewhere(f, g):
        ws = f.raw_directives[2].raw_date.raw_spacing_after[0]
        f.raw_directives[0].raw_date.raw_spacing_after = [ws]

    def s_slice_attached_last(f, g):
        cur = f.raw_directives[0].raw_currencies
        cur[0:1] = [models.Currency.from_value('AAA'), cur[1]]

    def s_ext_slice_size(f, g):
        cur = f.raw_directives[0].raw_currencies
        cur[0:2:2] = [models.Currency.from_value('AAA'), models.Currency.from_value('BBB')]

    def s_view_slice_size(f, g):
        f.raw_directives[0].currencies[0:1] = ['AAA', 'BBB']

    def s_missing_key(f, g):
        del f.raw_directives[1].meta['zz']

    def s_pop_oob(f, g):
        f.raw_directives[1].raw_postings_with_comments.pop(17)

    def s_dup_in_batch(f, g):
        x = models.Currency.from_value('AAA')
        f.raw_directives[0].raw_currencies.extend([x, x])

    def s_posting_attached(f, g):
        t = f.raw_directives[1]
        t.raw_postings.append(t.raw_postings[0])

    def s_number_attached_slot(f, g):
        t = f.raw_directives[1]
        t.raw_postings[1].raw_number = t.raw_postings[0].raw_number

    def s_replace_with_attached_other_doc(f, g):
        f.raw_directives[0].raw_account = g.raw_directives[0].raw_account

    def s_payee_attached_no_narration(f, g):
        h = edits.P().parse('2000-01-01 *\n  Assets:A  1 USD\n2000-01-02 * "x"\n', models.File)
        pre = intro.pr(h)
        yield
        try:
            h.raw_directives[0].raw_payee = h.raw_directives[1].raw_narration
        finally:
            if intro.pr(h) != pre:
                raise AssertionError('refused raw_payee changed the document: ' + repr(intro.pr(h)[:40]))

    def _cost_attached(form, attr):
        def site(f, g):
            h = edits.P().parse('2000-01-01 *\n  Assets:A  1 USD ' + form + '\n  Assets:B  3 + 4 USD\n', models.File)
            pre = intro.pr(h)
            yield
            try:
                setattr(h.raw_directives[0].raw_postings[0].raw_cost, attr, h.raw_directives[0].raw_postings[1].raw_number)
            finally:
                if intro.pr(h) != pre:
                    raise AssertionError('refused ' + attr + ' on ' + form + ' changed the document: ' + repr(intro.pr(h)))
        return site
    s_cost_per_attached_total_amount = _cost_attached('{{2 EUR}}', 'raw_number_per')
    s_cost_per_attached_total_currency = _cost_attached('{{EUR}}', 'raw_number_per')
    s_cost_per_attached_total_empty = _cost_attached('{{}}', 'raw_number_per')
    s_cost_total_attached_unit_currency = _cost_attached('{EUR}', 'raw_number_total')
    s_cost_total_attached_unit_empty = _cost_attached('{}', 'raw_number_total')
    s_cost_total_attached_unit_amount = _cost_attached('{2 EUR}', 'raw_number_total')
    del _cost_attached

    CUSTOM_DOC = '2000-01-01 custom "budget" "a" 1 TRUE 2000-02-03\n2000-01-02 *\n  Assets:A  3 + 4 USD\n'

    def _values_batch(build):
        """A batch assigned through the simplified value view: plain Python values (which the view would write in place)
        mixed with a node that must be refused - nothing of the batch may have been written when the call raises."""
        def site(f, g):
            h = edits.P().parse(CUSTOM_DOC, models.File)
            yield h
            idx, batch = build(h)
            h.raw_directives[0].values[idx] = batch
        return site
    s_values_plain_then_attached = _values_batch(lambda h: (slice(0, 2), ['changed', h.raw_directives[1].raw_postings[0].raw_number]))
    s_values_attached_then_plain = _values_batch(lambda h: (slice(0, 2), [h.raw_directives[1].raw_postings[0].raw_number, decimal.Decimal(9)]))
    s_values_plain_then_dup = _values_batch(lambda h: (slice(0, 3), ['changed'] + [models.NumberExpr.from_value(decimal.Decimal(5))] * 2))
    s_values_ext_slice_plain_attached = _values_batch(lambda h: (slice(0, 4, 2), ['changed', h.raw_directives[1].raw_postings[0].raw_number]))
    s_values_bool_date_then_attached = _values_batch(lambda h: (slice(2, 5), [False, datetime.date(1999, 9, 9), h.raw_directives[1].raw_postings[0].raw_number]))
    s_values_own_item_twice = _values_batch(lambda h: (slice(0, 2), ['changed', h.raw_directives[0].raw_values[2]]))
    del _values_batch

    def _named_claim(field, meth, unclaim_first=False):
        """A named (un)claim that finds one comment and cannot find another: nothing may have moved when it raises."""
        def site(f, g):
            h = edits.P().parse('2000-01-01 *\n    aa: 1\n    ; c1\n    Assets:A  1 USD\n    ; c2\n    Assets:B\n', models.File,
                                auto_claim_comments=unclaim_first)
            t = h.raw_directives[0]
            yield h
            found = [x for x in h.token_store if isinstance(x, models.BlockComment)]
            getattr(getattr(t, field), meth)([found[0], models.BlockComment.from_value('stranger'), found[-1]])
        return site
    s_named_claim_meta_found_and_missing = _named_claim('raw_meta_with_comments', 'claim_interleaving_comments')
    s_named_claim_postings_found_and_missing = _named_claim('raw_postings_with_comments', 'claim_interleaving_comments')
    s_named_unclaim_meta_found_and_missing = _named_claim('raw_meta_with_comments', 'unclaim_interleaving_comments', True)
    s_named_unclaim_postings_found_and_missing = _named_claim('raw_postings_with_comments', 'unclaim_interleaving_comments', True)
    del _named_claim

    def s_dropmany_valid_and_out_of_range(f, g):
        f.raw_directives[1].raw_postings_with_comments.drop_many([0, 7])

    def s_dropmany_out_of_range_first(f, g):
        f.raw_directives[1].raw_postings_with_comments.drop_many(iter([9, 0]))

    def s_dropmany_negative_out_of_range(f, g):
        f.raw_directives[1].raw_postings_with_comments.drop_many((1, -9))

    def _loose_comment(how):
        """An unowned comment of the document handed to a single-value mutator: refused, and still unowned afterwards."""
        def site(f, g):
            h = edits.P().parse('2000-01-01 open Assets:A\n    ; about\n2000-01-02 close Assets:A\n    kk: 1\n', models.File, auto_claim_comments=False)
            c = [x for x in h.token_store if isinstance(x, models.BlockComment)][0]
            yield h
            try:
                if how == 'slot':
                    h.raw_directives[1].raw_leading_comment = c
                elif how == 'append':
                    h.raw_directives[1].raw_meta_with_comments.append(c)
                else:
                    h.raw_directives[1].raw_meta_with_comments[0] = c
            finally:
                if c.claimed:
                    raise AssertionError('the refused comment is flagged claimed now, and nobody owns it')
        return site
    s_loose_comment_into_slot = _loose_comment('slot')
    s_loose_comment_appended = _loose_comment('append')
    s_loose_comment_setitem = _loose_comment('setitem')
    del _loose_comment

    # nodes that touch exactly one end of the store they live in (a batch pre-check that looks at one end only lets them pass)
    def s_slice_last_meta_of_free_posting(f, g):
        donor = models.Posting.from_value('Assets:Z', decimal.Decimal(1), 'USD', meta={'kk': decimal.Decimal(1), 'jj': 'x'})
        f.raw_directives[1].raw_meta_with_comments[0:2] = [donor.raw_meta[-1]]

    def s_view_slice_last_directive_of_other_file(f, g):
        h = edits.P().parse('2000-01-01 open Assets:Z\n2000-01-02 close Assets:Z', models.File)   # no final newline
        f.directives[1:3] = [models.Close.from_value(datetime.date(2001, 1, 1), 'Assets:Q'), h.raw_directives[-1]]

    def s_extend_last_directive_of_other_file(f, g):
        h = edits.P().parse('2000-01-01 open Assets:Z\n2000-01-02 close Assets:Z', models.File)
        f.raw_directives.extend([h.raw_directives[-1]])

    def s_append_last_directive_of_other_file(f, g):
        h = edits.P().parse('2000-01-01 open Assets:Z\n2000-01-02 close Assets:Z', models.File)
        f.raw_directives.append(h.raw_directives[-1])

    def s_slot_first_token_of_other_model(f, g):
        h = edits.P().parse('2000-01-01 open Assets:Z', models.Open)
        f.raw_directives[0].raw_date = h.raw_date

    def s_slot_number_at_start_of_free_amount(f, g):
        h = edits.P().parse('5 + 6 USD', models.Amount)
        f.raw_directives[1].raw_postings[1].raw_number = h.raw_number

    # nodes whose edge tokens merely EQUAL the edge tokens of their store (zero-width marks, equal comments) without
    # being them: "is this node the whole of its store" is a question of identity
    def _equal_edges(which):
        def site(f, g):
            h = edits.P().parse('2000-01-01 *\n  Assets:A  1 USD\n2000-01-02 * "x"\n  Assets:B  1 USD\n2000-01-03 open Assets:C', models.File)  # no final newline
            yield h
            src, dst = h.raw_directives[0], h.raw_directives[1]
            if which == 'tags':
                dst.raw_tags_links = src.raw_tags_links                 # an empty repeated field: one zero-width mark
            elif which == 'currencies':
                o = edits.P().parse('2000-01-01 open Assets:Z', models.Open)
                o.raw_currencies = h.raw_directives[2].raw_currencies
            elif which == 'meta':
                dst.raw_meta_with_comments = src.raw_meta_with_comments
            else:
                t = models.Transaction.from_value(datetime.date(2000, 1, 1), None, 'n', [], leading_comment='c', trailing_comment='c')
                pre = intro.pr(t)
                try:
                    h.raw_directives[2].raw_leading_comment = t.raw_trailing_comment
                finally:
                    if intro.pr(t) != pre:
                        raise AssertionError(f'the free transaction the comment belongs to prints {intro.pr(t)!r} now (was {pre!r})')
        return site
    s_equal_edges_empty_tags = _equal_edges('tags')
    s_equal_edges_empty_currencies = _equal_edges('currencies')
    s_equal_edges_empty_meta = _equal_edges('meta')
    s_equal_edges_same_comment_text = _equal_edges('comment')
    del _equal_edges

    # `model.attr += batch` - the statement: an in-place extend, then the result assigned back through the property.  Accepted on
    # this tree; were the assignment refused, the refusal would come AFTER the extend
    def _iadd(which):
        def site(f, g):
            if which != 'file':
                yield None
            if which == 'tags':
                f.raw_directives[1].raw_tags_links += [models.Tag.from_value('new')]
            elif which == 'postings':
                f.raw_directives[1].raw_postings_with_comments += [models.Posting.from_value('Assets:New', None, None, indent='    ')]
            elif which == 'currencies':
                f.raw_directives[0].raw_currencies += [models.Currency.from_value('NEW')]
            elif which == 'view-tags':
                f.raw_directives[1].tags += ['new']
            elif which == 'view-postings':
                f.raw_directives[1].postings += [models.Posting.from_value('Assets:New', None, None, indent='    ')]
            else:
                h = edits.P().parse('2000-01-01 open Assets:Z\n2000-01-02 close Assets:Z', models.File)   # no final newline
                yield h
                h.raw_directives_with_comments += [models.Close.from_value(datetime.date(2001, 1, 1), 'Assets:Q')]
        return site
    s_iadd_raw_tags = _iadd('tags')
    s_iadd_raw_postings = _iadd('postings')
    s_iadd_raw_currencies = _iadd('currencies')
    s_iadd_view_tags = _iadd('view-tags')
    s_iadd_view_postings = _iadd('view-postings')
    s_iadd_file_directives_no_final_newline = _iadd('file')
    del _iadd

    def s_directive_other_doc(f, g):
        f.raw_directives.append(g.raw_directives[0])
    return {k[2:]: v for k, v in locals().items() if k.startswith('s_')}


def _run_site(name, fn):
    p = edits.P()
    f = p.parse(DOC, models.File)
    g = p.parse(DOC, models.File)
    import inspect
    it = fn(f, g) if inspect.isgeneratorfunction(fn) else None
    h = None
    if it is not None:
        h = next(it)  # setup part (accepted edits before the call under test); may hand over a document of its own
    if h is not None:
        f = h
    ids = lambda: [id(t) for t in f.token_store] + [id(t) for t in g.token_store]
    pre_ids = ids()
    pre = (intro.pr(f), intro.struct(f), intro.pr(g), intro.struct(g))
    try:
        if it is not None:
            try:
                next(it)
            except StopIteration:
                pass
        else:
            fn(f, g)
    except AssertionError as e:
        return ('refused', 'changed', f'probe:{name}:refused-changed-text', str(e)[:300])
    except (ValueError, IndexError, KeyError, TypeError, NotImplementedError) as e:
        post = (intro.pr(f), intro.struct(f), intro.pr(g), intro.struct(g))
        tag = edits.exc_tag(e)
        if post[0] != pre[0] or post[2] != pre[2]:
            return ('refused', tag, f'probe:{name}:refused-changed-text', f'{tag} raised but the printed text changed')
        if post[1] != pre[1] or post[3] != pre[3]:
            return ('refused', tag, f'probe:{name}:refused-changed-tree', f'{tag} raised but the tree changed')
        if ids() != pre_ids:
            return ('refused', tag, f'probe:{name}:refused-moved-tokens', f'{tag} raised but the token sequence (zero-width marks included) changed')
        bad = intro.check_inv(f) + intro.check_inv(g)
        if bad:
            return ('refused', tag, f'probe:{name}:refused-broke-invariant', bad[0][1])
        return ('refused', tag, None, None)
    # accepted: the call must not have produced double ownership
    seen = {}
    for doc in (f, g):
        for t in doc.token_store:
            if id(t) in seen and seen[id(t)] is not doc:
                return ('accepted', None, f'probe:{name}:token-in-two-stores', 'a token object is in two stores after an accepted call')
            seen[id(t)] = doc
    bad = intro.check_inv(f) + intro.check_inv(g)
    if bad:
        return ('accepted', None, f'probe:{name}:accepted-broke-invariant:{bad[0][0]}', bad[0][1])
    return ('accepted', None, None, None)


MUST_REFUSE = {'claim_foreign', 'unclaim_foreign', 'claim_claimed', 'cost_illegal', 'cost_compound', 'raw_text_date', 'raw_text_bool',
               'spacing_foreign_token', 'spacing_own_token_elsewhere', 'slice_attached_last', 'ext_slice_size', 'view_slice_size',
               'missing_key', 'pop_oob', 'dup_in_batch', 'posting_attached', 'number_attached_slot',
               'replace_with_attached_other_doc', 'directive_other_doc', 'payee_attached_no_narration',
               'cost_per_attached_total_amount', 'cost_per_attached_total_currency', 'cost_per_attached_total_empty',
               'cost_total_attached_unit_currency', 'cost_total_attached_unit_empty', 'cost_total_attached_unit_amount',
               'values_plain_then_attached', 'values_attached_then_plain', 'values_plain_then_dup', 'values_ext_slice_plain_attached',
               'values_bool_date_then_attached', 'values_own_item_twice', 'slice_last_meta_of_free_posting',
               'view_slice_last_directive_of_other_file', 'extend_last_directive_of_other_file', 'append_last_directive_of_other_file',
               'slot_first_token_of_other_model', 'slot_number_at_start_of_free_amount', 'named_claim_meta_found_and_missing',
               'named_claim_postings_found_and_missing', 'named_unclaim_meta_found_and_missing', 'named_unclaim_postings_found_and_missing',
               'loose_comment_into_slot', 'loose_comment_appended', 'loose_comment_setitem',
               'equal_edges_empty_tags', 'equal_edges_empty_currencies', 'equal_edges_empty_meta', 'equal_edges_same_comment_text',
               'dropmany_valid_and_out_of_range', 'dropmany_out_of_range_first', 'dropmany_negative_out_of_range'}


def run(ctx):
    for name, fn in _sites().items():
        outcome, tag, sig, what = _run_site(name, fn)
        ctx.count(f'probe:{name}:{outcome}:{tag}')
        ctx.case(('probe', name, outcome, tag))
        if sig:
            ctx.oracle_fail(sig, what, {'probe': name})
        elif outcome == 'accepted' and name in MUST_REFUSE:
            ctx.oracle_fail(f'probe:{name}:not-refused', 'a call that must be refused was accepted', {'probe': name})


def replay(rep):
    name = rep['probe']
    outcome, tag, sig, what = _run_site(name, _sites()[name])
    bad = []
    if sig:
        bad.append((sig, what))
    elif outcome == 'accepted' and name in MUST_REFUSE:
        bad.append((f'probe:{name}:not-refused', ''))
    return bad
