"""Exhaustive index/slice grid over repeated fields with different separator regimes (shared by C03/C05/C06).

For every list length, every (start, stop, step) and every number of assigned values, the operation is
applied to a freshly parsed document through the raw wrapper and the given oracles are evaluated."""
from __future__ import annotations
import session

REGIMES = [
    # (name, document builder(n) -> text, path to the parent model, raw attr, value spec builder(i))
    ('open.currencies', lambda n: '2000-01-01 open Assets:A' + (' ' + ', '.join(['USD', 'EUR', 'GBP', 'JPY'][:n]) if n else '') + ' "STRICT"\n',
     ['raw_directives_with_comments', 0], 'raw_currencies', lambda i: {'t': 'tok', 'cls': 'Currency', 'v': {'t': 'lit', 'v': 'N' + 'XYZW'[i % 4]}}),
    ('txn.tags_links', lambda n: '2000-01-01 * "x"' + ''.join(' ' + t for t in ['#a', '^b', '#c', '^d'][:n]) + ' ; c\n',
     ['raw_directives_with_comments', 0], 'raw_tags_links', lambda i: {'t': 'tok', 'cls': ['Tag', 'Link', 'Tag', 'Link'][i % 4], 'v': {'t': 'lit', 'v': 'n' + 'xyzw'[i % 4]}}),
    ('file.directives', lambda n: '; head\n\n' + '\n'.join(['2000-01-0%d close Assets:A%d\n' % (k + 1, k) for k in range(n)]) + '\n',
     [], 'raw_directives_with_comments', lambda i: {'t': 'dir', 'text': '2001-01-0%d open Assets:N%d\n' % (i + 1, i)}),
    ('txn.postings', lambda n: '2000-01-01 *\n  aa: 1\n' + ''.join('  Assets:P%d  %d USD\n' % (k, k) for k in range(n)) + '2000-01-02 close Assets:Z\n',
     ['raw_directives_with_comments', 0], 'raw_postings_with_comments', lambda i: {'t': 'posting', 'acc': 'Assets:N%d' % i, 'num': '1', 'cur': 'EUR', 'indent': '  '}),
    ('cost.components', lambda n: '2000-01-01 *\n  Assets:A  1 USD {' + ', '.join(['2 EUR', '2000-01-01', '"l"', '*'][:n]) + '} @ 3 GBP\n',
     ['raw_directives_with_comments', 0, 'raw_postings_with_comments', 0, 'raw_cost', 'raw_cost'], 'raw_components',
     lambda i: [{'t': 'tok', 'cls': 'EscapedString', 'v': {'t': 'lit', 'v': 'q'}}, {'t': 'tok', 'cls': 'Date', 'v': {'t': 'date', 'v': [2002, 2, 2]}}, {'t': 'default', 'cls': 'Asterisk'}, {'t': 'tok', 'cls': 'Currency', 'v': {'t': 'lit', 'v': 'GBP'}}][i % 4]),
]


def grid(thorough):
    lens = range(0, 5 if thorough else 4)
    for n in lens:
        rng_idx = [None] + list(range(-n - 2, n + 3))
        for start in rng_idx:
            for stop in rng_idx:
                for step in ([None, 2, -1, 3, -2] if thorough else [None, 2, -1]):
                    nsel = len(range(n)[slice(start, stop, step)])
                    ks = range(0, 4 if thorough else 3) if step in (None, 1) else [nsel]
                    for k in ks:
                        yield n, ['slice', start, stop, step], k


def run(ctx, oracles, *, syntax_preserving=False, prefix=''):
    for name, mk, path, attr, val in REGIMES:
        if syntax_preserving and name == 'cost.components':
            continue  # arbitrary component multisets are not all syntactically meaningful (two dates etc. still parse; keep to frame/inv)
        shape_i = 0
        for n, idx, k in grid(ctx.thorough):
            text = mk(n)
            base = {'path': path, 'attr': attr, 'parent': path, 'field': attr}
            shape_i += 1       # the batch as a list, a generator, a tuple, an iterator in turn (any iterable is a batch)
            ops = [
                {'k': 'setitem', 'kind': 'rep-setslice', 'idx': idx,
                 'val': {'t': 'list', 'items': [val(i) for i in range(k)], 'as': ('list', 'gen', 'tuple', 'iter')[shape_i % 4]}, **base},
            ]
            if k == 0:
                ops.append({'k': 'delitem', 'kind': 'rep-delslice', 'idx': idx, **base})
            for op in ops:
                fails, outcomes = session.run_history(text, True, [op], oracles, need_struct='refused' in oracles)
                ctx.case(('grid', name, n, op['kind'], _cls(idx[1], n), _cls(idx[2], n), idx[3], k, outcomes[0][0] if outcomes else None))
                ctx.count(f'grid:{name}:{op["kind"]}')
                if fails:
                    sig, what = fails[0]
                    ctx.oracle_fail(prefix + sig, what + f' [grid {name} n={n} idx={idx} k={k}]',
                                    {'text': text, 'auto_claim': True, 'ops': [op], 'oracles': list(oracles), 'need_struct': 'refused' in oracles})
        # int-indexed ops
        for n in range(0, 4):
            text = mk(n)
            base = {'path': path, 'attr': attr, 'parent': path, 'field': attr}
            for i in range(-n - 2, n + 3):
                for op in (
                    {'k': 'call', 'kind': 'rep-insert', 'm': 'insert', 'args': [{'t': 'lit', 'v': i}, val(0)], **base},
                    {'k': 'setitem', 'kind': 'rep-setitem', 'idx': i, 'val': val(1), **base},
                    {'k': 'delitem', 'kind': 'rep-delitem', 'idx': i, **base},
                    {'k': 'call', 'kind': 'rep-pop', 'm': 'pop', 'args': [{'t': 'lit', 'v': i}], **base},
                ):
                    fails, outcomes = session.run_history(text, True, [op], oracles, need_struct='refused' in oracles)
                    ctx.case(('grid', name, n, op['kind'], _cls(i, n), outcomes[0] if outcomes else None))
                    if fails:
                        sig, what = fails[0]
                        ctx.oracle_fail(prefix + sig, what + f' [grid {name} n={n} i={i}]',
                                        {'text': text, 'auto_claim': True, 'ops': [op], 'oracles': list(oracles), 'need_struct': 'refused' in oracles})


def _cls(i, n):
    if i is None:
        return 'None'
    if i < -n:
        return 'below'
    if i < 0:
        return 'neg'
    if i == 0:
        return 'zero'
    if i < n:
        return 'in'
    if i == n:
        return 'len'
    return 'above'
