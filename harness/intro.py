"""Introspection of real autobean_refactor model trees: generic child walk, the structural invariant of
DESIGN.md §3.3 (oracle for C05 and friends), structural comparison for re-parse (C06/C15), API paths.

Everything that reads private attributes goes through this module."""
from __future__ import annotations
import io
import typing
from autobean_refactor import models, printer
from autobean_refactor.models import base, internal
from autobean_refactor.models.internal import fields as _fields
from autobean_refactor.models.internal import properties as _props
from autobean_refactor.models.internal import interleaving_comments as _ic
from autobean_refactor.models.internal import value_properties as _vp
from autobean_refactor.models.internal.placeholder import Placeholder
from autobean_refactor.models.number_add_expr import NumberAddExpr
from autobean_refactor.models.number_mul_expr import NumberMulExpr

TRIVIA = (models.Whitespace, models.Newline, models.Comma)


def pr(m) -> str:
    return printer.print_model(m, io.StringIO()).getvalue()


_FIELDS_CACHE: dict = {}


def class_fields(cls):
    """Ordered [(field_name, kind, allowed_types)] of a generated model class."""
    r = _FIELDS_CACHE.get(cls)
    if r is not None:
        return r
    out = []
    seen = set()
    for k in cls.__mro__[::-1]:
        for name, v in k.__dict__.items():
            if isinstance(v, _fields.field) and name not in seen:
                seen.add(name)
                kind = ('rep' if isinstance(v, _fields.repeated_field) else
                        'optl' if isinstance(v, _fields.optional_left_field) else
                        'optr' if isinstance(v, _fields.optional_right_field) else 'req')
                oc = getattr(v, '__orig_class__', None)
                args = typing.get_args(oc) if oc else ()
                tys = _flatten_types(args[0]) if args else ()
                out.append((name, kind, tys, v))
    lead = [f for f in out if f[0] == '_leading_comment']
    trail = [f for f in out if f[0] == '_trailing_comment']
    mid = [f for f in out if f[0] not in ('_leading_comment', '_trailing_comment')]
    r = lead + mid + trail
    _FIELDS_CACHE[cls] = r
    return r


def _flatten_types(t):
    if isinstance(t, typing.ForwardRef):
        n = t.__forward_arg__
        if n == 'NumberAddExpr':
            return (NumberAddExpr,)
        if n == 'NumberAtomExpr':
            return (models.Number, models.NumberParenExpr, models.NumberUnaryExpr)
        return ()
    a = typing.get_args(t)
    if a:
        out = []
        for x in a:
            out.extend(_flatten_types(x))
        return tuple(out)
    return (t,) if isinstance(t, type) else ()


def field_values(m):
    """[(field_name, kind, value)] in document order for any tree model."""
    if isinstance(m, (NumberAddExpr, NumberMulExpr)):
        out = []
        ops = m._raw_ops
        for i, o in enumerate(m._raw_operands):
            out.append((f'operand{i}', 'req', o))
            if i < len(ops):
                out.append((f'op{i}', 'req', ops[i]))
        return out
    if isinstance(m, internal.Repeated):
        return [('placeholder', 'req', m._placeholder)] + [(f'item{i}', 'req', x) for i, x in enumerate(m.items)]
    return [(name, kind, m.__dict__.get(name)) for name, kind, _, _ in class_fields(type(m))]


def children(m):
    """Child models in document order (Repeated nodes are kept as nodes)."""
    if isinstance(m, base.RawTokenModel):
        return []
    return [v for _, _, v in field_values(m) if v is not None]


def leaves(m):
    """Token leaves in DFS order."""
    if isinstance(m, base.RawTokenModel):
        return [m]
    out = []
    stack = [m]
    # iterative DFS preserving order
    def rec(x):
        if isinstance(x, base.RawTokenModel):
            out.append(x)
            return
        for c in children(x):
            rec(c)
    rec(m)
    return out


def walk(m, path=()):
    """Yields (path, node) for every node (tokens included), pre-order."""
    yield path, m
    if isinstance(m, base.RawTokenModel):
        return
    for name, _, v in field_values(m):
        if v is not None:
            yield from walk(v, path + (name,))


def store_list(store):
    return list(store) if store is not None else []


def store_snapshot(store):
    """[(id(token), class name, raw_text)]"""
    return [(id(t), type(t).__name__, t.raw_text) for t in store]


def check_inv(root, *, file_root=None):
    """The structural invariant.  Returns a list of (signature, description); empty = holds.

    1 every node reachable from root has token_store is root.token_store
    2 DFS leaves are distinct tokens of the store, strictly increasing in store order
    3 every store token inside the root span that is not a leaf is trivia (whitespace/newline/comma or an
      unclaimed block comment); a claimed block comment must be a leaf
    4 first_token/last_token of every node are the first/last of its leaves (File: store ends)
    """
    bad = []
    store = root.token_store
    if store is None:
        return [('inv:no-store', 'root has no token store')]
    toks = list(store)
    pos = {id(t): i for i, t in enumerate(toks)}
    if len(pos) != len(toks):
        bad.append(('inv:store-dup-token', 'a token object occurs twice in the store'))
    if len(store) != len(toks):
        bad.append(('inv:store-len', f'len(store)={len(store)} but iteration gives {len(toks)}'))
    is_file = isinstance(root, models.File)

    def rec(n, path):
        # returns list of leaves
        if isinstance(n, base.RawTokenModel):
            if n.token_store is not store:
                bad.append(('inv:leaf-not-in-store', f'{"/".join(path)}: leaf {type(n).__name__} {n.raw_text!r} is not in the root store'))
            return [n]
        if n.token_store is not store:
            bad.append(('inv:stale-store', f'{"/".join(path)}: {type(n).__name__}.token_store is not the root store'))
        ls = []
        for name, _, v in field_values(n):
            if v is not None:
                ls.extend(rec(v, path + (name,)))
        if not ls:
            bad.append(('inv:empty-node', f'{"/".join(path)}: {type(n).__name__} has no leaves'))
            return ls
        try:
            ft, lt = n.first_token, n.last_token
        except Exception as e:
            bad.append(('inv:first-last-raises', f'{"/".join(path)}: {type(e).__name__}'))
            return ls
        if not (is_file and n is root):
            if ft is not ls[0]:
                bad.append(('inv:first-token', f'{"/".join(path)}: {type(n).__name__}.first_token is not its first leaf'))
            if lt is not ls[-1]:
                bad.append(('inv:last-token', f'{"/".join(path)}: {type(n).__name__}.last_token is not its last leaf'))
        return ls
    ls = rec(root, (type(root).__name__,))
    idx = []
    for t in ls:
        i = pos.get(id(t))
        if i is None:
            idx.append(None)
        else:
            idx.append(i)
    known = [i for i in idx if i is not None]
    if any(b <= a for a, b in zip(known, known[1:])):
        bad.append(('inv:leaf-order', 'tree leaves are not strictly increasing in store order (overlap/duplicate/misorder)'))
    leafset = {id(t) for t in ls}
    if is_file:
        lo, hi = 0, len(toks) - 1
        if toks:
            try:
                if root.first_token is not toks[0] or root.last_token is not toks[-1]:
                    bad.append(('inv:file-span', 'File.first/last_token are not the store ends'))
            except Exception as e:
                bad.append(('inv:first-last-raises', f'File: {type(e).__name__}'))
    else:
        lo = min(known) if known else 0
        hi = max(known) if known else -1
    for i in range(lo, hi + 1):
        t = toks[i]
        if id(t) in leafset:
            continue
        if isinstance(t, TRIVIA):
            continue
        if isinstance(t, models.BlockComment):
            if t.claimed:
                bad.append(('inv:claimed-comment-unowned', f'block comment {t.raw_text!r} has claimed=True but no owner in the tree'))
            continue
        if not t.raw_text and not is_file and isinstance(t, (models.Eol, models.DedentMark, Placeholder)):
            # zero-width marks outside any model (possible for single-model parse targets)
            continue
        bad.append(('inv:unowned-token', f'token {type(t).__name__} {t.raw_text!r} at {i} is inside the root span but owned by no leaf'))
    for t in ls:
        if isinstance(t, models.BlockComment) and not t.claimed:
            bad.append(('inv:owned-comment-unclaimed', f'block comment {t.raw_text!r} is owned by the tree but claimed=False'))
    return bad


# ---- structural comparison (re-parse) ---------------------------------------------------------------

def struct(m):
    """Public structure for comparing an edited model with its re-parse: classes, field nesting and order,
    token (class, text).  Ignored: zero-width private marks (`_dedent_mark`), comment attribution is handled by
    the caller (compare with the same attribution mode), trailing blanks of inline comments."""
    if m is None:
        return None
    if isinstance(m, base.RawTokenModel):
        txt = m.raw_text
        if isinstance(m, (models.InlineComment, models.Ignored)):
            # trailing blanks are lexed into the comment / ignored-line lexeme (set aside by C06)
            txt = txt.rstrip(' \t\r')
        v = getattr(m, 'value', None) if hasattr(type(m), 'value') else None
        if v is None or isinstance(m, (models.InlineComment, models.Ignored)):
            return (type(m).__name__, txt)
        # the value the token denotes is part of "fields and values" (Decimal compared numerically)
        import decimal
        if isinstance(v, decimal.Decimal):
            v = str(v.normalize()) if v == v else 'NaN'
        extra = (getattr(m, 'indent', None),) if isinstance(m, models.BlockComment) else ()
        return (type(m).__name__, txt, repr(v)) + extra
    if isinstance(m, internal.Repeated):
        return ('Repeated', tuple(struct(x) for x in m.items))
    out = []
    for name, kind, v in field_values(m):
        if name == '_dedent_mark':
            continue
        out.append((name, struct(v)))
    return (type(m).__name__, tuple(out))


def struct_diff(a, b, path='root'):
    """First difference between two struct() values, as a string, or None."""
    if a == b:
        return None
    if type(a) != type(b) or a is None or b is None:
        return f'{path}: {_short(a)} != {_short(b)}'
    if isinstance(a, tuple) and len(a) == 2 and isinstance(a[1], tuple) and isinstance(b, tuple) and len(b) == 2 and isinstance(b[1], tuple):
        if a[0] != b[0]:
            return f'{path}: class {a[0]} != {b[0]}'
        if a[0] == 'Repeated':
            if len(a[1]) != len(b[1]):
                return f'{path}: {len(a[1])} items != {len(b[1])} items'
            for i, (x, y) in enumerate(zip(a[1], b[1])):
                d = struct_diff(x, y, f'{path}[{i}]')
                if d:
                    return d
            return f'{path}: differ'
        da = dict(a[1]) if all(isinstance(x, tuple) and len(x) == 2 for x in a[1]) else None
        db = dict(b[1]) if all(isinstance(x, tuple) and len(x) == 2 for x in b[1]) else None
        if da is not None and db is not None:
            for k in da:
                if k not in db:
                    return f'{path}.{k}: missing'
                d = struct_diff(da[k], db[k], f'{path}.{k}')
                if d:
                    return d
    return f'{path}: {_short(a)} != {_short(b)}'


def _short(x):
    s = repr(x)
    return s if len(s) < 160 else s[:157] + '...'


# ---- API paths ---------------------------------------------------------------------------------------

_API_CACHE: dict = {}


def api_props(cls):
    """Descriptor inventory of a tree model class:
    {'opt': {raw_name: field_name}, 'req': {...}, 'rep': {raw_name: (field_name, with_comments)},
     'views': [names of cached view properties], 'values': {name: descriptor}}"""
    r = _API_CACHE.get(cls)
    if r is not None:
        return r
    opt, req, rep, views, values = {}, {}, {}, [], {}
    for k in cls.__mro__[::-1]:
        for name, v in k.__dict__.items():
            if name.startswith('__'):
                continue
            if isinstance(v, _props.optional_node_property):
                opt[name] = v._inner_field._attr
            elif isinstance(v, _props.required_node_property):
                req[name] = v._inner_field._attr
            elif isinstance(v, _ic.repeated_node_with_interleaving_comments_property):
                rep[name] = (v._inner_field._attr, True)
            elif isinstance(v, _props.repeated_node_property):
                rep[name] = (v._inner_field._attr, False)
            elif isinstance(v, _props.cached_custom_property):
                if not name.startswith('_'):
                    views.append(name)
            elif isinstance(v, (_vp.required_value_property, _vp.optional_string_property,
                                _vp.optional_indented_string_property, _vp.optional_decimal_property,
                                _vp.optional_date_property)):
                values[name] = v
            else:
                from autobean_refactor.models import meta_value_internal
                if isinstance(v, meta_value_internal.optional_meta_value_property):
                    values[name] = v
    # aliases (e.g. cost = raw_cost) appear twice: keep the raw_ name
    r = {'opt': opt, 'req': req, 'rep': rep, 'views': sorted(set(views)), 'values': values}
    _API_CACHE[cls] = r
    return r


def field_to_raw(cls):
    a = api_props(cls)
    m = {}
    for raw, f in a['opt'].items():
        if raw.startswith('raw_') or f not in m:
            m[f] = raw
    for raw, f in a['req'].items():
        if raw.startswith('raw_') or f not in m:
            m[f] = raw
    for raw, (f, wc) in a['rep'].items():
        m[f] = raw
    return m


def resolve(root, path):
    """Follow an API path: attribute names and integer indexes."""
    x = root
    for step in path:
        if isinstance(step, int):
            x = x[step]
        else:
            x = getattr(x, step)
    return x


def walk_api(root, path=()):
    """Yields (api_path, model) for tree models reachable through public raw_* properties (pre-order)."""
    yield path, root
    if isinstance(root, base.RawTokenModel):
        return
    if isinstance(root, NumberAddExpr) or isinstance(root, NumberMulExpr):
        for i, o in enumerate(root.raw_operands):
            yield from walk_api(o, path + ('raw_operands', i))
        return
    f2r = field_to_raw(type(root))
    for name, kind, v in field_values(root):
        if v is None:
            continue
        raw = f2r.get(name)
        if raw is None:
            continue
        if kind == 'rep':
            for i, item in enumerate(v.items):
                yield from walk_api(item, path + (raw, i))
        else:
            yield from walk_api(v, path + (raw,))


def _canon_read(v, depth=0):
    if isinstance(v, base.RawModel):
        try:
            return ('node', type(v).__name__, pr(v))
        except Exception as e:   # a detached or broken node: still a stable description
            return ('node-unprintable', type(v).__name__, type(e).__name__)
    if isinstance(v, (str, bytes, int, float, bool, type(None))):
        return repr(v)
    if hasattr(v, 'keys') and hasattr(v, '__getitem__') and depth < 2:
        try:
            return ('map', [(repr(k), _canon_read(v[k], depth + 1)) for k in list(v.keys())])
        except Exception as e:
            return ('map-raises', type(e).__name__)
    if hasattr(v, '__iter__') and hasattr(v, '__len__') and depth < 2:
        try:
            return ('seq', [_canon_read(x, depth + 1) for x in list(v)])
        except Exception as e:
            return ('seq-raises', type(e).__name__)
    return repr(v)


_PUBLIC_CACHE = {}


def public_props(cls):
    """Names of the public data attributes (descriptors with __get__ that are not plain methods) of a model class."""
    r = _PUBLIC_CACHE.get(cls)
    if r is None:
        r = []
        for name in dir(cls):
            if name.startswith('_') or name in ('token_store', 'tokens', 'first_token', 'last_token', 'store_handle', 'size') or 'spacing_' in name:   # spacing is about the surroundings, not the model
                continue
            a = None
            for k in cls.__mro__:
                if name in k.__dict__:
                    a = k.__dict__[name]
                    break
            if a is None or isinstance(a, (staticmethod, classmethod)) or callable(a) and not hasattr(a, '__set__'):
                continue
            if hasattr(a, '__get__') and not isinstance(a, type):
                r.append(name)
        _PUBLIC_CACHE[cls] = r
    return r


def public_reads(m):
    """{name: canonical description of what the public attribute reads now} (values, nodes as printed text, views and
    mappings element by element).  Reading is a non-edit (C04); it primes every cached view of the model."""
    out = {}
    for name in public_props(type(m)):
        try:
            out[name] = _canon_read(getattr(m, name))
        except Exception as e:
            out[name] = ('raises', type(e).__name__)
    return out
