"""Behaviour-preserving rewrites (seeded_harmless/<name>/patch.diff): every claimed check must stay green.
usage: harmless.py [name ...]   Applies each to /repo, runs every check (quick), undoes it; prints the non-green ones."""
import json, subprocess, sys
from pathlib import Path
VERIF = Path(__file__).resolve().parent.parent
REPO = Path('/repo')


def sh(cmd, **kw):
    return subprocess.run(cmd, stdout=subprocess.PIPE, stderr=subprocess.STDOUT, text=True, **kw)


def main(argv):
    names = argv[1:]
    d0 = VERIF / 'seeded_harmless'
    dirs = sorted(d for d in d0.iterdir() if d.is_dir() and (not names or d.name in names))
    claimed = [c['property_id'] for c in json.loads((VERIF / 'MANIFEST.json').read_text())['checks']]
    assert sh(['git', '-C', str(REPO), 'status', '--porcelain']).stdout.strip() == '', '/repo is not clean'
    results = json.loads((d0 / 'RESULTS.json').read_text()) if (d0 / 'RESULTS.json').exists() else {}
    for d in dirs:
        r = sh(['git', '-C', str(REPO), 'apply', str(d / 'patch.diff')])
        if r.returncode != 0:
            print(d.name, 'PATCH DOES NOT APPLY')
            continue
        try:
            red = {}
            procs = []
            for p in claimed:
                out = sh([str(VERIF / 'check'), p, 'quick'], cwd=VERIF)
                if out.returncode != 0:
                    red[p] = [l for l in out.stdout.splitlines() if l.startswith(('VIOLATION', 'INFRA'))][:2] or [out.stdout[-300:]]
            results[d.name] = {'red': red}
            print(f'{d.name:45s} red={red if red else "none"}')
        finally:
            sh(['git', '-C', str(REPO), 'checkout', '--', '.'])
    (d0 / 'RESULTS.json').write_text(json.dumps(results, indent=1))


if __name__ == '__main__':
    main(sys.argv)
