"""Shared infrastructure of the checks: paths, seeded RNG, the Lean build/audit/driver steps,
the verdict logic of DESIGN.md §2.4, known findings, evidence files."""
from __future__ import annotations
import fcntl, hashlib, json, os, random, re, subprocess, sys, time, traceback
from pathlib import Path

VERIF = Path(__file__).resolve().parent.parent
REPO = Path(os.environ.get('VERIF_REPO', '/repo'))
LEAN = VERIF / 'lean'
EVIDENCE = VERIF / 'evidence'
REPLAYS = VERIF / 'replays'
ALLOWED_AXIOMS = {'propext', 'Classical.choice', 'Quot.sound'}
TRUSTED_BASE = [
    'Lean 4.33 kernel; axioms permitted in property theorems: propext, Classical.choice, Quot.sound (audited by #print axioms on every run)',
    'no sorry/admit/own axioms/native_decide/bv_decide/implemented_by/unsafe in lean/Autobean (grep on every run)',
    'translator extract/extract.py (Python ast over /repo sources) and the meaning the Lean side gives to the extracted tables',
    'correspondence harness (generators, dumps, diff) and the executable oracles under harness/',
    'Python control flow is hand-transcribed into Lean (Model/*.lean); agreement is checked on explored inputs, not proved',
    'outside the model: lark lexer/LALR parser, Python re, CPython list/slice semantics, decimal, datetime, OS/filesystem/glob',
]


class Infra(Exception):
    """Infrastructure failure: exit 2, never a verdict."""


def sh(cmd, cwd=None, timeout=None, input=None, env=None):
    e = dict(os.environ)
    if env:
        e.update(env)
    return subprocess.run(cmd, cwd=cwd, timeout=timeout, input=input, env=e,
                          stdout=subprocess.PIPE, stderr=subprocess.STDOUT, text=True)


class BuildLock:
    def __enter__(self):
        (LEAN / '.lake').mkdir(exist_ok=True)
        self.f = open(LEAN / '.lake' / 'verif.lock', 'w')
        fcntl.flock(self.f, fcntl.LOCK_EX)
        return self

    def __exit__(self, *a):
        fcntl.flock(self.f, fcntl.LOCK_UN)
        self.f.close()


def run_extract():
    """Tie #1: regenerate lean/Autobean/Generated/*.lean from /repo's current sources."""
    r = sh([sys.executable, str(VERIF / 'extract' / 'extract.py'), str(REPO), str(LEAN / 'Autobean' / 'Generated')])
    return r.returncode == 0, r.stdout


def lake_build(targets):
    """Returns (ok, failed_modules, log)."""
    r = sh(['lake', 'build', *targets], cwd=LEAN, timeout=3000)
    failed = re.findall(r'^- (\S+)', r.stdout, re.M)
    errs = re.findall(r'^error: (\S+?\.lean):(\d+):(\d+): (.*)', r.stdout, re.M)
    return r.returncode == 0, failed, r.stdout, errs


_FORBIDDEN = re.compile(r'\b(sorry|admit|native_decide|bv_decide|implemented_by)\b|^\s*axiom\s|\bunsafe\s|maxHeartbeats\s+0\b', re.M)


def strip_lean_comments(src: str) -> str:
    out = []
    i = 0
    depth = 0
    n = len(src)
    while i < n:
        if src.startswith('/-', i):
            depth += 1
            i += 2
        elif depth and src.startswith('-/', i):
            depth -= 1
            i += 2
        elif depth:
            i += 1
        elif src.startswith('--', i):
            while i < n and src[i] != '\n':
                i += 1
        else:
            out.append(src[i])
            i += 1
    return ''.join(out)


def grep_forbidden():
    hits = []
    for p in sorted((LEAN / 'Autobean').rglob('*.lean')):
        code = strip_lean_comments(p.read_text())
        for m in _FORBIDDEN.finditer(code):
            hits.append(f'{p.relative_to(LEAN)}: {m.group(0).strip()}')
    return hits


def audit_axioms(module: str, theorems: list[str]):
    """#print axioms for every theorem; returns (ok, {thm: [axioms]}, log)."""
    src = f'import {module}\n' + ''.join(f'#print axioms {t}\n' for t in theorems)
    tmp = LEAN / '.lake' / f'audit_{module.replace(".", "_")}_{os.getpid()}.lean'
    tmp.write_text(src)
    try:
        r = sh(['lake', 'env', 'lean', str(tmp)], cwd=LEAN, timeout=1200)
    finally:
        tmp.unlink(missing_ok=True)
    res = {}
    text = r.stdout
    for m in re.finditer(r"'([^']+)' depends on axioms: \[([^\]]*)\]", text, re.S):
        res[m.group(1)] = [a.strip() for a in m.group(2).replace('\n', ' ').split(',') if a.strip()]
    for m in re.finditer(r"'([^']+)' does not depend on any axioms", text):
        res[m.group(1)] = []
    ok = r.returncode == 0 and all(
        any(k == t or k.endswith('.' + t) or t.endswith('.' + k) for k in res) for t in theorems)
    bad = {k: v for k, v in res.items() if not set(v) <= ALLOWED_AXIOMS}
    return ok and not bad, res, text


def list_theorems(module_file: Path):
    """Names of theorems declared in a property file (namespace-qualified)."""
    code = strip_lean_comments(module_file.read_text())
    ns = []
    names = []
    for line in code.splitlines():
        m = re.match(r'\s*namespace\s+(\S+)', line)
        if m:
            ns.append(m.group(1))
            continue
        m = re.match(r'\s*end\s+(\S+)', line)
        if m and ns and ns[-1] == m.group(1):
            ns.pop()
            continue
        m = re.match(r'\s*(?:@\[[^\]]*\]\s*)?(?:private\s+|protected\s+)?theorem\s+(\S+)', line)
        if m:
            names.append('.'.join(ns + [m.group(1)]))
    return names


class Hang(BaseException):
    """Raised by the watchdog (check.py) when the code under test makes no progress: an edit, query or walk of the real
    implementation that does not return.  BaseException: no `except Exception` of the harness swallows it."""


PROGRESS = time.time()     # last sign of life (ctx.case / ctx.count / driver batches)
IN_DRIVER = False          # waiting for the Lean driver is not a stall of the code under test
CURRENT = None             # replay description of the step being executed, when the harness provides one


def alive():
    global PROGRESS
    PROGRESS = time.time()


class Driver:
    """Runs the Lean model on a batch of protocol lines (one output line per input line)."""

    def run(self, lines: list[str]) -> list[str]:
        global IN_DRIVER
        IN_DRIVER = True
        try:
            return self._run(lines)
        finally:
            IN_DRIVER = False
            alive()

    def _run(self, lines: list[str]) -> list[str]:
        if not lines:
            return []
        data = '\n'.join(lines) + '\n'
        r = subprocess.run(['lake', 'env', 'lean', '--run', 'Driver/Main.lean'], cwd=LEAN, input=data,
                           stdout=subprocess.PIPE, stderr=subprocess.PIPE, text=True, timeout=3000)
        out = r.stdout.split('\n')
        if out and out[-1] == '':
            out.pop()
        if r.returncode != 0 or len(out) != len(lines):
            raise Infra(f'driver failed rc={r.returncode} got {len(out)} lines for {len(lines)}: {r.stderr[-2000:]}')
        return out


def load_known():
    p = VERIF / 'known_findings.json'
    if not p.exists():
        return []
    return json.loads(p.read_text())['findings']


def enc_text(s: str) -> str:
    return 'e' if not s else '.'.join(str(ord(c)) for c in s)


def dec_text(s: str) -> str:
    return '' if s == 'e' else ''.join(chr(int(x)) for x in s.split('.'))
