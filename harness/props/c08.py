"""C08 - reported line/column positions always match the printed text."""
import storehist, tokedit

ID = 'C08'
PROPERTY_FILE = 'Autobean/Properties/C08.lean'
LEAN_TARGETS = ['Autobean.Properties.C08', 'Autobean.Obligations.Consts', 'Autobean.Obligations.Effects']
RULE = ('(1) random store histories as for C07 (texts with and without line breaks, updates that add/remove line breaks) '
        'with get_position / get_index of every token compared after every step with (line, column) recomputed from the '
        'concatenated text, and the cached sizes diffed against the Lean model; (2) token value/raw_text/indent assignments '
        'on parsed multi-block documents with the same oracle. distinct non-trivial as in C07 / C02')
ASSUMPTIONS = ['token identity is compared through sequential ids given at creation']


def _lfs(ctx):
    return [2, 3, 4, 5, 10] if not ctx.thorough else [2, 3, 4, 5, 6, 7, 8, 10, 12]


def run(ctx):
    storehist.run_histories(ctx, ctx.scale(120, 2500), ctx.scale(30, 60), _lfs(ctx), prefix='C08', judge=('C08',))
    tokedit.run(ctx, ctx.scale(80, 2000), ctx.scale(12, 20), _lfs(ctx), 'C08', judge=('C08',))


def search(ctx, hints):
    storehist.run_histories(ctx, ctx.scale(1200, 5000), 60, [2, 3, 4, 5, 10], with_model=False, prefix='C08', judge=('C08',))
    tokedit.run(ctx, ctx.scale(800, 3000), 20, [2, 3, 4, 5, 10], 'C08', with_model=False, judge=('C08',))


def replay(ctx, data):
    rep = data.get('replay') or data.get('first_diverging_replay')
    if 'history' in rep:
        return not storehist.replay_history(rep)
    return not tokedit.replay(rep)
