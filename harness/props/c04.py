"""C04 - operations that are not edits never change the document."""
import copy
import inspect
import commentsx, docs, edits, intro
from autobean_refactor import models
from autobean_refactor.models import base, internal

ID = 'C04'
PROPERTY_FILE = 'Autobean/Properties/C04.lean'
LEAN_TARGETS = ['Autobean.Properties.C04', 'Autobean.Obligations.Effects']
RULE = ('generated ledgers and the parseable string literals of the repository tests, both attribution modes; on every '
        'reachable model (tokens, tree models, Repeated nodes) and every wrapper/view they expose: a sweep reading every '
        'public attribute (descriptors found by walking dir(type(m)); setters and mutating methods are never called), '
        'len/iterate/index/slice/in/==/count/index/keys/values/items/get on every view, ==/!= with self, other nodes and '
        'deep copies, hash, deepcopy, print_model, tokens, first/last_token, spacing getters, iter_children_formatted, '
        'repr, plus random sequences mixing those with claim/unclaim of leading, trailing and interleaving comments '
        '(explicit comment sets included) and auto_claim_comments on any model; after EVERY call the printed text and the '
        'list of visible tokens (identity and text) are compared with the snapshot taken after parsing. Every attribution '
        'primitive executed is replayed on the Lean model (lock-step, driver prefix M). '
        'distinct non-trivial = distinct (call kind, receiver class, attribute/method, outcome class)')
ASSUMPTIONS = ['reads that raise are counted, not judged (the property is about the document, not about the getter)',
               'methods are called only from an allow-list of non-edit calls; everything else public is read as an attribute']
TRUSTED_EXTRA = ['that getters, comparisons, hashing, copying and printing have no effect is checked on the real code (sweep), '
                 'not proved: the Lean theorems cover the calls that DO touch the store (claim/shift/unclaim/auto-claim)']
LEVEL_NOTE = 'claim_visible/claim_perm/claim_text/unclaim_*/autoClaim_* proved on the model; read-only surface swept on the real code'

MUTATORS = {'append', 'clear', 'discard', 'extend', 'insert', 'pop', 'popitem', 'remove', 'reverse', 'setdefault', 'update',
            'drop_many', 'register_update_handler', 'clone', 'detach', 'reattach', 'wrap_with_parenthesis', 'into_total_cost',
            'into_unit_cost', 'from_children', 'from_parsed_children', 'from_value', 'from_raw_text', 'from_default',
            'claim_leading_comment', 'claim_trailing_comment', 'unclaim_leading_comment', 'unclaim_trailing_comment',
            'claim_interleaving_comments', 'unclaim_interleaving_comments', 'auto_claim_comments'}

_ATTRS = {}


def public_attrs(cls):
    """Public names of a class that are NOT plain methods (properties, descriptors, class data)."""
    r = _ATTRS.get(cls)
    if r is None:
        r = []
        for n in dir(cls):
            if n.startswith('_'):
                continue
            a = inspect.getattr_static(cls, n)
            if inspect.isfunction(a) or isinstance(a, (classmethod, staticmethod)) or n in MUTATORS:
                continue
            r.append(n)
        _ATTRS[cls] = r
    return r


class Snap:
    def __init__(self, root):
        self.toks = list(root.token_store)
        self.vis = [(id(t), t.raw_text) for t in self.toks if t.raw_text]
        self.text = intro.pr(root)

    def diff(self, root):
        """None or (signature suffix, description)."""
        now = [(id(t), t.raw_text) for t in root.token_store if t.raw_text]
        if now != self.vis:
            a, b = [i for i, _ in self.vis], [i for i, _ in now]
            if a == b:
                k = next(i for i in range(len(now)) if now[i] != self.vis[i])
                return 'visible-altered', f'text of a token changed: {self.vis[k][1]!r} -> {now[k][1]!r}'
            if sorted(a) == sorted(b):
                return 'visible-reordered', 'visible tokens were re-ordered'
            if set(b) - set(a):
                t = next(x for x in now if x[0] not in set(a))
                return 'visible-created', f'a token with visible text appeared: {t[1]!r}'
            return 'visible-dropped', 'a token with visible text disappeared'
        try:
            text = intro.pr(root)
        except Exception as e:
            return 'print-raises', f'print_model raises {type(e).__name__} afterwards'
        if text != self.text:
            return 'text', 'the printed text changed'
        try:
            n_len, n_iter = len(root.token_store), sum(1 for _ in root.token_store)
        except Exception as e:
            return 'store-length-raises', f'len(token_store) raises {type(e).__name__} afterwards'
        if n_len != n_iter:
            # nothing was created or dropped, so the store's idea of its own size may not move either (its truthiness decides
            # whether a model prints at all)
            return 'store-length-drift', f'len(token_store) is {n_len}, the store holds {n_iter} tokens'
        return None


def is_view(v):
    return (not isinstance(v, (str, bytes, base.RawModel, tuple, list, dict, set, frozenset))
            and hasattr(v, '__len__') and hasattr(v, '__iter__'))


VIEW_OPS = ['len', 'iter', 'first', 'last', 'slice', 'slice2', 'in', 'notin', 'eqself', 'eqlist', 'ne', 'repr', 'count', 'index',
            'keys', 'values', 'items', 'get', 'getkey', 'inkey', 'bool', 'reversed']


def view_op(v, op):
    if op == 'len':
        return len(v)
    if op == 'iter':
        return [x for x in v]
    if op == 'first':
        return v[0]
    if op == 'last':
        return v[-1]
    if op == 'slice':
        return v[0:2]
    if op == 'slice2':
        return v[::-1]
    if op == 'in':
        xs = list(v)
        return (xs[0] in v) if xs else None
    if op == 'notin':
        return object() in v
    if op == 'eqself':
        return v == v
    if op == 'eqlist':
        return v == list(v)
    if op == 'ne':
        return v != []
    if op == 'repr':
        return repr(v)[:10]
    if op == 'bool':
        return bool(v)
    if op == 'reversed':
        return list(reversed(v)) if hasattr(v, '__reversed__') or hasattr(v, '__getitem__') else None
    if op in ('count', 'index'):
        xs = list(v)
        return getattr(v, op)(xs[0]) if xs and hasattr(v, op) else None
    if op in ('keys', 'values', 'items'):
        return list(getattr(v, op)()) if hasattr(v, op) else None
    if op in ('get', 'getkey', 'inkey'):
        if not hasattr(v, 'keys'):
            return None
        ks = list(v.keys())
        if op == 'get':
            return (v.get(ks[0]) if ks else None, v.get('zz'))
        if op == 'getkey':
            return v[ks[0]] if ks else None
        return (ks[0] in v if ks else None, 'zz' in v)
    raise ValueError(op)


def nodes_of(root):
    return [n for _, n in intro.walk(root)]


def do_call(root, nodes, call, foreign=None):
    """Perform one non-edit call.  `call` = [kind, node index, name, sub].  Returns an outcome class."""
    kind, i, name, sub = call
    m = nodes[i % len(nodes)]
    try:
        if kind == 'attr':
            v = getattr(m, name)
            return 'view' if is_view(v) else type(v).__name__ if not isinstance(v, base.RawModel) else 'model'
        if kind == 'view':
            v = getattr(m, name)
            if not is_view(v):
                return 'noview'
            r = view_op(v, sub)
            return 'none' if r is None else 'ok'
        if kind == 'wrap':
            w = getattr(m, name)
            if sub == 'auto':
                w.auto_claim_comments()
                return 'ok'
            comments = [t for t in root.token_store if isinstance(t, models.BlockComment)]
            arg = None
            if isinstance(sub, list):
                meth, sel = sub
                arg = [foreign if k == -1 else comments[k] for k in sel if k == -1 or k < len(comments)]
            else:
                meth = sub
            r = getattr(w, meth)(arg)
            return f'n{min(len(r), 2)}'
        if kind == 'eq':
            o = nodes[sub % len(nodes)] if isinstance(sub, int) else m
            return str(m == o) if name == '==' else str(m != o)
        if kind == 'eqcopy':
            return str(m == copy.deepcopy(m))
        if kind == 'hash':
            hash(m)
            return 'ok'
        if kind == 'deepcopy':
            copy.deepcopy(m)
            return 'ok'
        if kind == 'print':
            intro.pr(m)
            return 'ok'
        if kind == 'tokens':
            return str(len(m.tokens) > 0)
        if kind == 'ends':
            m.first_token, m.last_token
            return 'ok'
        if kind == 'children':
            list(m.iter_children_formatted())
            return 'ok'
        if kind == 'repr':
            repr(m), str(m)
            return 'ok'
        if kind == 'claim':
            if name in ('claim_leading_comment', 'claim_trailing_comment'):
                r = getattr(m, name)(ignore_if_already_claimed=bool(sub))
            else:
                r = getattr(m, name)()
            return 'some' if r is not None else 'none'
        if kind == 'auto':
            m.auto_claim_comments()
            return 'ok'
    except ValueError as e:
        return edits.exc_tag(e)
    except (TypeError, IndexError, KeyError, AttributeError, NotImplementedError, AssertionError, LookupError, ArithmeticError) as e:
        return type(e).__name__
    raise ValueError(f'unknown call {call}')


def sweep_calls(nodes, r, frac):
    """The systematic read of every public attribute and view of (a fraction of) the nodes."""
    for i, m in enumerate(nodes):
        if frac < 1.0 and r.random() > frac:
            continue
        cls = type(m)
        for name in public_attrs(cls):
            yield ['attr', i, name, None]
            try:
                v = getattr(m, name)
            except Exception:
                continue
            if is_view(v):
                for op in VIEW_OPS:
                    yield ['view', i, name, op]
        yield ['eq', i, '==', None]
        yield ['eq', i, '!=', None]
        yield ['hash', i, None, None]
        yield ['tokens', i, None, None]
        yield ['ends', i, None, None]
        yield ['children', i, None, None]
        yield ['repr', i, None, None]
        if not isinstance(m, base.RawTokenModel) or r.random() < 0.1:
            yield ['deepcopy', i, None, None]
            yield ['eqcopy', i, None, None]
            yield ['print', i, None, None]


def random_call(r, root, nodes):
    i = r.randrange(len(nodes))
    m = nodes[i]
    c = r.random()
    if c < 0.42:
        mix = [k for k, n in enumerate(nodes) if isinstance(n, internal.SurroundingCommentsMixin)]
        if mix:
            i = r.choice(mix)
            name = r.choice(['claim_leading_comment', 'claim_trailing_comment', 'claim_leading_comment', 'claim_trailing_comment',
                             'unclaim_leading_comment', 'unclaim_trailing_comment'])
            return ['claim', i, name, 1 if name.startswith('claim') and r.random() < 0.7 else 0]
    if c < 0.72:
        ws = []
        for k, n in enumerate(nodes):
            if isinstance(n, (base.RawTokenModel, internal.Repeated)):
                continue
            for raw, (f, wc) in intro.api_props(type(n))['rep'].items():
                ws.append((k, raw, wc))
        if ws:
            k, raw, wc = r.choice(ws)
            if not wc or r.random() < 0.25:
                return ['wrap', k, raw, 'auto']
            meth = r.choice(['claim_interleaving_comments', 'claim_interleaving_comments', 'unclaim_interleaving_comments'])
            if r.random() < 0.6:
                return ['wrap', k, raw, meth]
            ncom = sum(1 for t in root.token_store if isinstance(t, models.BlockComment))
            sel = r.sample(range(ncom), min(ncom, r.choice([0, 1, 1, 2]))) + ([-1] if r.random() < 0.15 else [])
            return ['wrap', k, raw, [meth, sel]]
    if c < 0.84:
        return ['auto', i, None, None]
    if c < 0.88:
        return ['eq', i, r.choice(['==', '!=']), r.randrange(len(nodes))]
    if c < 0.92:
        return [r.choice(['deepcopy', 'eqcopy', 'print', 'hash', 'tokens', 'ends', 'children', 'repr']), i, None, None]
    names = public_attrs(type(m))
    name = r.choice(names)
    if r.random() < 0.5:
        return ['view', i, name, r.choice(VIEW_OPS)]
    return ['attr', i, name, None]


CLAIM_KINDS = ('claim', 'wrap', 'auto')


PRE_EDIT_KINDS = ('rep-append', 'rep-insert', 'rep-extend', 'rep-pop', 'rep-delitem', 'rep-setitem', 'rep-setslice', 'opt-set', 'req-set',
                  'tok-value', 'numop', 'value-set', 'meta-setkey', 'cost-set')


def run_doc(ctx, text, auto, nrandom, sweep_frac, *, calls=None, pre=None, n_pre=0, pre_out=None, lf=None, copy_first=False):
    """(`lf`: the store's load factor for this document - small values cut it into many blocks, so that the three-token
    stretches the claim functions re-splice straddle block boundaries.)"""
    import session
    session.set_lf(lf)
    try:
        return _run_doc(ctx, text, auto, nrandom, sweep_frac, calls=calls, pre=pre, n_pre=n_pre, pre_out=pre_out, lf=lf, copy_first=copy_first)
    finally:
        session.set_lf(None)


def _run_doc(ctx, text, auto, nrandom, sweep_frac, *, calls=None, pre=None, n_pre=0, pre_out=None, lf=None, copy_first=False):
    """One document.  With `calls` given: replay exactly those.  Returns (signature, description, calls so far) or None.
    `pre` / `n_pre`: edits applied right after parsing, BEFORE anything is read: the non-edit calls are then judged on a
    document in a state only edits reach, with no view or cached property created yet."""
    try:
        root = edits.P().parse(text, models.File, auto_claim_comments=auto)
    except Exception:
        return 'rejected'
    if pre is None and n_pre and ctx is not None:
        pre = []
        for _ in range(n_pre):
            try:
                op = edits.gen_op(ctx.rng, root, kinds=PRE_EDIT_KINDS)
                if op is None:
                    break
                edits.apply_op(root, op)
                pre.append(op)
            except edits.DonorError:
                continue
            except Exception:
                break
        if pre_out is not None:
            pre_out.extend(pre)
    elif pre:
        for op in pre:
            try:
                edits.apply_op(root, op)
            except Exception:
                pass
    if copy_first:
        # the document under test is a deep copy (its store is built in one go: the tokens spread evenly over the blocks,
        # so the first block can sit at half the load factor - a layout the parser never produces)
        import copy as _copy
        root = _copy.deepcopy(root)
    foreign_file = edits.P().parse('; foreign\n', models.File, auto_claim_comments=False)
    foreign = [t for t in foreign_file.token_store if isinstance(t, models.BlockComment)][0]
    snap = Snap(root)
    nodes = nodes_of(root)
    history = []

    def step(call):
        nonlocal nodes
        if ctx is not None and hasattr(ctx, 'current'):
            ctx.current({'text': text, 'auto': auto, 'calls': history[-30:] + [call], 'pre': pre or [], 'lf': lf, 'copy_first': copy_first})
        out = do_call(root, nodes, call, foreign)
        history.append(call)
        if ctx is not None:
            cls = type(nodes[call[1] % len(nodes)]).__name__
            sub = call[3][0] if isinstance(call[3], list) else call[3] if isinstance(call[3], str) else None
            ctx.count(f'call:{call[0]}')
            ctx.case((call[0], cls, call[2], sub, out),
                     sample={'doc': text[:120], 'auto': auto, 'call': call, 'outcome': out} if ctx.evaluations % 9973 == 0 else None)
        d = snap.diff(root)
        if call[0] in CLAIM_KINDS:
            nodes = nodes_of(root)
        return d

    if calls is not None:
        for call in calls:
            d = step(call)
            if d:
                return d[0], d[1], history
        return None
    r = ctx.rng
    phases = ['sweep', 'random', 'sweep2'] if r.random() < 0.5 else ['random', 'sweep']
    for ph in phases:
        if ph == 'random':
            for _ in range(nrandom):
                d = step(random_call(r, root, nodes))
                if d:
                    return d[0], d[1], history
        else:
            for call in list(sweep_calls(nodes, r, sweep_frac if ph == 'sweep' else sweep_frac / 3)):
                d = step(call)
                if d:
                    return d[0], d[1], history
    return None


def _slim_history(history):
    """All claim-type calls and the last 30 calls (reads are expected to be effect-free)."""
    keep = [c for c in history[:-30] if c[0] in CLAIM_KINDS]
    return keep + history[-30:]


def _documents(ctx, n):
    r = ctx.rng
    corpus = list(docs.corpus('File'))
    for s in range(n):
        if corpus and r.random() < 0.3:
            yield r.choice(corpus)
        elif r.random() < 0.15:
            yield commentsx.layout_text(r.choice(['CDCD', 'DIMI', 'TIMIPI', 'TPMIC', 'CBCDICD', 'TIP', 'TPIPC', 'DMIC', 'TMIPIMI', 'ICD', 'TCP']))
        else:
            yield docs.gen_file(r, r.choice([1, 1, 2, 3, 5]))


def _run(ctx, ndocs, nrandom, sweep_frac, trace=True):
    tr = commentsx.Tracer(limit=ctx.scale(4000, 30000), sample=ctx.scale(0.4, 0.1), rng=ctx.rng)
    with tr:
        for text in _documents(ctx, ndocs):
            auto = ctx.rng.random() < 0.5
            pre = []
            lf = ctx.rng.choice([3, 4, 5, 6, 8]) if ctx.rng.random() < 0.4 else None
            cf = lf is not None and ctx.rng.random() < 0.3
            res = run_doc(ctx, text, auto, nrandom, sweep_frac, n_pre=ctx.rng.choice([0, 0, 1, 2, 4]), pre_out=pre, lf=lf, copy_first=cf)
            if res == 'rejected':
                ctx.count('doc:rejected')
                continue
            ctx.count('doc:accepted:auto' if auto else 'doc:accepted:noauto')
            if res is not None:
                sig, what, history = res
                last = history[-1]
                slim = _slim_history(history)
                # confirm the slimmed history still fails; otherwise keep everything
                again = run_doc(None, text, auto, 0, 0, calls=slim, pre=pre, lf=lf, copy_first=cf)
                if not again or again == 'rejected' or again[0] != sig:
                    slim = history
                ctx.oracle_fail(f'C04:{sig}:{last[0]}:{last[2] or ""}', f'{what} after {last}', {'text': text, 'auto': auto, 'calls': slim, 'pre': pre, 'lf': lf, 'copy_first': cf})
    if trace:
        tr.diff(ctx, 'comments-lockstep')


# states that only edits reach (the parser never produces them), each followed by the whole battery of non-edit calls
PROBE_STATES = [
    ('2000-01-01 custom "x" 1\n', [{'k': 'call', 'kind': 'rep-append', 'm': 'append', 'path': ['raw_directives_with_comments', 0], 'attr': 'raw_values',
                                    'args': [{'t': 'parse', 'cls': 'NumberExpr', 'text': '-2'}], 'parent': ['raw_directives_with_comments', 0]}]),
    ('2000-01-01 custom "x" 1 2 USD\n', [{'k': 'setattr', 'kind': 'value-set', 'path': ['raw_directives_with_comments', 0, 'raw_values', 1], 'attr': 'number',
                                          'val': {'t': 'dec', 'v': '-2.00'}, 'parent': ['raw_directives_with_comments', 0, 'raw_values', 1]}]),
    ('2000-01-01 custom "x" 1\n', [{'k': 'call', 'kind': 'rep-append', 'm': 'append', 'path': ['raw_directives_with_comments', 0], 'attr': 'raw_values',
                                    'args': [{'t': 'parse', 'cls': 'Amount', 'text': '+3 USD'}], 'parent': ['raw_directives_with_comments', 0]}]),
    ('2000-01-01 * "p" "n"\n  Assets:A  1 USD\n', [{'k': 'setattr', 'kind': 'opt-set', 'path': ['raw_directives_with_comments', 0], 'attr': 'raw_string2',
                                                      'val': {'t': 'none'}, 'parent': ['raw_directives_with_comments', 0]}]),
    ('2000-01-01 *\n  Assets:A  1 USD {2 EUR}\n', [{'k': 'setattr', 'kind': 'value-set', 'path': ['raw_directives_with_comments', 0, 'raw_postings_with_comments', 0, 'raw_cost'],
                                                     'attr': 'number_total', 'val': {'t': 'dec', 'v': '5'}, 'parent': ['raw_directives_with_comments', 0, 'raw_postings_with_comments', 0, 'raw_cost']}]),
]


def _probe_states(ctx):
    for text, ops in PROBE_STATES:
        for auto in (True, False):
            res = run_doc(ctx, text, auto, 10, 1.0, pre=ops)
            ctx.count('probe-state')
            if res not in (None, 'rejected'):
                sig, what, history = res
                last = history[-1]
                ctx.oracle_fail(f'C04:{sig}:{last[0]}:{last[2] or ""}', f'{what} after {last} [edited state]', {'text': text, 'auto': auto, 'calls': history[-30:], 'pre': ops})


def _copy_grid(ctx):
    """Deep copies under every load factor 4..24: documents of 1-3 transactions with a comment between the meta block and
    the first posting (a claim there really moves a zero-width mark); the whole battery of non-edit calls on the COPY."""
    for lf in range(4, 25):
        for k in (1, 2, 3):
            text = ''.join(f'2000-01-0{i + 1} * "n{i}"\n  kk: {i}\n  ; between\n  Assets:A{i}  1 USD\n  ; tail\n' for i in range(k))
            for auto in (True, False):
                res = run_doc(ctx, text, auto, 0, 1.0, lf=lf, copy_first=True)
                ctx.count('copy-grid')
                if res not in (None, 'rejected'):
                    sig, what, history = res
                    last = history[-1]
                    ctx.oracle_fail(f'C04:{sig}:{last[0]}:{last[2] or ""}', f'{what} after {last} [deep copy, load factor {lf}]',
                                    {'text': text, 'auto': auto, 'calls': history[-30:], 'pre': [], 'lf': lf, 'copy_first': True})
                    return
    # ... and with the load factor set to (number of tokens - 1): the copy's first block then holds exactly half the load
    # factor - the one layout in which a claim (a same-size splice) makes the first block fold into the second
    import copy as _copy
    for k in (1, 2, 3):
        for extra in ('', ' ; c', ' #t', ' #t ^l'):
            text = ''.join(f'2000-01-0{i + 1} * "n{i}"{extra}\n  kk: {i}\n  ; between\n  Assets:A{i}  1 USD\n  ; tail\n' for i in range(k))
            for auto in (True, False):
                n = len(list(_copy.deepcopy(edits.P().parse(text, models.File, auto_claim_comments=auto)).token_store))
                probe = edits.P().parse(text, models.File, auto_claim_comments=auto)
                nodes = nodes_of(probe)
                claims = []
                for i, m in enumerate(nodes):
                    if isinstance(m, internal.SurroundingCommentsMixin):
                        claims += [[['claim', i, a, 1]] for a in ('claim_leading_comment', 'claim_trailing_comment')]
                        claims += [[['claim', i, 'un' + a, 0], ['claim', i, a, 1]] for a in ('claim_leading_comment', 'claim_trailing_comment')]
                    if not isinstance(m, (base.RawTokenModel, internal.Repeated)):
                        for raw, (f_, wc) in intro.api_props(type(m))['rep'].items():
                            if wc:
                                claims += [[['wrap', i, raw, 'claim_interleaving_comments']],
                                           [['wrap', i, raw, 'unclaim_interleaving_comments'], ['wrap', i, raw, 'claim_interleaving_comments']]]
                claims.append([['auto', 0, None, None]])
                for lf, calls in [(lf, c) for lf in (n - 1, n - 2) if lf >= 4 for c in claims]:
                    # every claim on a FRESH copy: it is the first same-size splice in the first block that matters
                    res = run_doc(ctx, text, auto, 0, 0, lf=lf, copy_first=True, calls=calls)
                    ctx.count('copy-grid')
                    if res not in (None, 'rejected'):
                        sig, what, history = res
                        last = history[-1]
                        ctx.oracle_fail(f'C04:{sig}:{last[0]}:{last[2] or ""}', f'{what} after {last} [deep copy of {n} tokens, load factor {lf}]',
                                        {'text': text, 'auto': auto, 'calls': history[-30:], 'pre': [], 'lf': lf, 'copy_first': True})
                        return


def run(ctx):
    _probe_states(ctx)
    _copy_grid(ctx)
    import claimprobes
    claimprobes.run_handover(ctx, ['nonedit'])
    claimprobes.run(ctx, oracles=('nonedit',))
    _run(ctx, ctx.scale(170, 3000), ctx.scale(40, 80), ctx.scale(0.25, 0.5))


def search(ctx, hints):
    _run(ctx, ctx.scale(400, 3000), 60, 0.5, trace=False)


def replay(ctx, data):
    rep = data.get('replay') or data.get('first_diverging_replay') or data
    if 'calls' not in rep:
        return False
    res = run_doc(None, rep['text'], rep['auto'], 0, 0, calls=rep['calls'], pre=rep.get('pre'), lf=rep.get('lf'), copy_first=rep.get('copy_first', False))
    return res is None
