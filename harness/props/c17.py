"""C17 - spacing accessors read and write exactly the whitespace between neighbours.

What is "the run of blanks and newlines adjacent to a model"?  The check derives it from the token store,
independently of `_find_spacing` (plain list indexing, no get_prev/get_next): starting from the token next to the
model, skip zero-width tokens, then take the contiguous Whitespace/Newline tokens (keeping the non-empty ones).
It is cross-checked against the printed text (the maximal run of ' \\t\\r\\n' characters touching the model's span):
the token answer must be a prefix (after) / suffix (before) of the text answer, and where the text answer is longer
the reason is classified and counted, not failed:
  indent            the next lexeme is an INDENT token - docs/special/spacing.md: "Indentation is NOT considered
                    as spacing here", docs/special/indents.md: "indent is not considered spacing and handled separately"
  comment-indent    the next lexeme is an indented block comment (its indent is part of the comment token)
  lexeme-blanks     the blanks belong to the lexeme of an inline comment / ignored line / block comment (trailing
                    blanks, or the CR of a CRLF line end after an ignored line)
  zero-width-stop   a zero-width structural token (Eol, DedentMark, a repeated field's placeholder) sits inside the
                    run, e.g. `2000-01-01 * <blank>` `Eol` `\\n`: the flag's spacing_after is the blank, the newline is
                    the Eol's spacing_after.  Zero-width tokens are models of their own (neighbours), and a spacing
                    update must never delete them, so the run ends there; both neighbours still agree on each piece.
"""
from __future__ import annotations
import datetime
import re
from autobean_refactor import models
from autobean_refactor.models import base, internal
from autobean_refactor.models.internal import spacing_accessors as _sa
import intro, edits, docs
from common import enc_text

ID = 'C17'
PROPERTY_FILE = 'Autobean/Properties/C17.lean'
LEAN_TARGETS = ['Autobean.Properties.C17', 'Autobean.Obligations.Spacing']
RULE = ('generated ledgers (all directive kinds, comments, blank/whitespace-only lines, LF/CRLF, tabs) and the parseable '
        'string literals of the repository tests, both attribution modes; every model and token reachable from the File '
        'root (File itself excluded), both sides: getter vs the run derived from the store by list indexing and vs the '
        'printed text; consecutive sibling models: a.spacing_after is b.spacing_before when the layout condition of '
        'theorem spacing_sides holds (counted otherwise); setter on a freshly parsed document for strings over '
        "' ', '\\t', '\\n', '\\r\\n' (fixed set + random): non-blank text and tokens unchanged, change in place, length, "
        'read-back; every get/set replayed on the Lean model (lock-step, windowed store dump). '
        'distinct non-trivial = distinct (get|set|sides, side, model class, neighbourhood layout, old empty?, new string shape)')
ASSUMPTIONS = [
    'expected spacing is derived from the token store (skip zero-width tokens, then the Whitespace/Newline run); indentation '
    'and blanks inside comment/ignored lexemes are not spacing (docs/special/spacing.md, indents.md)',
    'models without spacing accessors (internal.Repeated, Placeholder, NumberAddExpr, NumberMulExpr - not public models) are '
    'outside the quantifier and only counted',
    'the lock-step dump is a window of the store around the model (two solid tokens beyond the scanned region on each '
    'side; whole store for small documents); tokens strictly inside the model are not sent',
    'private names read: spacing_accessors._SPACING_GROUP_RE (only for the totok correspondence)',
]

BLANK = (models.Whitespace, models.Newline)
FIXED = [' ', '  ', '\t', '\n', '\r\n', ' \n  ', '\n\n', '']
_NONBLANK = re.compile(r'[ \t\r\n]')
_LANG = re.compile(r'(?:[ \t]+|\r*\n)*')


def kind(t):
    return 'N' if isinstance(t, models.Newline) else 'W' if isinstance(t, models.Whitespace) else 'O'


def has_acc(m):
    return isinstance(m, _sa.SpacingAccessorsMixin)


# ---- independent derivation from the store ---------------------------------------------------------------

def run_after(toks, i):
    j = i + 1
    n = len(toks)
    while j < n and not toks[j].raw_text:
        j += 1
    out = []
    while j < n and isinstance(toks[j], BLANK):
        if toks[j].raw_text:
            out.append(toks[j])
        j += 1
    return out, (j if j < n else None)


def run_before(toks, i):
    j = i - 1
    while j >= 0 and not toks[j].raw_text:
        j -= 1
    out = []
    while j >= 0 and isinstance(toks[j], BLANK):
        if toks[j].raw_text:
            out.append(toks[j])
        j -= 1
    return out[::-1], (j if j >= 0 else None)


def text_run(full, s, e, side):
    if side == 'a':
        k = e
        while k < len(full) and full[k] in ' \t\r\n':
            k += 1
        return full[e:k]
    k = s
    while k > 0 and full[k - 1] in ' \t\r\n':
        k -= 1
    return full[k:s]


def classify_text_diff(toks, stop, side):
    """Why the text run is longer than the token run: look at what the token scan stopped at."""
    step = 1 if side == 'a' else -1
    j = stop
    zero = None
    while j is not None and 0 <= j < len(toks) and not toks[j].raw_text:
        zero = zero or type(toks[j]).__name__
        j += step
    if j is None or not (0 <= j < len(toks)):
        return 'unexplained:end'
    u = toks[j]
    if isinstance(u, BLANK):
        return 'zero-width-stop:' + (zero or '?')
    if isinstance(u, models.Indent):
        return 'indent'
    if isinstance(u, models.BlockComment):
        return 'comment-indent' if side == 'a' else 'lexeme-blanks:BlockComment'
    if isinstance(u, (models.InlineComment, models.Ignored)):
        return 'lexeme-blanks:' + type(u).__name__
    return 'unexplained:' + type(u).__name__


class Doc:
    def __init__(self, text, auto_claim):
        self.text = text
        self.auto_claim = auto_claim
        self.root = edits.P().parse(text, models.File, auto_claim_comments=auto_claim)
        self.refresh()
        self.nodes = [(p, m) for p, m in intro.walk(self.root) if m is not self.root]

    def refresh(self):
        self.toks = list(self.root.token_store)
        self.pos = {id(t): i for i, t in enumerate(self.toks)}
        self.offs = [0]
        for t in self.toks:
            self.offs.append(self.offs[-1] + len(t.raw_text))
        self.full = ''.join(t.raw_text for t in self.toks)


def layout_sig(toks, i, side):
    """Neighbourhood of the anchor in scan direction, as a short pattern (z zero-width other, b zero-width blank,
    B blank, S solid), run-length compressed and cut after the first solid token."""
    step = 1 if side == 'a' else -1
    j = i + step
    out = []
    while 0 <= j < len(toks) and len(out) < 12:
        t = toks[j]
        c = ('B' if t.raw_text else 'b') if isinstance(t, BLANK) else ('S' if t.raw_text else 'z')
        if not out or out[-1] != c:
            out.append(c)
        if c == 'S':
            break
        j += step
    return ''.join(out) or '$'


# ---- the lock-step dump ----------------------------------------------------------------------------------

def window(toks, fi, li, whole):
    n = len(toks)
    if whole:
        return 0, n - 1
    lo, solid = fi, 0
    while lo > 0 and solid < 2:
        lo -= 1
        if toks[lo].raw_text and not isinstance(toks[lo], BLANK):
            solid += 1
    hi, solid = li, 0
    while hi < n - 1 and solid < 2:
        hi += 1
        if toks[hi].raw_text and not isinstance(toks[hi], BLANK):
            solid += 1
    return lo, hi


def enc_store(toks, lo, hi, fi, li, whole):
    idxs = list(range(lo, hi + 1)) if whole else list(range(lo, fi + 1)) + ([li] if li != fi else []) + list(range(li + 1, hi + 1))
    return ','.join(f'{i + 1}:{kind(toks[i])}:{enc_text(toks[i].raw_text)}' for i in idxs) or '-', idxs


def enc_post(pre_toks, idxs, lo, hi, post_toks):
    """The real post-state restricted to the window, in the driver's output format."""
    n = len(pre_toks)
    ppos = {id(t): i for i, t in enumerate(post_toks)}
    pre_id = {id(t): i for i, t in enumerate(pre_toks)}
    keep = set(idxs)
    if lo == 0:
        start = 0
    else:
        start = ppos.get(id(pre_toks[lo]))
    if hi == n - 1:
        end = len(post_toks) - 1
    else:
        end = ppos.get(id(pre_toks[hi]))
    if start is None or end is None:
        return '!window-boundary-token-left-the-store'
    out = []
    for t in post_toks[start:end + 1]:
        i = pre_id.get(id(t))
        if i is None:
            out.append(f'N:{kind(t)}:{enc_text(t.raw_text)}')
        elif i in keep:
            out.append(str(i + 1))
    return ','.join(out) or '-'


class Lock:
    def __init__(self, ctx):
        self.ctx = ctx
        self.lines = []
        self.expect = []
        self.replays = []
        self.on = ctx.extra.get('model_available', True)

    def add(self, line, expect, replay):
        if self.on:
            self.lines.append(line)
            self.expect.append(expect)
            self.replays.append(replay)

    def finish(self, stream='spacing'):
        if not self.lines:
            return
        outs = self.ctx.driver.run(self.lines)
        bad = 0
        for line, exp, got, rep in zip(self.lines, self.expect, outs, self.replays):
            if exp != got:
                bad += 1
                self.ctx.divergence(stream + ':' + line.split(' ', 2)[1], {'line': line[:600], 'real': exp[:300], 'model': got[:300]}, rep)
        self.ctx.extra.setdefault('lockstep_lines', 0)
        self.ctx.extra['lockstep_lines'] += len(self.lines)
        self.ctx.count('lockstep:diverged', bad)


# ---- oracles ---------------------------------------------------------------------------------------------

def check_get(ctx, d, fails, lock=None, sample_lock=1.0):
    """Every model of the document, both sides."""
    toks, pos = d.toks, d.pos
    whole = len(toks) <= 80
    for idx, (path, m) in enumerate(d.nodes):
        if not has_acc(m):
            ctx.count('no-accessor:' + type(m).__name__)
            continue
        fi, li = pos[id(m.first_token)], pos[id(m.last_token)]
        for side in ('b', 'a'):
            if side == 'a':
                exp, stop = run_after(toks, li)
                raw = list(m.raw_spacing_after)
                s = m.spacing_after
            else:
                exp, stop = run_before(toks, fi)
                raw = list(m.raw_spacing_before)
                s = m.spacing_before
            rep = {'check': 'get', 'text': d.text, 'auto_claim': d.auto_claim, 'idx': idx, 'side': side}
            lay = layout_sig(toks, li if side == 'a' else fi, side)
            ctx.case(('get', side, type(m).__name__, lay), sample={'doc': d.text[:160], 'path': '/'.join(path), 'side': side, 'spacing': s} if ctx.evaluations % 4999 == 0 else None)
            ctx.count('get:run-empty' if not exp else 'get:run-nonempty')
            if [id(t) for t in raw] != [id(t) for t in exp]:
                fails.append(('C17:get', f'{"/".join(path)} ({type(m).__name__}).raw_spacing_{"after" if side == "a" else "before"} returns '
                              f'{[t.raw_text for t in raw]!r}, the blank run next to it in the store is {[t.raw_text for t in exp]!r}', rep))
                continue
            if s != ''.join(t.raw_text for t in exp):
                fails.append(('C17:get', f'{"/".join(path)}: the string getter {s!r} is not the text of the raw getter', rep))
                continue
            tr = text_run(d.full, d.offs[fi], d.offs[li + 1], side)
            if tr == s:
                ctx.count('get:text=tokens')
            elif not (tr.startswith(s) if side == 'a' else tr.endswith(s)):
                fails.append(('C17:get', f'{"/".join(path)}: returned {s!r} does not touch the model in the printed text (blanks there: {tr!r})', rep))
            else:
                why = classify_text_diff(toks, stop, side)
                ctx.count('get:text-longer:' + why)
                if why.startswith('unexplained'):
                    ctx.notes.append(f'C17 text/token difference not classified: {why} in {d.text[:120]!r} at {"/".join(path)} side {side}')
            if lock is not None and (sample_lock >= 1.0 or ctx.rng.random() < sample_lock):
                lo, hi = window(toks, fi, li, whole)
                st, _ = enc_store(toks, lo, hi, fi, li, whole)
                lock.add(f'W get {st} {fi + 1} {li + 1} {side}', ','.join(str(pos[id(t)] + 1) for t in raw) or '-', rep)


def sibling_seq(m):
    out = []
    for c in intro.children(m):
        if isinstance(c, internal.Repeated):
            out.extend(c.items)
        else:
            out.append(c)
    return [c if has_acc(c) else None for c in out]   # None: a child without accessors breaks adjacency


def sides_layout(toks, ia, ib):
    """The hypothesis of theorem spacing_sides for a = toks[ia] (last token of A), b = toks[ib] (first token of B)."""
    if ib <= ia:
        return False, 'overlap', []
    gap = toks[ia + 1:ib]
    x, y = 0, len(gap)
    while x < y and not gap[x].raw_text:
        x += 1
    while y > x and not gap[y - 1].raw_text:
        y -= 1
    mid = gap[x:y]
    if not all(isinstance(t, BLANK) for t in mid):
        return False, 'gap-has-other-token', []
    ne = [t for t in mid if t.raw_text]
    a, b = toks[ia], toks[ib]
    if isinstance(a, BLANK) or isinstance(b, BLANK):
        return False, 'endpoint-blank', ne
    if not ne and not a.raw_text:
        return False, 'zero-width-left-endpoint-no-run:' + type(a).__name__, ne
    if not ne and not b.raw_text:
        return False, 'zero-width-right-endpoint-no-run:' + type(b).__name__, ne
    return True, 'ok', ne


def check_sides(ctx, d, fails):
    toks, pos = d.toks, d.pos
    for idx, (path, m) in enumerate([((), d.root)] + d.nodes):
        if isinstance(m, base.RawTokenModel) or isinstance(m, internal.Repeated):
            continue
        seq = sibling_seq(m)
        for k, (a, b) in enumerate(zip(seq, seq[1:])):
            if a is None or b is None:
                continue
            ia, ib = pos[id(a.last_token)], pos[id(b.first_token)]
            ok, why, ne = sides_layout(toks, ia, ib)
            ra = [id(t) for t in a.raw_spacing_after]
            rb = [id(t) for t in b.raw_spacing_before]
            ctx.case(('sides', type(a).__name__, type(b).__name__, why))
            if ok:
                ctx.count('sides:layout-holds')
                if ra != rb or ra != [id(t) for t in ne]:
                    fails.append(('C17:sides', f'{"/".join(path)}: {type(a).__name__}.spacing_after = {a.spacing_after!r} but the next sibling '
                                  f'{type(b).__name__}.spacing_before = {b.spacing_before!r} (gap is zero-width* blanks* zero-width*)',
                                  {'check': 'sides', 'text': d.text, 'auto_claim': d.auto_claim}))
            else:
                ta, tb = toks[ia], toks[ib]
                if ta.raw_text and tb.raw_text and not isinstance(ta, BLANK) and not isinstance(tb, BLANK) and ib > ia:
                    # theorem spacing_sides_iff predicts exactly when the two sides agree (solid end points)
                    core = toks[ia + 1:ib]
                    while core and not core[0].raw_text:
                        core = core[1:]
                    while core and not core[-1].raw_text:
                        core = core[:-1]
                    predicted = all(isinstance(t, BLANK) for t in core) or (not isinstance(core[0], BLANK) and not isinstance(core[-1], BLANK))
                    if predicted != (ra == rb):
                        ctx.divergence('spacing:sides-iff', {'predicted_equal': predicted, 'real_equal': ra == rb, 'gap': [[type(t).__name__, t.raw_text] for t in toks[ia + 1:ib]]},
                                       {'check': 'sides', 'text': d.text, 'auto_claim': d.auto_claim})
                    ctx.count('sides:iff-checked')
                zw = any(isinstance(x, base.RawTokenModel) and not x.raw_text for x in (a, b))
                ctx.count(f'sides:layout-fails:{why}:{"zero-width-model" if zw else "models"}:{"same" if ra == rb else "differ"}')


def new_strings(r, n):
    out = list(FIXED)
    while len(out) < n:
        out.append(''.join(r.choice([' ', ' ', '\t', '\n', '\r\n']) for _ in range(r.randrange(1, 6))))
    return out


def shape(s):
    return re.sub(r'(.)\1+', r'\1+', s.replace('\r\n', 'C').replace('\n', 'L').replace(' ', 's').replace('\t', 't'))[:6]


def check_set(ctx, text, auto_claim, idx, side, new, fails, lock=None, d=None, rep=None):
    """One assignment on a freshly parsed document (or, in a history, on the document as it stands)."""
    d = d or Doc(text, auto_claim)
    path, m = d.nodes[idx]
    if not has_acc(m):
        return
    rep = rep or {'check': 'set', 'text': text, 'auto_claim': auto_claim, 'idx': idx, 'side': side, 'new': new}
    toks, pos = d.toks, d.pos
    fi, li = pos[id(m.first_token)], pos[id(m.last_token)]
    attr = 'spacing_after' if side == 'a' else 'spacing_before'
    old = getattr(m, attr)
    old_raw = list(getattr(m, 'raw_' + attr))
    before_text = d.full
    nonblank_pre = [(id(t), t.raw_text) for t in toks if not isinstance(t, BLANK)]
    if old_raw:
        place = d.offs[pos[id(old_raw[0])]]
    else:
        place = d.offs[li + 1] if side == 'a' else d.offs[fi]
    whole = len(toks) <= 80
    lo, hi = window(toks, fi, li, whole)
    st, idxs = enc_store(toks, lo, hi, fi, li, whole)
    try:
        setattr(m, attr, new)
    except Exception as e:
        fails.append(('C17:set-raises', f'{"/".join(path)}.{attr} = {new!r} raised {type(e).__name__}: {str(e)[:120]}', rep))
        return
    post = list(d.root.token_store)
    after_text = intro.pr(d.root)
    ctx.case(('set', side, type(m).__name__, layout_sig(toks, li if side == 'a' else fi, side), old == '', shape(new)),
             sample={'doc': text[:160], 'path': '/'.join(path), 'attr': attr, 'old': old, 'new': new} if ctx.evaluations % 997 == 0 else None)
    ctx.count('set:old-empty' if not old else 'set:old-nonempty')
    ctx.count('set:new-empty' if not new else 'set:new-nonempty')
    who = f'{"/".join(path)} ({type(m).__name__}).{attr}: {old!r} -> {new!r}'
    nonblank_post = [(id(t), t.raw_text) for t in post if not isinstance(t, BLANK)]
    if _NONBLANK.sub('', after_text) != _NONBLANK.sub('', before_text):
        fails.append(('C17:set-nonblank-changed', who + ': non-blank text of the document changed', rep))
    elif nonblank_post != nonblank_pre:
        fails.append(('C17:set-nonblank-changed', who + ': a token that is not Whitespace/Newline changed identity, text or order', rep))
    if len(after_text) != len(before_text) - len(old) + len(new):
        fails.append(('C17:set-length', who + f': length {len(before_text)} -> {len(after_text)}, expected {len(before_text) - len(old) + len(new)}', rep))
    elif after_text != before_text[:place] + new + before_text[place + len(old):]:
        fails.append(('C17:set-place', who + ': the text changed somewhere else than at the old run', rep))
    if new:
        back = getattr(m, attr)
        if back != new:
            fails.append(('C17:readback', who + f': reads back {back!r}', rep))
    if lock is not None:
        lock.add(f'W set {st} {fi + 1} {li + 1} {side} {enc_text(new)}', enc_post(toks, idxs, lo, hi, post), rep)


def check_history(ctx, text, auto_claim, lf, steps, fails, gen=None):
    """A history of assignments on ONE document whose store is cut into small blocks (load factor lf): every step is
    judged by the single-assignment oracle against the document as it stood before the step, then every getter is
    re-checked against the store.  `steps` is replayed when given, otherwise `gen(d)` yields (idx, side, new)."""
    import session
    session.set_lf(lf)
    try:
        try:
            d = Doc(text, auto_claim)
        except Exception:
            ctx.count('doc:rejected')
            return
        done = []
        n0 = len(fails)
        it = iter(steps) if steps is not None else gen(d)
        for step in it:
            if isinstance(step, dict) and 'blank' in step:
                # a Whitespace / Newline token in the middle of a run is emptied in place (raw_text = ''): the run is still
                # ONE run - zero-width blank tokens inside it are skipped, not the end of it
                done.append(step)
                inner = [i for i, t in enumerate(d.toks) if isinstance(t, BLANK) and t.raw_text and 0 < i < len(d.toks) - 1
                         and isinstance(d.toks[i - 1], BLANK) and d.toks[i - 1].raw_text and isinstance(d.toks[i + 1], BLANK) and d.toks[i + 1].raw_text]
                if inner:
                    rep = {'check': 'hist', 'text': text, 'auto_claim': auto_claim, 'lf': lf, 'steps': list(done)}
                    if hasattr(ctx, 'current'):
                        ctx.current(rep)
                    try:
                        d.toks[inner[step['blank'] % len(inner)]].raw_text = ''
                    except Exception:   # noqa: BLE001 - the token class refuses the empty text: not a case
                        continue
                    d.refresh()
                    n1 = len(fails)
                    check_get(ctx, d, fails)
                    for f in fails[n1:]:
                        f[2].clear(); f[2].update(rep)
                    ctx.count('history:blank-token-emptied')
                    if len(fails) > n0:
                        break
                continue
            if isinstance(step, dict):
                # another kind of edit in between (arithmetic on a number in place, a child replaced / inserted / removed):
                # the spacing accessors of every model it leaves behind must still work on the document's store
                done.append(step)
                if hasattr(ctx, 'current'):
                    ctx.current({'check': 'hist', 'text': text, 'auto_claim': auto_claim, 'lf': lf, 'steps': list(done)})
                try:
                    edits.apply_op(d.root, step['edit'])
                except edits.DonorError:
                    pass
                d.refresh()
                d.nodes = [(p, m) for p, m in intro.walk(d.root) if m is not d.root]
                ctx.count('history:other-edit:' + step['edit']['kind'])
                continue
            idx, side, new = step
            if idx >= len(d.nodes):
                continue
            done.append([idx, side, new])
            rep = {'check': 'hist', 'text': text, 'auto_claim': auto_claim, 'lf': lf, 'steps': list(done)}
            if hasattr(ctx, 'current'):
                ctx.current(rep)
            try:
                check_set(ctx, text, auto_claim, idx, side, new, fails, d=d, rep=rep)
                if len(fails) == n0:
                    d.refresh()
                    if len(done) % 8 == 0 or steps is not None:
                        check_get(ctx, d, fails)
                        for f in fails[n0:]:
                            f[2].clear(); f[2].update(rep)
            except Exception as e:
                fails.append(('C17:history-raises', f'step {len(done)} ({side}, {new!r}) raised {type(e).__name__}: {str(e)[:100]}', rep))
            if len(fails) > n0:
                break
        ctx.count('history:steps', len(done))
    finally:
        session.set_lf(None)


OTHER_EDITS = ('numop', 'opt-set', 'req-set', 'rep-insert', 'rep-append', 'rep-pop', 'rep-delitem', 'view-append', 'view-insert',
               'value-set', 'meta-setkey', 'cost-set', 'rep-setitem')


def _raw_path(d, api_path):
    """The private-field path (as intro.walk yields it) of the model at an API path - best effort: same model object."""
    try:
        target = intro.resolve(d.root, api_path)
    except Exception:
        return ('?',)
    for p, m in d.nodes:
        if m is target:
            return p
    return ('?',)


def gen_history(ctx, n):
    r = ctx.rng
    def gen(d):
        cand = [i for i, (p, m) in enumerate(d.nodes) if has_acc(m)]
        strings = new_strings(r, len(FIXED) + 4)
        # phases: widen a region, collapse another - blocks grow past 1.5x and neighbours shrink under half
        for _ in range(n):
            if r.random() < 0.12:
                yield {'blank': r.randrange(1000)}
                continue
            if r.random() < 0.3:
                c = r.random()
                op = edits.gen_op(r, d.root, kinds=('numop',) if c < 0.4 else ('rep-setitem', 'rep-setslice', 'view-setitem') if c < 0.65 else OTHER_EDITS)
                if op is not None:
                    yield {'edit': op}
                    cand = [i for i, (p, m) in enumerate(d.nodes) if has_acc(m)]
                    # right after the edit: the models at and around the edited place
                    near = [i for i in cand if list(d.nodes[i][0])[:len(op['path'])] == list(_raw_path(d, op['path']))] or cand
                    for i in r.sample(near, min(len(near), 10)):
                        yield i, r.choice('ab'), r.choice(['', ' ', '  ', '\n', r.choice(strings)])
                    continue
            if not cand:
                return
            lo = r.randrange(len(cand))
            grow = r.random() < 0.5
            for i in cand[lo:lo + r.randrange(1, 12)]:
                yield i, r.choice('ab'), (r.choice(['\n\n\n', '  \t  ', ' \n \n ', '\n\n\n\n']) if grow else r.choice(['', ' ', '\n', r.choice(strings)]))
    return gen


def _replace_probes(ctx, fails):
    """An element of a repeated field replaced (by index) by an element of ANOTHER kind - a bare token by a tree model and
    the other way round: the accessors of the new element and of everything inside it read the document's store."""
    import decimal
    cases = [
        ('2000-01-01 custom "x" "s"  TRUE  2000-01-02\n', lambda f: f.raw_directives[0].raw_values, 0, lambda: models.Amount.from_value(decimal.Decimal('1.5'), 'USD')),
        ('2000-01-01 custom "x" "s"  TRUE  2000-01-02\n', lambda f: f.raw_directives[0].raw_values, 1, lambda: models.NumberExpr.from_value(decimal.Decimal(7))),
        ('2000-01-01 custom "x" 1 USD  TRUE\n', lambda f: f.raw_directives[0].raw_values, 0, lambda: models.EscapedString.from_value('t')),
        ('; top\n\n2000-01-01 open Assets:A\n', lambda f: f.raw_directives_with_comments, 0, lambda: models.Close.from_value(datetime.date(2000, 1, 1), 'Assets:Z')),
        ('2000-01-01 *\n  Assets:A  1 USD {2 EUR, 2000-01-01}\n', lambda f: f.raw_directives[0].raw_postings[0].raw_cost.raw_cost.raw_components, 1,
         lambda: models.Amount.from_value(decimal.Decimal(3), 'GBP')),
    ]
    for text, field, idx, make in cases:
        for ac in (True, False):
            rep = {'check': 'replace-probe', 'text': text, 'auto_claim': ac, 'idx': idx}
            try:
                d = Doc(text, ac)
                w = field(d.root)
                if len(w) <= idx:
                    continue
                w[idx] = make()
                d.refresh()
                d.nodes = [(p, m) for p, m in intro.walk(d.root) if m is not d.root]
                n0 = len(fails)
                check_get(ctx, d, fails)
                for f_ in fails[n0:]:
                    f_[2].clear()
                    f_[2].update(rep)
                new = w[idx]
                if has_acc(new):
                    new.spacing_before = '  '
                    if new.spacing_before != '  ':
                        fails.append(('C17:readback', f'{type(new).__name__} put in place of another kind of element: spacing_before reads {new.spacing_before!r} after assigning two blanks', rep))
                ctx.case(('replace-probe', type(new).__name__, idx, ac))
            except Exception as e:
                fails.append((f'C17:set-raises', f'replace probe {text[:30]!r}[{idx}]: {type(e).__name__}: {str(e)[:100]}', rep))


def _first_block_probes(ctx, fails):
    """The first block of the store at or under half the load factor with another block behind it (a deep copy spreads
    its tokens evenly over the blocks; so does a constructed tree): one spacing assignment at every accessor-bearing
    model of the copy, for every load factor 4..24 and documents of 1..6 lines - all non-blank text and its order are
    unchanged, the assigned gap reads back."""
    import session, copy
    for lf in range(4, 25):
        for k in range(1, 7):
            text = ''.join(f'2000-01-0{i + 1} open Assets:A{i}  USD\n' for i in range(k))
            rep = {'check': 'first-block', 'lf': lf, 'k': k}
            session.set_lf(lf)
            try:
                f0 = edits.P().parse(text, models.File)
                n_models = sum(1 for _, m in intro.walk(f0) if has_acc(m))
                for j in range(n_models):
                    for side in ('spacing_before', 'spacing_after'):
                        f = copy.deepcopy(f0)
                        m = [m for _, m in intro.walk(f) if has_acc(m)][j]
                        solid = [t.raw_text for t in f.token_store if t.raw_text and not isinstance(t, BLANK)]
                        try:
                            setattr(m, side, '   ')
                        except Exception as e:
                            fails.append(('C17:set-raises', f'copy of {k} line(s), load factor {lf}, {type(m).__name__}.{side}: {type(e).__name__}: {str(e)[:80]}', dict(rep, j=j, side=side)))
                            break
                        after = [t.raw_text for t in f.token_store if t.raw_text and not isinstance(t, BLANK)]
                        ctx.case(('first-block', lf, k, min(j, 3), side))
                        if after != solid:
                            fails.append(('C17:nonblank-changed:first-block', f'deep copy of a {k}-line document under load factor {lf}: {type(m).__name__}.{side} = 3 blanks '
                                          f'changed the non-blank text or its order: {"".join(solid)[:60]!r} -> {"".join(after)[:60]!r}', dict(rep, j=j, side=side)))
                            break
                    else:
                        continue
                    break
            finally:
                session.set_lf(None)
            if len(fails) > 40:
                return


def check_totok(ctx, lock, n):
    r = ctx.rng
    for _ in range(n):
        s = ''.join(r.choice(' \t\r\n\r\nx') for _ in range(r.randrange(0, 9)))
        pieces = []
        for ws, nl in _sa._SPACING_GROUP_RE.findall(s):
            if ws:
                pieces.append('W:' + enc_text(ws))
            if nl:
                pieces.append('N:' + enc_text(nl))
        real = [(kind(t), t.raw_text) for t in _sa._text_to_tokens(s)]
        if [f'{k}:{enc_text(t)}' for k, t in real] != pieces:
            ctx.notes.append('harness: _text_to_tokens differs from findall on ' + repr(s))
        rep = {'check': 'totok', 's': s}
        lock.add('W totok ' + enc_text(s), ','.join(pieces) or '-', rep)
        lock.add('W lang ' + enc_text(s), '1' if _LANG.fullmatch(s) else '0', rep)
        ctx.case(('totok', shape(s)) if s else None)


def gen_docs(ctx, n_gen, n_corpus):
    r = ctx.rng
    corpus = list(docs.corpus('File'))
    out = [(t, True) for t in r.sample(corpus, min(n_corpus, len(corpus)))]
    for _ in range(n_gen):
        out.append((docs.gen_file(r, r.choice((1, 2, 3, 5, 8))), r.random() < 0.7))
    return out


def _report(ctx, fails):
    for sig, what, rep in fails:
        ctx.oracle_fail(sig, what, rep)


def _run(ctx, n_gen, n_corpus, sets_per_doc, with_model):
    r = ctx.rng
    lock = Lock(ctx) if with_model else None
    fails = []
    for text, ac in gen_docs(ctx, n_gen, n_corpus):
        try:
            d = Doc(text, ac)
        except Exception:
            ctx.count('doc:rejected')
            continue
        ctx.count('doc:accepted')
        if not d.nodes:
            continue
        check_get(ctx, d, fails, lock, sample_lock=ctx.scale(0.25, 0.05))
        check_sides(ctx, d, fails)
        cand = [i for i, (p, m) in enumerate(d.nodes) if has_acc(m)]
        if not cand:
            continue
        strings = new_strings(r, len(FIXED) + 4)
        for _ in range(sets_per_doc):
            check_set(ctx, text, ac, r.choice(cand), r.choice('ab'), r.choice(strings), fails, lock)
        if len(fails) > 40:
            break
    for _ in range(ctx.scale(90, 800)):
        check_history(ctx, docs.gen_file(r, r.choice((4, 8, 12))), r.random() < 0.7, r.choice((4, 5, 6, 8, 10, 16)), None, fails,
                      gen=gen_history(ctx, ctx.scale(12, 20)))
        if len(fails) > 40:
            break
    _replace_probes(ctx, fails)
    _first_block_probes(ctx, fails)
    _report(ctx, fails)
    if lock is not None:
        check_totok(ctx, lock, ctx.scale(400, 4000))
        lock.finish()


def run(ctx):
    _run(ctx, ctx.scale(170, 2000), ctx.scale(80, 383), ctx.scale(24, 30), ctx.extra.get('model_available', True))


def search(ctx, hints):
    _run(ctx, ctx.scale(600, 4000), 383, 40, False)


def replay(ctx, data):
    rep = data.get('replay') or data.get('first_diverging_replay') or data
    fails = []
    if rep.get('check') == 'set':
        check_set(ctx, rep['text'], rep['auto_claim'], rep['idx'], rep['side'], rep['new'], fails)
    elif rep.get('check') in ('get', 'sides'):
        d = Doc(rep['text'], rep['auto_claim'])
        check_get(ctx, d, fails)
        check_sides(ctx, d, fails)
    elif rep.get('check') == 'replace-probe':
        _replace_probes(ctx, fails)
    elif rep.get('check') == 'first-block':
        _first_block_probes(ctx, fails)
    elif rep.get('check') == 'hist':
        check_history(ctx, rep['text'], rep['auto_claim'], rep['lf'], [x if isinstance(x, dict) else tuple(x) for x in rep['steps']], fails)
    elif rep.get('check') == 'totok':
        s = rep['s']
        return ''.join(t.raw_text for t in _sa._text_to_tokens(s)) == s or not _LANG.fullmatch(s)
    else:
        return False
    for sig, what, _ in fails:
        print(f'  {sig}: {what}')
    return not fails
