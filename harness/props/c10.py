"""C10 - all views of a repeated field stay consistent with each other."""
import viewshist

ID = 'C10'
PROPERTY_FILE = 'Autobean/Properties/C10.lean'
LEAN_TARGETS = ['Autobean.Properties.C10', 'Autobean.Obligations.CachesViews']
RULE = ('random operation histories on the real repeated fields (Transaction.raw_tags_links with tags/links, '
        'File.raw_directives_with_comments with raw_directives/directives, raw_postings_with_comments with raw_postings/postings, '
        'raw_meta_with_comments with raw_meta/meta on transactions, opens and postings, Open.raw_currencies with currencies, '
        'Custom.raw_values with values, plus extra filtered views) mutated through ANY of the aliasing views with int/slice/step/key '
        'arguments from {-n-2..n+2, None} x {None,1,2,3,-1,-2,(0)}; every step is replayed on the Lean model World (items + every '
        '_raw_indexes), the Lean PyList reference is compared with a plain Python list, and the oracle compares every view with '
        'the raw list filtered/converted now and every call with the same call on a plain list / ordered first-match pairs. '
        'distinct non-trivial = distinct (field kind, view the op went through, op, index class, length bucket, outcome)')
ASSUMPTIONS = [
    'items are abstracted to (identity, element-type tag, value code); value codes are chosen by the harness so that equal codes '
    'mean equal converted values (string equality / structural equality of freshly built nodes)',
    '_check_reusable is modelled as "no value twice and no value that is currently in the list"; the harness only offers fresh '
    'values, values currently in the list, or one value twice',
    'claim/unclaim_interleaving_comments are modelled as `items[:] = ...; _notify()` (RawOp.reassign); which comments they pick is C14',
    'a view method that fails half-way is modelled as keeping what was done; on the correct code refusals happen before any mutation',
]
TECHNIQUE = 'Lean 4 machine-checked proof over a hand-written model + run-time correspondence check against the implementation'


def run(ctx):
    if ctx.thorough:
        viewshist.run_exhaustive(ctx)
        viewshist.run_histories(ctx, 10000, 20)
    else:
        # a small exhaustive slice grid on every run (the full one is the thorough tier's)
        viewshist.run_exhaustive(ctx, lens=range(2, 5), bounds=[None, 0, 1, 2, 3, -1, -2], steps=(None, -1), nvals=range(0, 4))
        viewshist.run_histories(ctx, 400, 20)
    viewshist.run_claim_probes(ctx)


def search(ctx, hints):
    # oracle only, bigger budget; first the diverging histories themselves
    for d in hints.get('divergences', [])[:50]:
        rep = d.get('replay')
        if rep:
            bad = viewshist.replay_history(rep)
            if bad:
                ctx.oracle_fail(bad[0][0], bad[0][1], rep)
    viewshist.run_histories(ctx, ctx.scale(3000, 12000), 25, with_model=False)


def replay(ctx, data):
    rep = data.get('replay') or data.get('first_diverging_replay')
    if not rep:
        return False
    return not viewshist.replay_history(rep)
