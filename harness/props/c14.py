"""C14 - every block comment has at most one owner, chosen by the documented rules."""
import itertools
import commentsx, docs, edits, intro
from autobean_refactor import models
from autobean_refactor.models import base, internal

ID = 'C14'
PROPERTY_FILE = 'Autobean/Properties/C14.lean'
LEAN_TARGETS = ['Autobean.Properties.C14', 'Autobean.Obligations.Schema']
RULE = ('(1) every layout of <= 5 lines (thorough <= 7; at 7 lines the unclaim/claim cycles run on every 8th layout) over {directive, transaction header, posting, meta line, top-level '
        'comment, indented comment, blank line} that parses as a File, plus random generated ledgers: ownership census on '
        'the real objects (every BlockComment token of the store against every leading/trailing slot and every repeated-field '
        'entry reachable from the root): at most one owner, claimed == (one owner), nothing unowned after default parsing, '
        'parse(auto) == parse(no auto) + auto_claim_comments(), second auto_claim_comments() changes nothing, unclaim then '
        'claim restores the census, and the documented rule evaluated by an independent line-based function on the layouts '
        'where it singles out one owner; (2) random claim/unclaim/auto-claim sequences (explicit comment sets incl. foreign '
        'and already-owned comments) with the census oracle after every call. Every attribution primitive executed on the '
        'way is replayed on the Lean model (lock-step, driver prefix M). (3) Every auto_claim_comments() of (1) on the '
        'document parsed without attribution, and every auto_claim_comments() of (2) (any node, slots partly filled), is '
        'replayed as a WHOLE on the Lean tree walk (driver `M walk`): store + comment-relevant tree before, the real walk, then '
        'store order, claimed flags, every leading/trailing slot, the entries of every repeated field, first/last token of every '
        'block-commentable model and the ORDER of the primitive calls are diffed; the model also reports whether a second walk '
        'changes anything and the layout hypothesis of walk_all_claimed_partial, which the harness evaluates independently '
        'on the real state right before the final claim of the File. '
        'distinct non-trivial = distinct layouts with a comment / distinct (call, outcome, owners before, owners after)')
ASSUMPTIONS = ['ownership slots are read through harness/intro.py (private fields _leading_comment/_trailing_comment, Repeated.items)',
               'the rule oracle judges a comment block only where docs/special/comments.md singles out one owner: not when the '
               'block touches another comment block on the deciding side, not for a comment after the last meta line of a '
               'posting (posting and meta item both end there; the code gives it to the posting)',
               'attribution primitives are traced by wrapping module-level functions/methods of the real package at run time']
TRUSTED_EXTRA = ['the tree walk of auto_claim_comments is modelled (Model/AutoClaim.lean) and tied call by call to the real walk; '
                 'walk_all_claimed_partial / walk_idempotent_partial are proved for a File root under a layout hypothesis on the '
                 'state reached after the directives` own walks (no unclaimed comment left INSIDE a directive; evaluated on every '
                 'explored document by the model and on the real objects) and, for idempotence, under the hypothesis that the '
                 'second run is not refused by the model (reported per document); that the documented order is followed is '
                 'evaluated on the real code (exhaustive small layouts), not proved']
LEVEL_NOTE = ('own_inv, claim_stops_at_claimed, unclaim_claim_restores, walk_own_inv, walk_visible, walk_keeps_owner, '
              'walk_leading_of_model_below, walk_trailing_of_model_above proved on the model; '
              'walk_all_claimed_partial, walk_idempotent_partial under a checked layout hypothesis; the rule is tied by exhaustive layouts')

ALPHABET = 'DTPMCIB'


def P():
    return edits.P()


def _store_sig(root):
    return [(type(t).__name__, t.raw_text) for t in root.token_store]


def _mixins(root):
    return [m for _, m in intro.walk(root) if isinstance(m, internal.SurroundingCommentsMixin)]


def _wrappers(root):
    """(model, wrapper) for every repeated field with interleaving comments."""
    out = []
    for _, m in intro.walk(root):
        if isinstance(m, (base.RawTokenModel, internal.Repeated)):
            continue
        for name in intro.api_props(type(m))['rep']:
            if intro.api_props(type(m))['rep'][name][1]:
                out.append((m, getattr(m, name)))
    return out


def _has_posting(lay, t):
    """Does the transaction whose header is line t have a posting line in its body?"""
    k = t + 1
    while k < len(lay) and lay[k] in 'PMCI':
        if lay[k] == 'P':
            return True
        k += 1
    return False


def layout_checks(text, lay=None, counts=None, cycles=True, walk=None):
    """All part-(1) oracles on one document.  Returns [(signature, description)].
    `walk` (a commentsx.WalkRecorder): the auto_claim_comments() of the document parsed without attribution is also
    recorded for the lock-step with the Lean tree walk."""
    bad = []
    try:
        f1 = P().parse(text, models.File)
    except Exception:
        return None
    for s, d in commentsx.check_census(f1, require_owned=True):
        bad.append((s, d))
    k1 = commentsx.census_key(f1)
    o1 = _store_sig(f1)
    # documented rule
    if lay is not None and any(c in 'CI' for c in lay):
        exp = commentsx.rule(lay)
        fields = {}
        act = commentsx.actual_attribution(f1, lay, fields)
        for i, e in exp.items():
            if e is None:
                if counts is not None:
                    counts['rule:unjudged'] = counts.get('rule:unjudged', 0) + 1
                continue
            a = act.get(i)
            if counts is not None:
                counts['rule:judged:' + e[0]] = counts.get('rule:judged:' + e[0], 0) + 1
            if a == e:
                continue
            k = commentsx.CLASS[lay[i]]
            if a is not None and a[0] in ('leading', 'trailing') and a[1] is not None and 0 <= a[1] < len(lay) \
                    and lay[a[1]] in commentsx.CLASS and commentsx.CLASS[lay[a[1]]] != k:
                # which boundary was crossed: `in-body` = the comment line belongs to the indented body of a directive above it
                # (a dedent mark separates that body from what follows), `ends`/`continues` = whether that body goes on below
                o = a[1]
                inbody = commentsx._enclosing_top(lay, i) is not None if lay[i] == 'I' else commentsx._enclosing_top(lay, i - 1) is not None and i > 0
                cont = commentsx._in_body_continues(lay, i)
                sig = f'rule:cross-indent-leading:{a[0]}:{lay[i]}{"<" if o < i else ">"}{lay[o]}:{"in-body" if inbody else "no-body"}:{"continues" if cont else "ends"}'
            elif lay[i] == 'I' and e[0] == 'trailing' and a is not None and a[0] == 'item' and lay[e[1]] == 'M' and e[1] == i - 1 \
                    and a[1] is not None and a[1] >= 0 and lay[a[1]] == 'T' and commentsx._enclosing_top(lay, e[1]) == a[1] \
                    and fields.get(i) == '_postings' and not _has_posting(lay, a[1]):
                # transaction with >= 1 meta item and zero postings: the indented comment directly after the last meta
                # item became a standalone entry of the postings field
                sig = 'rule:trailing-taken-by-next-field-standalone'
            else:
                j = i
                while j + 1 < len(lay) and lay[j + 1] == lay[i]:
                    j += 1
                above = lay[i - 1] if i > 0 else '^'
                below = lay[j + 1] if j + 1 < len(lay) else '$'
                sig = f'rule:{lay[i]}:{above}>{below}:{e[0]}->{a[0] if a else None}'
            bad.append((sig, f'layout {lay!r}: comment at line {i} documented {e}, attributed {a}'))
    # parse(auto) == parse(no auto) + auto_claim_comments()
    f0 = P().parse(text, models.File, auto_claim_comments=False)
    for s, d in commentsx.check_census(f0):
        bad.append((s, 'auto_claim_comments=False: ' + d))
    if walk is not None:
        walk.run(f0, {'kind': 'layout', 'lay': lay, 'text': text, 'sig': 'parse-vs-later'})
    else:
        f0.auto_claim_comments()
    if commentsx.census_key(f0) != k1 or _store_sig(f0) != o1:
        bad.append(('parse-vs-later', 'parse(auto_claim_comments=True) differs from parse(False) + auto_claim_comments()'))
    # idempotent
    f1.auto_claim_comments()
    if commentsx.census_key(f1) != k1 or _store_sig(f1) != o1:
        bad.append(('not-idempotent', 'a second auto_claim_comments() changed ownership or the store order'))
    if not cycles:
        return bad
    # unclaim then claim restores
    for m in _mixins(f1):
        for side in ('leading', 'trailing'):
            if m.__dict__.get(f'_{side}_comment') is None:
                continue
            c = getattr(m, f'unclaim_{side}_comment')()
            for s, d in commentsx.check_census(f1):
                bad.append((s, f'after unclaim_{side}_comment: ' + d))
            try:
                c2 = getattr(m, f'claim_{side}_comment')()
            except ValueError as e:
                c2 = e
            if c2 is not c or commentsx.census_key(f1) != k1:
                bad.append(('unclaim-claim', f'{type(m).__name__}.unclaim_{side}_comment() then claim_{side}_comment() does not restore the attribution'))
                return bad
    for m, w in _wrappers(f1):
        if not any(isinstance(x, models.BlockComment) for x in w):
            continue
        un = w.unclaim_interleaving_comments()
        for s, d in commentsx.check_census(f1):
            bad.append((s, 'after unclaim_interleaving_comments: ' + d))
        re = w.claim_interleaving_comments()
        if commentsx.census_key(f1) != k1 or len(un) != len(re) or any(a is not b for a, b in zip(un, re)):
            bad.append(('unclaim-claim', f'{type(m).__name__}: unclaim_interleaving_comments() then claim_interleaving_comments() does not restore the attribution'))
            return bad
        # by name, one comment at a time (entries before the first / after the last item included)
        for c in [x for x in w if isinstance(x, models.BlockComment)]:
            try:
                un1 = w.unclaim_interleaving_comments([c])
                mid = commentsx.check_census(f1)
                re1 = w.claim_interleaving_comments([c])
            except ValueError as e:
                bad.append(('unclaim-claim:by-name', f'{type(m).__name__}: unclaim/claim_interleaving_comments([c]) of entry {c.raw_text!r} raised {e}'))
                return bad
            for s_, d_ in mid:
                bad.append((s_, 'after unclaim_interleaving_comments([c]): ' + d_))
            if commentsx.census_key(f1) != k1 or len(un1) != 1 or un1[0] is not c or not any(x is c for x in re1):
                bad.append(('unclaim-claim:by-name', f'{type(m).__name__}: unclaim_interleaving_comments([c]) then claim_interleaving_comments([c]) does not restore the attribution of {c.raw_text!r}'))
                return bad
    return bad


# ---- part (2): random claim / unclaim / auto-claim sequences ---------------------------------------------------------

def gen_seq_op(r, root, foreign):
    mix = _mixins(root)
    wr = _wrappers(root)
    nodes = [m for _, m in intro.walk(root) if not isinstance(m, base.RawTokenModel)]
    comments = [t for t in root.token_store if isinstance(t, models.BlockComment)]
    c = r.random()
    if c < 0.45 and mix:
        i = r.randrange(len(mix))
        meth = r.choice(['claim_leading_comment', 'claim_trailing_comment', 'unclaim_leading_comment', 'unclaim_trailing_comment'])
        op = {'k': 'mixin', 'i': i, 'm': meth}
        if meth.startswith('claim'):
            op['ignore'] = r.random() < 0.5
        return op
    if c < 0.85 and wr:
        i = r.randrange(len(wr))
        meth = r.choice(['claim_interleaving_comments', 'unclaim_interleaving_comments'])
        op = {'k': 'wrapper', 'i': i, 'm': meth, 'set': None}
        if r.random() < 0.5:
            pool = list(range(len(comments)))
            k = r.choice([0, 1, 1, 2, 3])
            op['set'] = r.sample(pool, min(k, len(pool)))
            if r.random() < 0.2:
                op['set'].append(-1)        # a comment of another document
        return op
    if c < 0.93 and (mix or wr):
        # a comment built through one of the public constructors is attached as a leading / trailing comment or inserted
        # as a standalone entry: it is owned from then on, whatever constructor built it
        via = r.choice(['value', 'raw', 'token'])
        if mix and (not wr or r.random() < 0.6):
            return {'k': 'attach', 'i': r.randrange(len(mix)), 'side': r.choice(['leading', 'trailing']), 'via': via}
        return {'k': 'attach-entry', 'i': r.randrange(len(wr)), 'at': r.randrange(0, 4), 'via': via}
    top = [i for i, m in enumerate(mix) if any(m is d for d in root.raw_directives)]
    if c < 0.97 and top:
        # the blanks next to a top-level directive are rewritten through the string accessors (blank lines appear /
        # disappear; inside an indented body a blank line would end the body - another document)
        return {'k': 'spacing', 'i': r.choice(top), 'side': r.choice(['before', 'after']),
                'v': r.choice(['\n\n', '\n', '\r\n\r\n', '\n\n\n', '\n  \n'])}
    return {'k': 'auto', 'i': r.randrange(len(nodes))}


class SelectionExceeded(Exception):
    pass


def later_vs_parse(root):
    """Everything released, then attributed again by auto_claim_comments() on the document as it stands: the same
    attribution as parsing the printed text (the tokens an edit wrote are the tokens the lexer would produce)."""
    for m in _mixins(root):
        for side in ('leading', 'trailing'):
            try:
                getattr(m, f'unclaim_{side}_comment')()
            except Exception:   # noqa: BLE001
                pass
    for m, w in _wrappers(root):
        try:
            w.unclaim_interleaving_comments()
        except Exception:   # noqa: BLE001
            pass
    root.auto_claim_comments()
    text = intro.pr(root)
    try:
        fresh = P().parse(text, models.File, auto_claim_comments=True)
    except Exception:   # noqa: BLE001 - the spacing edit made the text unparsable (C06/C17 matter)
        return []
    a, b = commentsx.census_key(root), commentsx.census_key(fresh)
    if len(a) != len(b):
        return []       # neighbouring comment tokens of the edited document read back as ONE block: not comparable
    if a != b:
        d = next((x, y) for x, y in zip(a + [None], b + [None]) if x != y)
        return [('later-differs-from-parse', f'releasing everything and running auto_claim_comments() on the edited document attributes {d[0]}, parsing its text {d[1]}')]
    return []


def _new_comment(via, indent):
    if via == 'value':
        return models.BlockComment.from_value('attached', indent=indent)
    if via == 'raw':
        return models.BlockComment.from_raw_text(indent + '; attached')
    return P().parse_token(indent + '; attached', models.BlockComment)


def _indent_of(m):
    ind = getattr(m, 'indent', None)
    return ind if isinstance(ind, str) else ''


def apply_seq_op(root, op, foreign, walk=None, replay=None):
    """Returns an outcome tag.  `walk`: auto_claim_comments() calls are recorded for the lock-step with the Lean walk."""
    try:
        if op['k'] == 'mixin':
            m = _mixins(root)[op['i']]
            if op['m'].startswith('claim'):
                r = getattr(m, op['m'])(ignore_if_already_claimed=op['ignore'])
            else:
                r = getattr(m, op['m'])()
            return 'some' if r is not None else 'none'
        if op['k'] == 'wrapper':
            m, w = _wrappers(root)[op['i']]
            comments = [t for t in root.token_store if isinstance(t, models.BlockComment)]
            arg = None
            if op['set'] is not None:
                arg = [foreign if i == -1 else comments[i] for i in op['set'] if i == -1 or i < len(comments)]
            flags = [(t, bool(t.claimed)) for t in comments]
            r = getattr(w, op['m'])(arg)
            if arg is not None:
                # a call that names its comments (the empty selection included) changes the ownership of those only
                other = [t for t, c in flags if bool(t.claimed) != c and not any(t is a for a in arg)]
                if other:
                    raise SelectionExceeded(f'{op["m"]} with {len(arg)} named comment(s) changed the ownership of {len(other)} comment(s) it did not name '
                                            f'(returned {len(r)})')
            return f'n{min(len(r), 3)}'
        if op['k'] == 'spacing':
            m = _mixins(root)[op['i']]
            if not hasattr(m, 'spacing_' + op['side']):
                return 'no-accessor'
            setattr(m, 'spacing_' + op['side'], op['v'])
            return 'set'
        if op['k'] == 'attach':
            m = _mixins(root)[op['i']]
            if getattr(m, f'raw_{op["side"]}_comment') is not None:
                return 'occupied'
            setattr(m, f'raw_{op["side"]}_comment', _new_comment(op['via'], _indent_of(m)))
            return 'attached'
        if op['k'] == 'attach-entry':
            m, w = _wrappers(root)[op['i']]
            items = [x for x in w if not isinstance(x, models.BlockComment)]
            w.insert(min(op['at'], len(w)), _new_comment(op['via'], _indent_of(items[0]) if items else ''))
            return 'attached'
        nodes = [m for _, m in intro.walk(root) if not isinstance(m, base.RawTokenModel)]
        if walk is not None:
            walk.run(nodes[op['i']], replay or {})
        else:
            nodes[op['i']].auto_claim_comments()
        return 'ok'
    except SelectionExceeded as e:
        return 'SELECTION-EXCEEDED: ' + str(e)
    except ValueError as e:
        return edits.exc_tag(e)
    except IndexError:
        return 'stale-op'


def run_sequence(text, auto, ops):
    """Replays a sequence; returns [(signature, description)] of the first failing step."""
    root = P().parse(text, models.File, auto_claim_comments=auto)
    foreign = P().parse('; foreign\n', models.File, auto_claim_comments=False)
    fc = [t for t in foreign.token_store if isinstance(t, models.BlockComment)][0]
    for n, op in enumerate(ops):
        out = apply_seq_op(root, op, fc)
        if isinstance(out, str) and out.startswith('SELECTION-EXCEEDED'):
            return [('selection-exceeded', f'after step {n} ({op}): {out}')]
        bad = commentsx.check_census(root)
        if any(o['k'] == 'spacing' for o in ops[:n + 1]):
            bad = [x for x in bad if 'not-adjacent' not in x[0]]    # a blank line the user put there by hand
        if bad:
            return [(s, f'after step {n} ({op}): {d}') for s, d in bad]
    if any(op['k'] == 'spacing' for op in ops) and not any(op['k'].startswith('attach') for op in ops):
        return later_vs_parse(root)
    return []


def sequences(ctx, ndocs, nops, walk=None):
    r = ctx.rng
    lay_pool = ['CDCD', 'DIMI', 'TIMIPI', 'TPMIC', 'CBCDICD', 'TIP', 'TPIPC', 'DMIC', 'TMIPIMI', 'ICD', 'TCP']
    for s in range(ndocs):
        if r.random() < 0.35:
            text = commentsx.layout_text(r.choice(lay_pool))
        else:
            text = docs.gen_file(r, r.choice([1, 2, 3, 4]))
        auto = r.random() < 0.5
        try:
            root = P().parse(text, models.File, auto_claim_comments=auto)
        except Exception:
            ctx.count('doc:rejected')
            continue
        foreign = P().parse('; foreign\n', models.File, auto_claim_comments=False)
        fc = [t for t in foreign.token_store if isinstance(t, models.BlockComment)][0]
        ops = []
        for step in range(nops):
            op = gen_seq_op(r, root, fc)
            ops.append(op)
            before = sum(1 for t in root.token_store if isinstance(t, models.BlockComment) and t.claimed)
            out = apply_seq_op(root, op, fc, walk, {'kind': 'sequence', 'text': text, 'auto': auto, 'ops': list(ops)})
            after = sum(1 for t in root.token_store if isinstance(t, models.BlockComment) and t.claimed)
            ctx.count(f'seq:{op["k"]}:{op.get("m", "auto_claim_comments")}:{str(out)[:18]}')
            ctx.case(('seq', op['k'], op.get('m'), out, min(before, 4), min(after, 4), op.get('set') is not None) if before != after or out not in ('none', 'n0', 'ok') else None)
            bad = commentsx.check_census(root)
            if any(o['k'] == 'spacing' for o in ops):
                bad = [x for x in bad if 'not-adjacent' not in x[0]]    # a blank line the user put there by hand
            if isinstance(out, str) and out.startswith('SELECTION-EXCEEDED'):
                bad = [('selection-exceeded', out)]
                out = 'selection-exceeded'
            if bad:
                sig, what = bad[0]
                _fail(ctx, sig, f'{what} after {op}', {'kind': 'sequence', 'text': text, 'auto': auto, 'ops': _shrink(text, auto, ops, sig)})
                break
        else:
            if any(op['k'] == 'spacing' for op in ops) and not any(op['k'].startswith('attach') for op in ops):
                bad = later_vs_parse(root)
                ctx.count('seq:later-vs-parse')
                if bad:
                    sig, what = bad[0]
                    _fail(ctx, sig, what, {'kind': 'sequence', 'text': text, 'auto': auto, 'ops': _shrink(text, auto, ops, sig)})


def _shrink(text, auto, ops, sig):
    cur = list(ops)
    i = 0
    while i < len(cur) and len(cur) > 1:
        cand = cur[:i] + cur[i + 1:]
        try:
            f = run_sequence(text, auto, cand)
        except Exception:
            f = []
        if any(s == sig for s, _ in f):
            cur = cand
        else:
            i += 1
    return cur


# ---- scripted sequences: every splice / shift path of the primitives at least once, fully traced ------------------------

def _mixin_index(root, cls, k=0):
    idx = [i for i, m in enumerate(_mixins(root)) if type(m).__name__ == cls]
    return idx[k]


def _wrapper_index(root, cls, field):
    for i, (m, w) in enumerate(_wrappers(root)):
        if type(m).__name__ == cls and any(getattr(m, n) is w for n in intro.api_props(type(m))['rep'] if n.endswith(field)):
            return i
    return 0


def _foreign():
    f = P().parse('; foreign\n', models.File, auto_claim_comments=False)
    return [t for t in f.token_store if isinstance(t, models.BlockComment)][0]


def _node_index(root, cls, k=0):
    nodes = [m for _, m in intro.walk(root) if not isinstance(m, base.RawTokenModel)]
    return [i for i, m in enumerate(nodes) if type(m).__name__ == cls][k]


def scripted(ctx, walk=None):
    """(layout, [(receiver kind, class, k/field, method, ignore/set)]) on documents parsed WITHOUT attribution.
    Receiver kind 'a' = `auto_claim_comments()` of the k-th node of that class (recorded for the walk lock-step): the
    scripts below leave a placeholder between a node and an unclaimed comment first, so that the walk has to move it."""
    L, T = 'claim_leading_comment', 'claim_trailing_comment'
    UL, UT = 'unclaim_leading_comment', 'unclaim_trailing_comment'
    CI, UI = 'claim_interleaving_comments', 'unclaim_interleaving_comments'
    scripts = [
        # forward splice with a placeholder in between (postings placeholder after the meta item's EOL), then the
        # backward splice over the moved placeholder, then the shift in front of a repeated field
        ('TMIP', [('m', 'MetaItem', 0, T, False), ('m', 'MetaItem', 0, UT, None), ('m', 'Posting', 0, L, False),
                  ('m', 'Posting', 0, UL, None), ('w', 'Transaction', 'postings_with_comments', CI, None),
                  ('w', 'Transaction', 'postings_with_comments', UI, None), ('m', 'MetaItem', 0, T, True)]),
        ('TMI', [('m', 'MetaItem', 0, T, False), ('m', 'MetaItem', 0, UT, None),
                 ('w', 'Transaction', 'postings_with_comments', CI, None), ('w', 'Transaction', 'postings_with_comments', UI, None),
                 ('w', 'Transaction', 'meta_with_comments', CI, None), ('m', 'MetaItem', 0, T, False)]),
        ('TPMI', [('m', 'MetaItem', 0, T, False), ('m', 'MetaItem', 0, UT, None), ('m', 'Posting', 0, T, False),
                  ('m', 'Posting', 0, UT, None), ('w', 'Posting', 'meta_with_comments', CI, None)]),
        ('DMIC', [('m', 'MetaItem', 0, T, False), ('m', 'Open', 0, T, False), ('m', 'MetaItem', 0, UT, None),
                  ('w', 'Open', 'meta_with_comments', CI, None), ('m', 'MetaItem', 0, T, False)]),
        ('TIMIPIC', [('w', 'Transaction', 'meta_with_comments', CI, None), ('w', 'Transaction', 'postings_with_comments', CI, None),
                     ('m', 'Transaction', 0, T, False), ('w', 'Transaction', 'meta_with_comments', UI, None),
                     ('m', 'MetaItem', 0, L, False), ('m', 'MetaItem', 0, T, False), ('m', 'Posting', 0, L, True)]),
        # claim by name of a comment after the last entry / before the placeholder of the field (fix: ddcb44f)
        ('DBC', [('w', 'File', 'directives_with_comments', CI, [0]), ('w', 'File', 'directives_with_comments', UI, [0]),
                 ('w', 'File', 'directives_with_comments', CI, [0]), ('w', 'File', 'directives_with_comments', CI, [0, -1])]),
        ('TMIPI', [('m', 'MetaItem', 0, T, False), ('m', 'MetaItem', 0, UT, None),
                   ('w', 'Transaction', 'postings_with_comments', CI, [0, 1]), ('w', 'Transaction', 'postings_with_comments', UI, [1]),
                   ('w', 'Transaction', 'postings_with_comments', CI, [1]), ('w', 'Transaction', 'postings_with_comments', UI, [0]),
                   ('m', 'MetaItem', 0, T, False)]),
        ('CDCDC', [('w', 'File', 'directives_with_comments', CI, None), ('m', 'Open', 0, L, False), ('m', 'Open', 0, L, True),
                   ('w', 'File', 'directives_with_comments', UI, None), ('m', 'Open', 1, L, False), ('m', 'Open', 0, T, True)]),
        # walks that move placeholders: the meta item takes `; c` (the postings placeholder is spliced behind the comment) and
        # gives it back; then the whole file / the posting / the transaction / the meta item walks
        ('TMIP', [('m', 'MetaItem', 0, T, False), ('m', 'MetaItem', 0, UT, None), ('a', 'File', 0, None, None), ('a', 'File', 0, None, None)]),
        ('TMIP', [('m', 'MetaItem', 0, T, False), ('m', 'MetaItem', 0, UT, None), ('a', 'Posting', 0, None, None),
                  ('a', 'Transaction', 0, None, None), ('a', 'File', 0, None, None)]),
        ('TMIP', [('m', 'MetaItem', 0, T, False), ('m', 'MetaItem', 0, UT, None), ('a', 'MetaItem', 0, None, None),
                  ('a', 'Repeated', 0, None, None), ('a', 'File', 0, None, None)]),
        ('TMI', [('m', 'MetaItem', 0, T, False), ('m', 'MetaItem', 0, UT, None), ('a', 'Transaction', 0, None, None), ('a', 'File', 0, None, None)]),
        ('TMIPIC', [('m', 'MetaItem', 0, T, False), ('m', 'MetaItem', 0, UT, None), ('m', 'Posting', 0, T, False), ('m', 'Transaction', 0, T, False),
                    ('m', 'Posting', 0, UT, None), ('a', 'File', 0, None, None)]),
        ('TPMI', [('m', 'MetaItem', 0, T, False), ('m', 'MetaItem', 0, UT, None), ('a', 'Posting', 0, None, None), ('a', 'File', 0, None, None)]),
        ('DMIC', [('m', 'MetaItem', 0, T, False), ('m', 'Open', 0, T, False), ('m', 'MetaItem', 0, UT, None), ('m', 'Open', 0, UT, None),
                  ('a', 'Open', 0, None, None), ('a', 'File', 0, None, None)]),
        ('TIMIPIC', [('w', 'Transaction', 'meta_with_comments', CI, None), ('w', 'Transaction', 'postings_with_comments', CI, None),
                     ('w', 'Transaction', 'meta_with_comments', UI, None), ('a', 'File', 0, None, None)]),
        ('TIMIPIC', [('w', 'Transaction', 'postings_with_comments', CI, None), ('w', 'Transaction', 'postings_with_comments', UI, None),
                     ('w', 'Transaction', 'meta_with_comments', CI, None), ('w', 'Transaction', 'meta_with_comments', UI, [0]),
                     ('a', 'Transaction', 0, None, None), ('a', 'File', 0, None, None)]),
        ('CDCDC', [('w', 'File', 'directives_with_comments', CI, None), ('w', 'File', 'directives_with_comments', UI, [1]),
                   ('a', 'File', 0, None, None)]),
    ]
    for lay, steps in scripts:
        text = commentsx.layout_text(lay)
        root = P().parse(text, models.File, auto_claim_comments=False)
        done = []
        for kind, cls, k, meth, arg in steps:
            try:
                if kind == 'a':
                    op = {'k': 'auto', 'i': _node_index(root, cls, k)}
                    meth = 'auto_claim_comments'
                elif kind == 'm':
                    op = {'k': 'mixin', 'i': _mixin_index(root, cls, k), 'm': meth}
                    if meth.startswith('claim'):
                        op['ignore'] = bool(arg)
                else:
                    op = {'k': 'wrapper', 'i': _wrapper_index(root, cls, k), 'm': meth, 'set': arg}
            except IndexError:
                ctx.count('scripted:stale-step')
                continue
            done.append(op)
            out = apply_seq_op(root, op, _foreign(), walk, {'kind': 'sequence', 'text': text, 'auto': False, 'ops': list(done)})
            ctx.count(f'scripted:{meth}:{out}')
            ctx.case(('scripted', lay, len(done), out))
            bad = commentsx.check_census(root)
            if bad:
                _fail(ctx, bad[0][0], f'{bad[0][1]} after scripted {op} on {lay}', {'kind': 'sequence', 'text': text, 'auto': False, 'ops': done})
                break


def _fail(ctx, sig, what, replay):
    """At most 3 reports per signature (the list of failures is capped; one class must not crowd out another)."""
    k = 'fails:C14:' + sig
    ctx.count(k)
    if ctx.dist[k] <= 3:
        ctx.oracle_fail(f'C14:{sig}', what, replay)


# ---- the check ---------------------------------------------------------------------------------------------------------

def layouts(ctx, maxlen, full_upto=6, walk=None):
    """Exhaustive; layouts longer than `full_upto` lines run the unclaim/claim cycles on a 1/8 sample only (budget)."""
    counts = {}
    n = 0
    for k in range(1, maxlen + 1):
        for tup in itertools.product(ALPHABET, repeat=k):
            lay = ''.join(tup)
            text = commentsx.layout_text(lay)
            n += 1
            # the walk lock-step: every layout of <= 5 lines, every 3rd of 6 lines, every 24th of 7 lines (budget)
            w = walk if (k <= 5 or (k == 6 and n % 3 == 0) or n % 24 == 0) else None
            bad = layout_checks(text, lay, counts, cycles=(k <= full_upto or n % 8 == 0), walk=w)
            if bad is None:
                ctx.count('layout:rejected')
                continue
            ctx.count('layout:accepted')
            has = any(c in 'CI' for c in lay)
            ctx.case(('layout', lay) if has else None, sample={'layout': lay, 'text': text} if has and ctx.evaluations % 997 == 0 else None)
            for sig, what in bad:
                _fail(ctx, sig, what, {'kind': 'layout', 'lay': lay, 'text': text, 'sig': sig})
    for k, v in counts.items():
        ctx.count(k, v)


def ledgers(ctx, n, walk=None):
    r = ctx.rng
    for _ in range(n):
        text = docs.gen_file(r, r.choice([1, 2, 3, 5, 8]))
        bad = layout_checks(text, walk=walk)
        if bad is None:
            ctx.count('ledger:rejected')
            continue
        ctx.count('ledger:accepted')
        ncom = text.count(';')
        ctx.case(('ledger', min(ncom, 6), text.count('\n') // 8) if ncom else None)
        for sig, what in bad:
            _fail(ctx, sig, what, {'kind': 'layout', 'lay': None, 'text': text, 'sig': sig})


def _copy_census(ctx):
    """"At all times": a deep copy of a document (or of one directive) whose comments are partly unowned carries the
    same ownership and flags (the copy is a document of its own)."""
    import copy
    import claimprobes
    texts = list(claimprobes.TEXTS) + list(claimprobes.HANDOVER_TEXTS) + ['; a\n\n2000-01-01 open Assets:A\n; b\n\n; c\n']
    for text in texts:
        for auto in (False, True):
            f = P().parse(text, models.File, auto_claim_comments=auto)
            nodes = [f] + [d for d in f.raw_directives_with_comments if not isinstance(d, models.BlockComment)]
            for n in nodes:
                c = copy.deepcopy(n)
                ctx.case(('copy-census', auto, type(n).__name__, text[:16]))
                flags_src = [t.claimed for t in n.tokens if isinstance(t, models.BlockComment)]
                flags_cpy = [t.claimed for t in c.tokens if isinstance(t, models.BlockComment)]
                bad = [('copy:' + s_, d) for s_, d in commentsx.check_census(c)] if isinstance(n, models.File) else []
                if flags_src != flags_cpy:
                    bad.append(('copy:claimed-flags-differ', f'deep copy of {type(n).__name__} has claimed flags {flags_cpy}, original {flags_src}'))
                if bad:
                    ctx.oracle_fail('C14:' + bad[0][0], bad[0][1], {'mode': 'copy-census', 'text': text, 'auto': auto})


EQUAL_TEXT_DOCS = [
    '; ----\n\n2000-01-01 open Assets:A\n\n; ----\n\n2000-01-02 close Assets:A\n\n; ----\n',
    '2000-01-01 *\n  ; --\n  aa: 1\n  ; --\n  bb: 2\n  ; --\n  Assets:A  1 USD\n  ; --\n  Assets:B\n  ; --\n',
    '2000-01-01 open Assets:A\n  ; same\n  aa: 1\n  ; same\n  bb: 2\n  ; same\n',
]


def _equal_text_probes(ctx):
    """Standalone entries with IDENTICAL text (separator lines): every selective release / claim names a comment by identity -
    each entry in turn is released alone, released and claimed again, released after its namesakes: census after every
    step."""
    for text in EQUAL_TEXT_DOCS:
        probe = P().parse(text, models.File, auto_claim_comments=True)
        ncom = sum(1 for t in probe.token_store if isinstance(t, models.BlockComment))
        nw = len(_wrappers(probe))
        for wi in range(nw):
            for c in range(ncom):
                for ops in ([{'k': 'wrapper', 'i': wi, 'm': 'unclaim_interleaving_comments', 'set': [c]}],
                            [{'k': 'wrapper', 'i': wi, 'm': 'unclaim_interleaving_comments', 'set': [c]},
                             {'k': 'wrapper', 'i': wi, 'm': 'claim_interleaving_comments', 'set': [c]}],
                            [{'k': 'wrapper', 'i': wi, 'm': 'unclaim_interleaving_comments', 'set': [c]},
                             {'k': 'auto', 'i': 0}]):
                    try:
                        bad = run_sequence(text, True, ops)
                    except Exception as e:   # noqa: BLE001
                        bad = [(f'equal-text-probe-raises:{type(e).__name__}', repr(e)[:200])]
                    ctx.case(('equal-text', text[:12], wi, c, len(ops)))
                    if bad:
                        _fail(ctx, bad[0][0], bad[0][1] + ' [entries with identical text]', {'kind': 'sequence', 'text': text, 'auto': True, 'ops': ops})
                        return


def run(ctx):
    import claimprobes
    _equal_text_probes(ctx)
    claimprobes.run_handover(ctx, ['census'])
    _copy_census(ctx)
    tr = commentsx.Tracer(limit=200, sample=1.0, rng=ctx.rng)
    walk = commentsx.WalkRecorder(limit=ctx.scale(12000, 50000), max_tokens=ctx.scale(1500, 4000))
    with tr:
        scripted(ctx, walk=walk)
        tr.limit, tr.sample = ctx.scale(2500, 15000), ctx.scale(0.5, 0.2)
        sequences(ctx, ctx.scale(250, 2000), ctx.scale(12, 25), walk=walk)
        tr.limit, tr.sample = ctx.scale(6000, 40000), ctx.scale(0.03, 0.01)
        layouts(ctx, ctx.scale(5, 7), walk=walk)
        ledgers(ctx, ctx.scale(300, 3000), walk=walk)
    tr.diff(ctx, 'comments-lockstep')
    walk.diff(ctx, 'auto-claim-walk')


def search(ctx, hints):
    scripted(ctx)
    sequences(ctx, 1500, 20)
    layouts(ctx, 5)
    ledgers(ctx, 1000)


def replay(ctx, data):
    rep = data.get('replay') or data.get('first_diverging_replay') or data
    if rep.get('kind') == 'sequence':
        return not run_sequence(rep['text'], rep['auto'], rep['ops'])
    if rep.get('kind') == 'layout':
        bad = layout_checks(rep['text'], rep.get('lay'))
        return not bad or not any(s == rep.get('sig') for s, _ in bad)
    return False
