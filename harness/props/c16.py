"""C16 - the editor writes exactly the edited files, exactly, and nothing else.

Every scenario is a JSON-able `spec` (file tree with exact contents, how the root path is spelled, what the body
does to the mapping, whether it raises).  `run_scenario(spec)` materialises it in a fresh temporary directory,
runs the real `Editor.edit_file_recursive` / `Editor.edit_file`, and judges the real file system (bytes, mtimes,
existence of every file and directory before/after) directly against the property.  The same scenario, with the
include relation computed from the real tree (per file: the normalised glob matches in directive order), is fed to
the Lean model (`lean/Driver/EditorD.lean`); visit order, final file system and event log are diffed."""
from __future__ import annotations
import datetime
import glob
import io
import os
import pathlib
import posixpath
import re
import shutil
import signal
import tempfile

from common import enc_text
import docs
from autobean_refactor import editor as editor_lib, models, parser as parser_lib, printer

ID = 'C16'
PROPERTY_FILE = 'Autobean/Properties/C16.lean'
LEAN_TARGETS = ['Autobean.Properties.C16', 'Autobean.Obligations.Editor', 'Autobean.Obligations.CachesEditor']
RULE = ('random ledger trees in fresh temporary directories: 1-8 files in nested directories (contents from the ledger '
        'generator, LF or CRLF written in binary mode, with/without final newline), include directives forming nesting, '
        'globs (dir/*.bean, **/*.bean, ?-patterns), cycles, self-includes, diamonds, shared includes, duplicate include '
        'lines, ./ and a/../a spellings, absolute include filenames, a symlinked directory (alias/x = sub/x), includes matching nothing; root spelled absolute / dir/main.bean / ./dir/main.bean / '
        'bare main.bean / dir/../dir/main.bean / pathlib.Path; body edits one token value in a random subset of files '
        '(account, date, string, inline or block comment through the model API), removes keys, adds new keys (parsed or '
        'constructed models, in existing or new sub-directories), replaces a model, raises at the end or not; also '
        'edit_file on the root.  Bytes, st_mtime_ns and existence of every file and directory are compared before/after. '
        'distinct non-trivial = distinct (mode, spelling, graph features, line endings, edited/removed/added, raises, outcome)')
ASSUMPTIONS = [
    'a file is identified by os.path.realpath; its key in the mapping is the spelling under which the walk meets it first',
    'symbolic links only to directories (two spellings of the files below), no hidden files, glob patterns only match '
    'regular files',
    'the default text encoding of the interpreter is UTF-8 (file contents are compared as UTF-8 bytes)',
    'the body does not touch the file system itself',
]
TRUSTED_EXTRA = ['C16: the OS, the file system, glob, os.path.normpath/join and UTF-8 decoding are runtime behaviour the model '
                 'only mirrors (the include relation is handed to the model as data computed with glob on the real tree)']
LEVEL_NOTE = ('Trusted: Lean kernel (axioms propext, Classical.choice, Quot.sound only), the correspondence harness and the byte/mtime oracle; '
              'editor.py is hand-transcribed (modelled, not verified); the OS, the file system, glob, normpath/realpath and UTF-8 decoding are '
              'outside the model: include matches and path identities are computed on the real tree and handed to the model as data.')
TECHNIQUE = 'Lean 4 model of editor.py over an abstract file system + whole-scenario correspondence in temporary directories'

TMPMARK = '@@TMPROOT@@'
OLD_NS = 1_500_000_000 * 10**9          # mtime given to every file before the block is entered
SPELLINGS = ['abs', 'rel-dir', 'dot', 'bare', 'nonnorm', 'pathlib']
TOKEN_CLASSES = ('Account', 'Date', 'EscapedString', 'InlineComment', 'BlockComment')

_PARSER = None


def P():
    global _PARSER
    if _PARSER is None:
        _PARSER = parser_lib.Parser()
    return _PARSER


def pr(m) -> str:
    return printer.print_model(m, io.StringIO()).getvalue()


class _Boom(Exception):
    """Raised by the body of a scenario with raises=True."""


class _Runaway(BaseException):
    """The editor parsed far more texts than there are files (include loop not cut)."""


class _Timeout(BaseException):
    pass


class CountingParser:
    """Public hook: `Editor(parser=...)`.  Counts how many times the editor parses."""

    def __init__(self, limit):
        self.calls = []
        self.limit = limit

    def parse(self, text, target, *a, **kw):
        self.calls.append(text)
        if len(self.calls) > self.limit:
            raise _Runaway()
        return P().parse(text, target, *a, **kw)


# ----------------------------------------------------------------------------------------------- generation

def _parses(text):
    try:
        P().parse(text, models.File)
        return True
    except Exception:
        return False


def _chunk(rng, nl, n):
    """A parseable piece of ledger of about n directives without include directives, ending with nl (or empty)."""
    for _ in range(30):
        t = docs.gen_file(rng, n, newline=nl, final_newline=True)
        lines = t.split(nl)
        if any(re.match(r'\s*include\b', l) for l in lines):
            lines = [l for l in lines if not re.match(r'\s*include\b', l)]
            t = nl.join(lines)
        if t and not t.endswith(nl):
            t += nl
        if _parses(t):
            return t
    return f'2000-01-01 open Assets:Cash{nl}'


def _nonnorm(rel):
    d, b = posixpath.split(rel)
    if d and posixpath.basename(d) not in ('..', '.', ''):
        return f'{d}/../{posixpath.basename(d)}/{b}'
    return './' + rel


def _include_pattern(rng, src_dir, target, all_files, abs_ok):
    """A filename/glob for an include directive in a file of directory `src_dir` that matches (at least) `target`."""
    rel = posixpath.relpath(target, src_dir or '.')
    d, b = posixpath.split(rel)
    stem, ext = posixpath.splitext(b)
    under = not rel.startswith('..')
    forms = ['direct'] * 5 + ['dot', 'nonnorm', 'glob-dir', 'glob-dir', 'glob-q']
    if under:
        forms += ['rec-ext', 'rec-ext', 'rec-name']
    if abs_ok:
        forms += ['abs']
    f = rng.choice(forms)
    j = lambda x: (d + '/' + x) if d else x
    if f == 'direct':
        return rel
    if f == 'dot':
        return rel if rel.startswith('..') else './' + rel
    if f == 'nonnorm':
        return _nonnorm(rel)
    if f == 'glob-dir':
        return j('*' + ext)
    if f == 'glob-q':
        return j('?' * len(stem) + ext) if rng.random() < 0.5 else j('[a-z]*' + ext)
    if f == 'rec-ext':
        return '**/*' + ext
    if f == 'rec-name':
        return '**/' + b
    return TMPMARK + '/' + target


def gen_spec(rng, *, mode=None, spelling=None):
    mode = mode or ('one' if rng.random() < 0.12 else 'rec')
    base = rng.choice(['', 'ledger', 'ledger', 'books/y2024'])
    spelling = spelling or rng.choice(SPELLINGS)
    if spelling == 'rel-dir' and not base:
        base = 'ledger'
    jb = lambda *xs: posixpath.join(base, *xs) if base else posixpath.join(*xs)
    subdirs = ['', '', 'sub', 'sub', 'sub/deep', 'inc', 'inc/y']
    n = rng.choice([1, 2, 3, 3, 4, 4, 5, 5, 6, 7, 8])
    rels = [jb('main.bean')]
    names = list('abcdefgh')
    rng.shuffle(names)
    for i in range(1, n):
        r = rng.random()
        ext = '.bean' if rng.random() < 0.85 else '.beancount'
        if base and r < 0.15:
            rels.append(posixpath.join(posixpath.dirname(base), 'shared', names[i - 1] + ext) if posixpath.dirname(base)
                        else posixpath.join('shared', names[i - 1] + ext))
        else:
            rels.append(jb(rng.choice(subdirs), names[i - 1] + ext).replace('//', '/'))
    rels = [posixpath.normpath(r) for r in rels]
    abs_ok = True
    includes = {r: [] for r in rels}
    reach = [rels[0]]
    for i in range(1, n):
        if rng.random() < 0.85:
            src = rng.choice(reach)
            includes[src].append(_include_pattern(rng, posixpath.dirname(src), rels[i], rels, abs_ok))
            reach.append(rels[i])
    feats = set()
    for _ in range(rng.choice([0, 0, 1, 1, 2, 3])):
        src = rng.choice(rels)
        r = rng.random()
        if r < 0.35:                                   # back edge: cycle
            tgt = rng.choice(reach)
            feats.add('back')
        elif r < 0.5:                                  # self-include
            tgt = src
            feats.add('self')
        elif r < 0.65 and includes[src]:               # duplicate include line
            includes[src].insert(rng.randrange(len(includes[src]) + 1), rng.choice(includes[src]))
            feats.add('dup')
            continue
        else:                                          # shared include / diamond
            tgt = rng.choice(rels)
            feats.add('shared')
        includes[src].insert(rng.randrange(len(includes[src]) + 1),
                             _include_pattern(rng, posixpath.dirname(src), tgt, rels, abs_ok))
    nomatch = None
    if mode == 'rec' and rng.random() < 0.07:
        src = rng.choice(reach)
        pat = rng.choice(['missing.bean', 'nomatch-*.bean', 'sub/nothing/*.bean', '**/*.nothing'])
        includes[src].insert(rng.randrange(len(includes[src]) + 1), pat)
        nomatch = pat
    links = []
    sub = jb('sub')
    if any(r.startswith(sub + '/') for r in rels) and rng.random() < 0.25:
        # a symbolic link to a directory: `alias/x.bean` and `sub/x.bean` are two spellings of one file
        links.append({'rel': jb('alias'), 'target': 'sub'})
        feats.add('symlink')
        for r in rels:
            includes[r] = [re.sub(r'(^|/)sub/', r'\1alias/', p, count=1) if rng.random() < 0.5 else p for p in includes[r]]
    files = []
    for r in rels:
        nl = rng.choice(['\n', '\n', '\r\n'])
        fin = rng.random() < 0.8
        parts = []
        incs = includes[r]
        for k in range(len(incs) + 1):
            c = _chunk(rng, nl, rng.choice([0, 1, 1, 2, 3]))
            parts.append(c)
            if k < len(incs):
                if incs[k] == nomatch and ''.join(parts):
                    parts.append(nl)                  # a blank line: no comment can be attributed to the directive
                parts.append(f'include "{incs[k]}"' + rng.choice(['', '', ' ; inc']) + nl)
        text = ''.join(parts)
        if not fin and text.endswith(nl) and _parses(text[:-len(nl)]):
            text = text[:-len(nl)]
        if not _parses(text):
            text = ''.join(f'include "{p}"{nl}' for p in incs) + f'2000-01-01 open Assets:Cash{nl}'
        files.append({'rel': r, 'text': text, 'includes': list(incs)})
    spec = {'mode': mode, 'base': base, 'spelling': spelling, 'files': files, 'links': links, 'root': rels[0],
            'root_missing': rng.random() < 0.02, 'actions': [], 'raises': rng.random() < 0.2, 'features': sorted(feats)}
    _plan_actions(rng, spec)
    return spec


def _editable_tokens(text):
    f = P().parse(text, models.File)
    return [(i, type(t).__name__) for i, t in enumerate(f.tokens) if type(t).__name__ in TOKEN_CLASSES]


def _new_value(rng, cls):
    if cls == 'Account':
        return rng.choice(['Assets:Edited', 'Expenses:Renamed:Ünï', 'Equity:X'])
    if cls == 'Date':
        return rng.choice(['2031-12-31', '1999-02-28'])
    if cls == 'EscapedString':
        return rng.choice(['edited', 'éd "q" \\ z', 'two\nlines'])
    if cls == 'InlineComment':
        return rng.choice(['edited note', 'x'])
    return rng.choice(['edited block', 'zz'])


def _plan_actions(rng, spec):
    """Chooses what the body does; needs the reachable set, computed on a scratch materialisation."""
    tmp = os.path.realpath(tempfile.mkdtemp(prefix='c16g'))
    try:
        materialise(spec, tmp)
        reach, err = canonical_reach(spec, tmp)
    finally:
        shutil.rmtree(tmp, ignore_errors=True)
    by_rel = {f['rel']: f for f in spec['files']}
    actions = []
    if spec['mode'] == 'one':
        if rng.random() < 0.75:
            toks = _editable_tokens(by_rel[spec['root']]['text'])
            if toks:
                i, cls = rng.choice(toks)
                actions.append({'kind': 'edit', 'file': spec['root'], 'tok': i, 'cls': cls, 'value': _new_value(rng, cls)})
        spec['actions'] = actions
        return
    pool = list(reach)
    rng.shuffle(pool)
    n_edit = rng.choice([0, 1, 1, 2, 3, len(pool)])
    n_del = rng.choice([0, 0, 1, 1, 2])
    for r in pool[:n_edit]:
        toks = _editable_tokens(by_rel[r]['text'])
        if toks:
            i, cls = rng.choice(toks)
            actions.append({'kind': 'edit', 'file': r, 'tok': i, 'cls': cls, 'value': _new_value(rng, cls)})
    rest = pool[n_edit:]
    for r in rest[:n_del]:
        actions.append({'kind': 'del', 'file': r})
    rest = rest[n_del:]
    if rest and rng.random() < 0.15:
        nl = rng.choice(['\n', '\r\n'])
        actions.append({'kind': 'replace', 'file': rest[0], 'text': _chunk(rng, nl, 2)})
    base = spec['base']
    existing = {f['rel'] for f in spec['files']}
    for k in range(rng.choice([0, 0, 1, 1, 2])):
        d = rng.choice(['', 'sub', 'newdir', 'newdir/deeper', 'inc/fresh'])
        rel = posixpath.normpath(posixpath.join(base, d, f'added{k}.bean'))
        if rel in existing:
            continue
        if rng.random() < 0.5:
            actions.append({'kind': 'add', 'rel': rel, 'how': 'parsed', 'text': _chunk(rng, rng.choice(['\n', '\r\n']), 2)})
        else:
            actions.append({'kind': 'add', 'rel': rel, 'how': 'constructed',
                            'items': [[rng.choice(['open', 'close']), '2020-01-0%d' % (j + 1), rng.choice(docs.ACCOUNTS)]
                                      for j in range(rng.choice([0, 1, 2]))]})
    rng.shuffle(actions)
    spec['actions'] = actions


# ----------------------------------------------------------------------------------------------- materialisation

def _text_of(f, tmp):
    return f['text'].replace(TMPMARK, tmp)


def materialise(spec, tmp):
    for f in spec['files']:
        p = os.path.join(tmp, f['rel'])
        os.makedirs(os.path.dirname(p), exist_ok=True)
        with open(p, 'wb') as fh:
            fh.write(_text_of(f, tmp).encode('utf-8'))
    for l in spec.get('links', []):
        os.symlink(l['target'], os.path.join(tmp, l['rel']))
    for dp, dns, fns in os.walk(tmp):
        for x in fns + dns:
            os.utime(os.path.join(dp, x), ns=(OLD_NS, OLD_NS))
    os.utime(tmp, ns=(OLD_NS, OLD_NS))


def snapshot(tmp):
    files, dirs = {}, set()
    for dp, dns, fns in os.walk(tmp):
        for d in dns:
            p = os.path.join(dp, d)
            dirs.add(os.path.relpath(p, tmp) + (' -> ' + os.readlink(p) if os.path.islink(p) else ''))
        for fn in fns:
            p = os.path.join(dp, fn)
            with open(p, 'rb') as fh:
                files[os.path.relpath(p, tmp)] = (fh.read(), os.stat(p).st_mtime_ns)
    return files, dirs


def _patterns(spec, tmp):
    return {f['rel']: [p.replace(TMPMARK, tmp) for p in f['includes']] for f in spec['files']}


def canonical_reach(spec, tmp):
    """Independent walk over the include graph on canonical absolute paths (spelling-free).
    Returns (reachable rels in walk order, None) or (visited so far, (rel, pattern)) when an include matches nothing."""
    pats = _patterns(spec, tmp)
    seen, order = set(), []
    queue = [spec['root']]
    while queue:
        r = queue.pop(0)
        if r in seen:
            continue
        seen.add(r)
        order.append(r)
        for pat in pats.get(r, []):
            ms = glob.glob(os.path.join(tmp, posixpath.dirname(r), pat), recursive=True)
            if not ms:
                return order, (r, pat)
            queue.extend(os.path.relpath(os.path.realpath(m), tmp) for m in ms)
    return order, None


def spelled_root(spec, tmp):
    """(cwd, path argument) for the spelling of the scenario."""
    root, base, sp = spec['root'], spec['base'], spec['spelling']
    name = posixpath.basename(root)
    if spec.get('root_missing'):
        root = posixpath.join(base, 'absent.bean') if base else 'absent.bean'
        name = 'absent.bean'
    if sp == 'abs':
        return tmp, os.path.join(tmp, root)
    if sp == 'rel-dir':
        return tmp, root
    if sp == 'dot':
        return tmp, './' + root
    if sp == 'bare':
        return (os.path.join(tmp, base) if base else tmp), name
    if sp == 'nonnorm':
        return tmp, _nonnorm(root)
    if sp == 'pathlib':
        return tmp, pathlib.Path(root)
    raise ValueError(sp)


# ----------------------------------------------------------------------------------------------- running

def _apply_edit(file, a):
    toks = list(file.tokens)
    tok = toks[a['tok']]
    assert type(tok).__name__ == a['cls'], (type(tok).__name__, a)
    off = sum(len(t.raw_text) for t in toks[:a['tok']])
    old = tok.raw_text
    v = a['value']
    tok.value = datetime.date.fromisoformat(v) if a['cls'] == 'Date' else v
    return off, old, tok.raw_text


def _build_added(a):
    if a['how'] == 'parsed':
        return P().parse(a['text'], models.File)
    ds = []
    for kind, date, acc in a['items']:
        cls = models.Open if kind == 'open' else models.Close
        ds.append(cls.from_value(datetime.date.fromisoformat(date), acc))
    return models.File.from_children(ds)


def _alarm(sig, frame):
    raise _Timeout()


def run_scenario(spec, *, want_line=True):
    """Runs one scenario on the real code.  Returns a dict with `fails` [(sig, what)], the driver line and the
    expected driver output (canonical), and the outcome tag."""
    tmp = os.path.realpath(tempfile.mkdtemp(prefix='c16-'))
    cwd0 = os.getcwd()
    old_handler = signal.signal(signal.SIGALRM, _alarm)
    try:
        materialise(spec, tmp)
        cwd, arg = spelled_root(spec, tmp)
        os.chdir(cwd)
        return _run_in(spec, tmp, arg, want_line)
    finally:
        signal.setitimer(signal.ITIMER_REAL, 0)
        signal.signal(signal.SIGALRM, old_handler)
        os.chdir(cwd0)
        shutil.rmtree(tmp, ignore_errors=True)


def _rel_of(path, tmp):
    return os.path.relpath(os.path.realpath(path), tmp)


def _run_in(spec, tmp, arg, want_line):
    fails = []
    fail = lambda sig, what: fails.append((sig, what))
    before, dirs_before = snapshot(tmp)
    by_rel = {f['rel']: f for f in spec['files']}
    texts = {r: b.decode('utf-8') for r, (b, _) in before.items()}
    pats = _patterns(spec, tmp)
    reach, nomatch = canonical_reach(spec, tmp)
    root_key = os.path.normpath(arg)
    missing = bool(spec.get('root_missing'))

    # Include relation at the level of path spellings (what `_get_include_paths` must yield) for the model and for
    # the expected error, and the identity (realpath) of every spelling.  A file's key is its first spelling.
    inc = {}
    expected_err = None
    key_of_rel = {}
    ident = {}

    def note(m):
        k = os.path.normpath(m)
        ident[k] = key_of_rel.setdefault(_rel_of(k, tmp), k)
        return k

    if not missing:
        seen, queue = set(), [note(root_key)]
        while queue and expected_err is None:
            k = queue.pop(0)
            if ident[k] in seen:
                continue
            seen.add(ident[k])
            inc[k] = []
            rel = _rel_of(k, tmp)
            for pat in pats.get(rel, []):
                ms = glob.glob(os.path.join(os.path.dirname(k), pat), recursive=True)
                if not ms:
                    text = texts[rel]
                    m = re.search(r'^include "' + re.escape(pat) + '"', text, re.M)
                    line0 = text[:m.start()].count('\n')
                    # the directive is the include line, or - when a comment block stands directly above it and is its
                    # leading comment - starts with that block: both are "the directive's line"
                    lines_ = text.split('\n')
                    top = line0
                    while top > 0 and lines_[top - 1].lstrip(' \t').startswith(';') and not lines_[top - 1][:1] in ' \t':
                        top -= 1
                    expected_err = (k, pat, (line0, top))
                    break
                inc[k].extend(note(x) for x in ms)
            queue.extend(inc[k])

    def key_for(rel):
        if rel in key_of_rel:
            return key_of_rel[rel]
        d = os.path.dirname(root_key)
        base_abs = os.path.realpath(d) if d else os.getcwd()
        return os.path.normpath(os.path.join(d, os.path.relpath(os.path.join(tmp, rel), base_abs)))

    nfiles = len(before)
    cp = CountingParser(limit=6 * nfiles + 20)
    ed = editor_lib.Editor(parser=cp)
    state = {'entered': False, 'keys': None, 'final': None, 'edits': {}, 'printed': {}, 'body_done': False}
    outcome = 'ok'
    exc = None
    signal.setitimer(signal.ITIMER_REAL, 30)
    try:
        if spec['mode'] == 'rec':
            with ed.edit_file_recursive(arg) as files:
                state['entered'] = True
                state['keys'] = list(files)
                for a in spec['actions']:
                    if a['kind'] == 'edit':
                        state['edits'][a['file']] = _apply_edit(files[key_for(a['file'])], a)
                    elif a['kind'] == 'del':
                        del files[key_for(a['file'])]
                    elif a['kind'] == 'add':
                        files[key_for(a['rel'])] = _build_added(a)
                    elif a['kind'] == 'replace':
                        files[key_for(a['file'])] = P().parse(a['text'], models.File)
                state['final'] = dict(files)
                state['printed'] = {k: pr(m) for k, m in files.items()}
                state['body_done'] = True
                if spec['raises']:
                    raise _Boom('body')
        else:
            with ed.edit_file(arg) as file:
                state['entered'] = True
                state['keys'] = [root_key]
                for a in spec['actions']:
                    state['edits'][a['file']] = _apply_edit(file, a)
                state['final'] = {root_key: file}
                state['printed'] = {root_key: pr(file)}
                state['body_done'] = True
                if spec['raises']:
                    raise _Boom('body')
    except _Boom:
        outcome = 'boom'
    except _Runaway:
        outcome = 'runaway'
    except _Timeout:
        outcome = 'timeout'
    except Exception as e:            # noqa: BLE001 - the exception kind is the observation
        outcome = type(e).__name__
        exc = e
    finally:
        signal.setitimer(signal.ITIMER_REAL, 0)
    after, dirs_after = snapshot(tmp)
    state['parsed'] = list(cp.calls)
    sp = spec['spelling']

    def untouched(sig, why):
        ok = True
        for r in sorted(set(before) | set(after)):
            if r not in after:
                fail(sig, f'{why}: {r} was deleted [{sp}]'); ok = False
            elif r not in before:
                fail(sig, f'{why}: {r} was created [{sp}]'); ok = False
            elif after[r][0] != before[r][0]:
                fail(sig, f'{why}: contents of {r} changed [{sp}]'); ok = False
            elif after[r][1] != before[r][1]:
                fail(sig, f'{why}: {r} was rewritten (mtime changed) [{sp}]'); ok = False
        if dirs_after != dirs_before:
            fail(sig, f'{why}: directories changed {sorted(dirs_after ^ dirs_before)} [{sp}]'); ok = False
        return ok

    res = {'fails': fails, 'outcome': outcome, 'line': None, 'expect': None, 'reach': len(reach),
           'parse_calls': len(cp.calls), 'lineno': None}

    # ---- visit: every matched file exactly once
    if outcome in ('runaway', 'timeout'):
        fail('C16:visited-twice-or-missed', f'the include walk does not end: {len(cp.calls)} parses for {nfiles} files ({outcome}) [{sp}]')
        untouched('C16:raise-touched-files', 'walk aborted')
        return res
    if state['entered'] and spec['mode'] == 'rec':
        ids = [_rel_of(k, tmp) for k in state['keys']]
        if sorted(ids) != sorted(reach) or len(set(ids)) != len(ids):
            fail('C16:visited-twice-or-missed', f'keys {state["keys"]} are files {ids}; matched files are {reach} [{sp}]')
        if len(cp.calls) != len(reach):
            fail('C16:visited-twice-or-missed', f'{len(cp.calls)} files were parsed for {len(reach)} matched files [{sp}]')
        if fails:
            return res          # the mapping does not name each file once: nothing else can be judged
    if state['entered'] and spec['mode'] == 'one' and len(cp.calls) != 1:
        fail('C16:visited-twice-or-missed', f'edit_file parsed {len(cp.calls)} times')

    # ---- expected exceptions
    if missing:
        if outcome != 'FileNotFoundError':
            fail(f'C16:path-spelling:{sp}', f'missing root: expected FileNotFoundError, got {outcome}: {exc}')
        untouched('C16:raise-touched-files', 'root file missing')
        if want_line:
            res['line'], res['expect'] = _driver_line(spec, tmp, before, root_key, inc, ident, key_for, state, after, dirs_before, dirs_after, 'FileNotFoundError')
        return res
    if spec['mode'] == 'rec' and expected_err is not None:
        k, pat, line0 = expected_err
        if outcome != 'ValueError' or 'No files match' not in str(exc):
            fail('C16:visited-twice-or-missed', f'include {pat!r} in {k} matches nothing: expected ValueError, got {outcome}: {exc} [{sp}]')
        else:
            m = re.search(r'\((.*):(\d+)\)$', str(exc))
            line0, top0 = line0
            res['lineno'] = (int(m.group(2)), line0) if m else None
            if not m or m.group(1) != k or repr(pat) not in str(exc):
                fail('C16:lineno', f'message {str(exc)!r} does not name include {pat!r} of {k} [{sp}]')
            elif int(m.group(2)) not in (line0, top0):
                fail('C16:lineno', f'message {str(exc)!r}: the directive starts on 0-based line {line0} of {k} [{sp}]')
        untouched('C16:raise-touched-files', 'ValueError while reading')
        return res
    if outcome not in ('ok', 'boom') or (outcome == 'boom') != bool(spec['raises']):
        what = f'unexpected outcome {outcome}: {exc!r} (raises={spec["raises"]}, body finished={state["body_done"]}) [{sp}]'
        if outcome == 'ok':
            fail('C16:raise-touched-files', 'the exception of the body did not propagate: ' + what)
        else:
            res['unexpected'] = what
        untouched_sig = 'C16:raise-touched-files' if not state['body_done'] or spec['raises'] else None
        if untouched_sig:
            untouched(untouched_sig, 'block raised')
        return res

    # ---- body raised: nothing is touched
    if spec['raises']:
        untouched('C16:raise-touched-files', 'body raised')
        if want_line:
            res['line'], res['expect'] = _driver_line(spec, tmp, before, root_key, inc, ident, key_for, state, after, dirs_before, dirs_after, 'BodyRaised')
        return res

    # ---- block completed: exactly the edited files, exactly
    expected = {r: ('same',) for r in before}
    for a in spec['actions']:
        if a['kind'] == 'edit':
            off, old, new = state['edits'][a['file']]
            t = texts[a['file']]
            if new != old:
                expected[a['file']] = ('edited', t[:off].encode('utf-8'), new.encode('utf-8'), t[off + len(old):].encode('utf-8'),
                                       state['printed'][key_for(a['file'])].encode('utf-8'))
        elif a['kind'] == 'del':
            expected[a['file']] = ('gone',)
        elif a['kind'] == 'add':
            expected[a['rel']] = ('added', state['printed'][key_for(a['rel'])].encode('utf-8'))
        elif a['kind'] == 'replace':
            pb = state['printed'][key_for(a['file'])].encode('utf-8')
            expected[a['file']] = ('replaced', pb) if pb != before[a['file']][0] else ('same',)
    for r in sorted(set(expected) | set(after)):
        e = expected.get(r)
        got = after.get(r)
        if e is None:
            fail('C16:unexpected-file', f'{r} appeared although no entry of the mapping names it [{sp}]')
        elif e[0] == 'gone':
            if got is not None:
                fail('C16:removed-not-deleted', f'{r} was removed from the mapping but still exists [{sp}]')
        elif e[0] == 'same':
            if got is None:
                fail('C16:unedited-rewritten', f'{r} was not changed but is gone [{sp}]')
            elif got[0] != before[r][0]:
                fail('C16:unedited-rewritten', f'{r} was not changed but its bytes differ [{sp}]')
            elif got[1] != before[r][1]:
                fail('C16:unedited-rewritten', f'{r} was not changed but was rewritten (mtime changed) [{sp}]')
        elif e[0] == 'edited':
            _, pre, new, post, printed = e
            if got is None:
                fail('C16:edited-content', f'{r} was edited but is gone [{sp}]')
                continue
            if got[0] != printed:
                fail('C16:edited-content', f'{r} does not contain the printed model [{sp}]')
            if got[0][:len(pre)] != pre or got[0][len(got[0]) - len(post):] != post or len(got[0]) != len(pre) + len(new) + len(post):
                lost = before[r][0].count(b'\r') - got[0].count(b'\r')
                fail('C16:outside-fragment-changed', f'{r}: bytes outside the edited token changed ({lost} carriage returns lost) [{sp}]')
        elif e[0] in ('added', 'replaced'):
            if got is None or got[0] != e[1]:
                fail('C16:added-not-created' if e[0] == 'added' else 'C16:edited-content',
                     f'{r} should contain the printed model of the {"new" if e[0] == "added" else "replaced"} entry [{sp}]')
    want_dirs = set(dirs_before)
    for a in spec['actions']:
        if a['kind'] == 'add':
            d = posixpath.dirname(a['rel'])
            while d:
                want_dirs.add(d)
                d = posixpath.dirname(d)
    if dirs_after != want_dirs:
        fail('C16:unexpected-file', f'directories differ from the expected ones: {sorted(dirs_after ^ want_dirs)} [{sp}]')
    if want_line:
        res['line'], res['expect'] = _driver_line(spec, tmp, before, root_key, inc, ident, key_for, state, after, dirs_before, dirs_after, '-')
    return res


# ----------------------------------------------------------------------------------------------- correspondence

def _driver_line(spec, tmp, before, root_key, inc, ident, key_for, state, after, dirs_before, dirs_after, raised):
    """The scenario as one protocol line and what the real run looked like in the model's terms."""
    enc = enc_text
    w = ['E', spec['mode'], '0', '1' if spec['raises'] else '0', enc(root_key)]
    fs = sorted((key_for(r), b.decode('utf-8')) for r, (b, _) in before.items())
    w += ['F', str(len(fs))]
    for k, t in fs:
        w += [enc(k), enc(t)]
    printed = state['printed']
    if spec['mode'] == 'rec':
        w += ['I', str(len(inc))]
        for k, ms in inc.items():
            w += [enc(k), str(len(ms))] + [enc(m) for m in ms]
        alias = [(a, b) for a, b in ident.items() if a != b]
        w += ['D', str(len(alias))]
        for a, b in alias:
            w += [enc(a), enc(b)]
        acts = []
        if state['body_done']:
            for a in spec['actions']:
                if a['kind'] == 'edit':
                    acts += ['edit', enc(key_for(a['file'])), enc(printed[key_for(a['file'])])]
                elif a['kind'] == 'del':
                    acts += ['del', enc(key_for(a['file']))]
                elif a['kind'] == 'add':
                    acts += ['add', enc(key_for(a['rel'])), enc(printed[key_for(a['rel'])])]
                else:
                    acts += ['add', enc(key_for(a['file'])), enc(printed[key_for(a['file'])])]
        n = sum(1 for x in acts if x in ('edit', 'del', 'add'))
        w += ['A', str(len(spec['actions']) if state['body_done'] else 0)] + acts
        assert n == (len(spec['actions']) if state['body_done'] else 0)
    else:
        w += ['P', enc(printed[root_key]) if state['body_done'] and spec['actions'] else '-']
    # the real run in the model's terms
    real_fs = {key_for(r): b.decode('utf-8') for r, (b, _) in after.items()}
    writes = sorted(key_for(r) for r, (b, mt) in after.items() if r not in before or before[r][1] != mt)
    unlinks = sorted(key_for(r) for r in before if r not in after)
    final_keys = list(state['final']) if state['final'] is not None and raised == '-' else []
    mkdirs = [os.path.dirname(k) for k in final_keys if os.path.dirname(k)] if spec['mode'] == 'rec' else []
    newdirs = sorted(dirs_after - dirs_before)
    dirmap = {}
    for d in mkdirs:                 # which real directories `makedirs(d)` stands for
        a, chain = os.path.realpath(d), []
        while a.startswith(tmp + os.sep):
            chain.append(os.path.relpath(a, tmp))
            a = os.path.dirname(a)
        dirmap[d] = chain
    expect = {'visit': state['keys'] if state['keys'] is not None else [], 'fs': real_fs, 'writes': writes, 'unlinks': unlinks,
              'mkdirs': mkdirs, 'newdirs': newdirs, 'raised': raised, 'dirs_before': sorted(dirs_before), 'dirmap': dirmap,
              'read': [(len(t), t.count('\r')) for t in state['parsed']]}
    return ' '.join(w), expect


def _dec(s):
    return '' if s == 'e' else ''.join(chr(int(x)) for x in s.split('.'))


def _parse_out(out):
    m = re.fullmatch(r'visit=(\S+) fs=(\S+) log=(\S+) raised=(\S+) read=(\S+)', out)
    if not m:
        return None
    lst = lambda s: [] if s == '-' else s.split('|')
    visit = [_dec(x) for x in lst(m.group(1))]
    fs = {}
    for e in lst(m.group(2)):
        k, v = e.split(':')
        fs[_dec(k)] = _dec(v)
    log = [(e.split(':')[0], _dec(e.split(':')[1])) for e in lst(m.group(3))]
    read = [tuple(int(x) for x in e.split('.')) for e in lst(m.group(5))]
    return visit, fs, log, m.group(4), read


def _diff_model(out, exp):
    """None when the model agrees with the real run, else a short description."""
    parsed = _parse_out(out)
    if parsed is None:
        return f'driver said {out[:200]!r}'
    visit, fs, log, raised, read = parsed
    if read != exp['read']:
        return f'texts read (length, carriage returns): model {read}, real {exp["read"]}'
    if raised != exp['raised']:
        return f'raised: model {raised}, real {exp["raised"]}'
    if visit != exp['visit']:
        return f'visit order: model {visit}, real {exp["visit"]}'
    if fs != exp['fs']:
        ks = sorted(k for k in set(fs) | set(exp['fs']) if fs.get(k) != exp['fs'].get(k))
        return f'final file system differs at {ks}'
    if sorted(p for k, p in log if k == 'w') != exp['writes']:
        return f'writes: model {[p for k, p in log if k == "w"]}, real {exp["writes"]}'
    if sorted(p for k, p in log if k == 'u') != exp['unlinks']:
        return f'unlinks: model {[p for k, p in log if k == "u"]}, real {exp["unlinks"]}'
    mk = [p for k, p in log if k == 'm']
    if mk != exp['mkdirs']:
        return f'mkdir arguments: model {mk}, real dirnames {exp["mkdirs"]}'
    # directories that the model's makedirs calls create = the new directories seen on disk
    made = set()
    for d in mk:
        made.update(exp['dirmap'][d])
    if sorted(made - set(exp['dirs_before'])) != exp['newdirs']:
        return f'new directories: model {sorted(made - set(exp["dirs_before"]))}, real {exp["newdirs"]}'
    return None


# ----------------------------------------------------------------------------------------------- check entry points

def _signature(spec, res):
    nls = tuple(sorted({'crlf' if '\r\n' in f['text'] else 'lf' for f in spec['files']}))
    kinds = tuple(sorted({a['kind'] for a in spec['actions']}))
    globs = any(any(c in p for c in '*?[') for f in spec['files'] for p in f['includes'])
    return (spec['mode'], spec['spelling'], tuple(spec['features']), globs, nls, kinds, spec['raises'], res['outcome'],
            min(res['reach'], 4))


def _classify_unexpected(spec, res):
    """An exception nobody asked for: is it the spelling of the path?"""
    if 'unexpected' not in res:
        return
    sig = f'C16:exception:{res["outcome"]}'
    if spec['spelling'] != 'abs':
        alt = dict(spec, spelling='abs')
        r2 = run_scenario(alt, want_line=False)
        if 'unexpected' not in r2:
            sig = f'C16:path-spelling:{spec["spelling"]}'
    res['fails'].append((sig, res['unexpected']))


def _shrink(spec, sig, budget=40):
    """Drop body actions (and the raise) as long as the same signature still fails."""
    def still(s):
        try:
            r = run_scenario(s, want_line=False)
            _classify_unexpected(s, r)
            return any(x == sig for x, _ in r['fails'])
        except Exception:
            return False
    cur = spec
    changed = True
    while changed and budget > 0:
        changed = False
        for i in range(len(cur['actions'])):
            cand = dict(cur, actions=cur['actions'][:i] + cur['actions'][i + 1:])
            budget -= 1
            if still(cand):
                cur, changed = cand, True
                break
    return cur


def _run_many(ctx, n, *, with_model):
    pending = []
    for i in range(n):
        spec = gen_spec(ctx.rng)
        res = run_scenario(spec, want_line=with_model)
        _classify_unexpected(spec, res)
        ctx.count('mode:' + spec['mode'])
        ctx.count('spelling:' + spec['spelling'])
        ctx.count('outcome:' + res['outcome'])
        ctx.count(f'files:{len(spec["files"])}')
        ctx.count(f'reachable:{res["reach"]}')
        for ft in spec['features']:
            ctx.count('graph:' + ft)
        for a in spec['actions']:
            ctx.count('action:' + a['kind'] + (':' + a['cls'] if a['kind'] == 'edit' else ''))
        if any('\r\n' in f['text'] for f in spec['files']):
            ctx.count('tree-with-crlf')
        if res['lineno']:
            ctx.count('nomatch-lineno-checked')
            ctx.extra['nomatch_lineno'] = 'get_position(...).line is 0-based: the message names the 0-based line on which the include directive starts'
        trivial = len(spec['files']) == 1 and not spec['actions'] and not spec['raises']
        ctx.case(None if trivial else _signature(spec, res),
                 {'mode': spec['mode'], 'spelling': spec['spelling'], 'files': [f['rel'] for f in spec['files']],
                  'includes': {f['rel']: f['includes'] for f in spec['files'] if f['includes']},
                  'actions': [{k: v for k, v in a.items() if k not in ('text', 'items')} for a in spec['actions']],
                  'raises': spec['raises'], 'outcome': res['outcome']})
        seen = set()
        for sig, what in res['fails']:
            if sig in seen:
                continue
            seen.add(sig)
            small = _shrink(spec, sig) if not ctx.searching or len(ctx.oracle_fails) < 5 else spec
            ctx.oracle_fail(sig, what, small)
        if res['line'] is not None:
            pending.append((spec, res['line'], res['expect']))
    if with_model and pending:
        outs = ctx.driver.run([l for _, l, _ in pending])
        for (spec, _, exp), out in zip(pending, outs):
            d = _diff_model(out, exp)
            if d is not None:
                ctx.divergence('editor', d, spec)
        ctx.extra['model_scenarios'] = len(pending)


def _rekey_probes(ctx):
    """An entry removed from the mapping and stored again under another spelling of the same path: "entries removed
    ... are deleted and new entries created" - the file must exist afterwards with the printed model."""
    import os, tempfile, shutil
    from autobean_refactor import editor as editor_lib, printer
    import io
    for edit_too in (False, True):
        for spelling in ('abs', 'dotslash'):
            tmp = tempfile.mkdtemp(prefix='verif-c16-rekey-')
            cwd = os.getcwd()
            try:
                os.makedirs(os.path.join(tmp, 'sub'))
                with open(os.path.join(tmp, 'main.bean'), 'wb') as f:
                    f.write(b'include "sub/inc.bean"\n2000-01-01 open Assets:A\n')
                with open(os.path.join(tmp, 'sub', 'inc.bean'), 'wb') as f:
                    f.write(b'2000-01-02 open Assets:B\r\n')
                os.chdir(tmp)
                expected = None
                with editor_lib.Editor().edit_file_recursive('main.bean') as files:
                    k = next(x for x in files if x.endswith('inc.bean'))
                    model = files.pop(k)
                    if edit_too:
                        model.raw_directives[0].account = 'Assets:Z'
                    new_key = os.path.abspath(k) if spelling == 'abs' else os.path.join('.', k)
                    files[new_key] = model
                    expected = printer.print_model(model, io.StringIO()).getvalue().encode()
                ctx.case(('rekey', edit_too, spelling))
                path = os.path.join(tmp, 'sub', 'inc.bean')
                if not os.path.exists(path):
                    ctx.oracle_fail('C16:added-not-created:rekey', f'entry re-added under the {spelling} spelling of the same file does not exist after the block',
                                    {'probe': 'rekey', 'edit_too': edit_too, 'spelling': spelling})
                elif open(path, 'rb').read() != expected:
                    ctx.oracle_fail('C16:edited-content:rekey', 'file re-added under another spelling does not contain the printed model',
                                    {'probe': 'rekey', 'edit_too': edit_too, 'spelling': spelling})
            except Exception as e:
                ctx.oracle_fail(f'C16:exception:rekey:{type(e).__name__}', repr(e)[:200], {'probe': 'rekey', 'edit_too': edit_too, 'spelling': spelling})
            finally:
                os.chdir(cwd)
                shutil.rmtree(tmp, ignore_errors=True)


def _link_probes(ctx):
    """A ledger file reached through a symbolic link to a FILE (`current.bean -> archive/2024.bean`, named by an include
    or passed to edit_file): "any way of spelling the path" - after the block the file that was read holds the printed
    model, the link is still the same link, an unedited linked file is not rewritten, and nothing else appears."""
    import os, tempfile, shutil, io
    from autobean_refactor import editor as editor_lib, printer
    for how in ('recursive', 'single'):
        for edit in (True, False):
            for nl in (b'\n', b'\r\n'):
                tmp = tempfile.mkdtemp(prefix='verif-c16-link-')
                cwd = os.getcwd()
                rep = {'probe': 'link', 'how': how, 'edit': edit, 'crlf': nl != b'\n'}
                try:
                    os.makedirs(os.path.join(tmp, 'archive'))
                    with open(os.path.join(tmp, 'main.bean'), 'wb') as f:
                        f.write(b'include "current.bean"' + nl + b'2000-01-01 open Assets:A' + nl)
                    target = os.path.join(tmp, 'archive', '2024.bean')
                    orig = b'2000-01-02 open Assets:B ; c' + nl + b'2000-01-03 close Assets:B' + nl
                    with open(target, 'wb') as f:
                        f.write(orig)
                    os.symlink(os.path.join('archive', '2024.bean'), os.path.join(tmp, 'current.bean'))
                    os.utime(target, ns=(OLD_NS, OLD_NS))
                    os.chdir(tmp)
                    before = snapshot(tmp)
                    if how == 'recursive':
                        with editor_lib.Editor().edit_file_recursive('main.bean') as files:
                            k = next(x for x in files if x.endswith('current.bean'))
                            if edit:
                                files[k].raw_directives[0].account = 'Assets:Z'
                            expected = printer.print_model(files[k], io.StringIO()).getvalue().encode()
                    else:
                        with editor_lib.Editor().edit_file('current.bean') as file:
                            if edit:
                                file.raw_directives[0].account = 'Assets:Z'
                            expected = printer.print_model(file, io.StringIO()).getvalue().encode()
                    ctx.case(('link', how, edit, nl != b'\n'))
                    link = os.path.join(tmp, 'current.bean')
                    listing = sorted(os.listdir(tmp)) + sorted(os.listdir(os.path.join(tmp, 'archive')))
                    if not os.path.islink(link) or os.readlink(link) != os.path.join('archive', '2024.bean'):
                        ctx.oracle_fail('C16:link-replaced', 'the symbolic link the file was read through is no longer that link after the block', rep)
                    elif open(target, 'rb').read() != expected:
                        ctx.oracle_fail('C16:edited-content:link', f'the file read through a symbolic link holds {open(target, "rb").read()!r}, the printed model is {expected!r}', rep)
                    elif listing != ['archive', 'current.bean', 'main.bean', '2024.bean']:
                        ctx.oracle_fail('C16:stray-file:link', f'directory entries after the block: {listing}', rep)
                    elif not edit and os.stat(target).st_mtime_ns != OLD_NS:
                        ctx.oracle_fail('C16:unchanged-rewritten:link', 'an unedited file read through a symbolic link was rewritten', rep)
                except Exception as e:
                    ctx.oracle_fail(f'C16:exception:link:{type(e).__name__}', repr(e)[:200], rep)
                finally:
                    os.chdir(cwd)
                    shutil.rmtree(tmp, ignore_errors=True)


def _unlink_probes(ctx):
    """An entry that was reached through a symbolic link is removed from the mapping ("entries removed from the mapping
    are deleted"): the link is gone afterwards - also when the mapping keeps / gains an entry for the file the link pointed
    to (the caller "de-symlinks" the ledger: `files[real] = files.pop(link)`), which then holds the printed model."""
    import os, tempfile, shutil, io
    from autobean_refactor import editor as editor_lib, printer
    for how in ('pop-only', 'desymlink', 'desymlink-edited'):
        tmp = tempfile.mkdtemp(prefix='verif-c16-unlink-')
        cwd = os.getcwd()
        rep = {'probe': 'unlink', 'how': how}
        try:
            os.makedirs(os.path.join(tmp, 'inc'))
            os.makedirs(os.path.join(tmp, 'archive'))
            with open(os.path.join(tmp, 'main.bean'), 'wb') as f:
                f.write(b'include "inc/*.bean"\n2000-01-01 open Assets:A\n')
            target = os.path.join(tmp, 'archive', '2024.bean')
            orig = b'2000-01-02 open Assets:B\r\n'
            with open(target, 'wb') as f:
                f.write(orig)
            link = os.path.join(tmp, 'inc', 'alias.bean')
            os.symlink(os.path.join('..', 'archive', '2024.bean'), link)
            os.chdir(tmp)
            expected = orig
            with editor_lib.Editor().edit_file_recursive('main.bean') as files:
                k = next(x for x in files if x.endswith('alias.bean'))
                model = files.pop(k)
                if how != 'pop-only':
                    if how == 'desymlink-edited':
                        model.raw_directives[0].account = 'Assets:Z'
                    files[os.path.join('archive', '2024.bean')] = model
                    expected = printer.print_model(model, io.StringIO()).getvalue().encode()
            ctx.case(('unlink', how))
            if os.path.lexists(link):
                ctx.oracle_fail('C16:removed-not-deleted:link', f'an entry reached through a symbolic link was removed from the mapping ({how}) and still exists after the block', rep)
            elif not os.path.exists(target) or open(target, 'rb').read() != expected:
                ctx.oracle_fail('C16:edited-content:unlink', f'the file the removed link pointed to ({how}) holds '
                                f'{open(target, "rb").read() if os.path.exists(target) else None!r}, expected {expected!r}', rep)
        except Exception as e:
            ctx.oracle_fail(f'C16:exception:unlink:{type(e).__name__}', repr(e)[:200], rep)
        finally:
            os.chdir(cwd)
            shutil.rmtree(tmp, ignore_errors=True)


def _reuse_probes(ctx):
    """ONE Editor instance used for several blocks on the same files: a block that raised, or a file restored behind the
    editor's back, leaves nothing behind in the instance - every block starts from what is on disk now."""
    import os, tempfile, shutil
    from autobean_refactor import editor as editor_lib
    for recursive in (True, False):
        for first in ('raises', 'completes-then-restored'):
            tmp = tempfile.mkdtemp(prefix='verif-c16-reuse-')
            cwd = os.getcwd()
            rep = {'probe': 'reuse', 'recursive': recursive, 'first': first}
            try:
                os.makedirs(os.path.join(tmp, 'sub'))
                files0 = {'main.bean': b'include "sub/a.bean"\n2000-01-01 open Assets:A\n', os.path.join('sub', 'a.bean'): b'2000-01-02 open Assets:B\r\n'}
                for k, v in files0.items():
                    with open(os.path.join(tmp, k), 'wb') as f:
                        f.write(v)
                os.chdir(tmp)
                ed = editor_lib.Editor()
                target = 'main.bean' if recursive else os.path.join('sub', 'a.bean')
                opener = (lambda: ed.edit_file_recursive(target)) if recursive else (lambda: ed.edit_file(target))

                def models_of(x):
                    return list(x.values()) if recursive else [x]
                try:
                    with opener() as x:
                        for m in models_of(x):
                            m.raw_directives[-1].account = 'Assets:Edited'
                        if first == 'raises':
                            raise _Boom()
                except _Boom:
                    pass
                if first == 'raises':
                    for k, v in files0.items():
                        if open(os.path.join(tmp, k), 'rb').read() != v:
                            ctx.oracle_fail('C16:raised-but-written:reuse', f'{k} changed although the block raised', rep)
                else:
                    for k, v in files0.items():      # put the old content back behind the editor's back
                        with open(os.path.join(tmp, k), 'wb') as f:
                            f.write(v)
                with opener() as x:                  # an ordinary block that edits nothing
                    for m in models_of(x):
                        got = pr(m)
                        if 'Assets:Edited' in got:
                            ctx.oracle_fail('C16:entry-model-is-not-the-file:reuse', 'the model handed out at entry carries the edits of an earlier block, not the content of the file', rep)
                for k, v in files0.items():
                    if open(os.path.join(tmp, k), 'rb').read() != v:
                        ctx.oracle_fail('C16:unchanged-model-rewritten:reuse', f'{k} was rewritten by a block that edited nothing (with the edits of an earlier block)', rep)
                ctx.case(('reuse', recursive, first))
            except Exception as e:
                ctx.oracle_fail(f'C16:exception:reuse:{type(e).__name__}', repr(e)[:200], rep)
            finally:
                os.chdir(cwd)
                shutil.rmtree(tmp, ignore_errors=True)


def _nested_probes(ctx):
    """Two blocks of ONE Editor instance open at the same time (a file outside the include graph edited while the recursive
    block is open; a second recursive block inside the first): each block writes exactly its own files, nothing else is
    touched, removed or rewritten."""
    import os, tempfile, shutil
    from autobean_refactor import editor as editor_lib
    for inner_kind in ('file', 'recursive'):
        for edit_outer in (False, True):
            tmp = tempfile.mkdtemp(prefix='verif-c16-nested-')
            cwd = os.getcwd()
            rep = {'probe': 'nested', 'inner': inner_kind, 'edit_outer': edit_outer}
            try:
                os.makedirs(os.path.join(tmp, 'sub'))
                files0 = {'main.bean': b'include "sub/a.bean"\r\n2000-01-01 open Assets:A\r\n', os.path.join('sub', 'a.bean'): b'2000-01-02 open Assets:B\n',
                          'archive.bean': b'include "old.bean"\n2000-01-03 open Assets:C\n', 'old.bean': b'2000-01-04 open Assets:D\n', 'bystander.bean': b'; nobody opens me\n'}
                for k, v in files0.items():
                    with open(os.path.join(tmp, k), 'wb') as f:
                        f.write(v)
                os.chdir(tmp)
                ed = editor_lib.Editor()
                expect = dict(files0)
                with ed.edit_file_recursive('main.bean') as outer:
                    if inner_kind == 'file':
                        with ed.edit_file('archive.bean') as a:
                            a.raw_directives[-1].account = 'Assets:Inner'
                            expect['archive.bean'] = pr(a).encode()
                    else:
                        with ed.edit_file_recursive('archive.bean') as inner:
                            for k, m in inner.items():
                                if k.endswith('old.bean'):
                                    m.raw_directives[-1].account = 'Assets:Inner'
                                    expect['old.bean'] = pr(m).encode()
                    if edit_outer:
                        for k, m in outer.items():
                            if k.endswith('a.bean'):
                                m.raw_directives[-1].account = 'Assets:Outer'
                                expect[os.path.join('sub', 'a.bean')] = pr(m).encode()
                ctx.case(('nested', inner_kind, edit_outer))
                for k, v in expect.items():
                    path = os.path.join(tmp, k)
                    if not os.path.exists(path):
                        ctx.oracle_fail('C16:file-vanished:nested', f'{k} was deleted although no block removed it from its mapping', rep)
                    elif open(path, 'rb').read() != v:
                        ctx.oracle_fail('C16:content:nested', f'{k} does not hold what the block that owns it printed (or, untouched, what it held before)', rep)
            except Exception as e:
                ctx.oracle_fail(f'C16:exception:nested:{type(e).__name__}', repr(e)[:200], rep)
            finally:
                os.chdir(cwd)
                shutil.rmtree(tmp, ignore_errors=True)


def run(ctx):
    _rekey_probes(ctx)
    _link_probes(ctx)
    _unlink_probes(ctx)
    _reuse_probes(ctx)
    _nested_probes(ctx)
    _run_many(ctx, ctx.scale(150, 5000), with_model=ctx.extra.get('model_available', True))


def search(ctx, hints):
    _run_many(ctx, ctx.scale(600, 5000), with_model=False)


def replay(ctx, data):
    spec = data.get('replay') or data.get('first_diverging_replay')
    if not spec:
        return False
    if spec.get('probe') in ('rekey', 'reuse', 'nested', 'link', 'unlink'):
        import check
        c = check.Ctx('C16', 'quick', ctx.seed)
        {'rekey': _rekey_probes, 'reuse': _reuse_probes, 'nested': _nested_probes, 'link': _link_probes, 'unlink': _unlink_probes}[spec['probe']](c)
        return not c.oracle_fails
    res = run_scenario(spec, want_line=False)
    _classify_unexpected(spec, res)
    for sig, what in res['fails']:
        print(f'  {sig}: {what}')
    return not res['fails']
