"""C11 - a deep copy is equal, exact and fully independent."""
from __future__ import annotations
import copy
from autobean_refactor import models
from autobean_refactor.models import base, internal
import intro, edits, docs, treedump

ID = 'C11'
PROPERTY_FILE = 'Autobean/Properties/C11.lean'
LEAN_TARGETS = ['Autobean.Properties.C11', 'Autobean.Obligations.Schema']
RULE = ('generated ledgers and the parseable string literals of the repository tests, both attribution modes, optionally '
        'after random claim/unclaim calls (placeholders moved); every sub-model at every depth (tokens, repeated fields, '
        'trees; sampled above 150 per document) is deep-copied and judged: equal both ways, same printed text, no shared '
        'token or node object, invariant of the copy in its own store, spans its whole store; then ~6 random edits on the '
        'copy (original must not change) and on the original (copy must not change); lock-step: Lean deepcopy / invariant '
        'on the dumped document vs the real copy. distinct non-trivial = distinct (model class, case kind, op kind, outcome)')
ASSUMPTIONS = ['private field layout is read through harness/intro.py; documents are dumped by harness/treedump.py',
               'the generated clone of every class passes every field: ClassSchema.cloneComplete (Model/SchemaWF.lean) over the '
               'extracted table; here the real clone is exercised on every class the generators reach',
               'frame_independent holds in the model by purity; aliasing of Python objects is checked by the follow-up edits only']
LEVEL_NOTE = 'proof on the tree model (Model/Tree.lean) + lock-step tie; per-class clone completeness is a table obligation'
TECHNIQUE = 'Lean 4 theorems over a rose-tree/store model; lock-step correspondence; executable oracle on real objects'

CLAIM_METHODS = ['claim_leading_comment', 'claim_trailing_comment', 'unclaim_leading_comment', 'unclaim_trailing_comment']


# ---- documents --------------------------------------------------------------------------------------------

def gen_claim_ops(r, root, n):
    """Random claim / unclaim calls (surrounding and interleaving) as replayable ops."""
    ops = []
    for _ in range(n):
        nodes = [(list(p), m) for p, m in intro.walk_api(root) if not isinstance(m, base.RawTokenModel)]
        cands = []
        for p, m in nodes:
            if isinstance(m, internal.SurroundingCommentsMixin):
                for meth in CLAIM_METHODS:
                    cands.append({'k': 'call', 'kind': 'claim', 'path': p, 'm': meth, 'args': []})
            if not isinstance(m, (models.NumberAddExpr, models.NumberMulExpr)):
                for raw, (f, wc) in intro.api_props(type(m))['rep'].items():
                    if wc:
                        for meth in ('claim_interleaving_comments', 'unclaim_interleaving_comments'):
                            cands.append({'k': 'call', 'kind': 'claim-il', 'path': p, 'attr': raw, 'm': meth, 'args': []})
        if not cands:
            break
        op = r.choice(cands)
        try:
            edits.apply_op(root, op)
        except edits.DonorError:
            continue
        ops.append(op)
    return ops


def build_doc(text, auto_claim, pre_ops):
    root = edits.P().parse(text, models.File, auto_claim_comments=auto_claim)
    for op in pre_ops:
        try:
            edits.apply_op(root, op)
        except edits.DonorError:
            pass
    return root


def by_path(root, path):
    x = root
    for name in path:
        x = dict((n, v) for n, _, v in intro.field_values(x))[name]
    return x


# ---- oracle: one copy --------------------------------------------------------------------------------------

def copy_checks(root, m):
    """Returns (copy or None, [(signature, description)])."""
    fails = []
    cls = type(m).__name__
    try:
        c = copy.deepcopy(m)
    except Exception as e:   # noqa: BLE001 - any exception is the finding
        return None, [(f'C11:deepcopy-raises:{type(e).__name__}', f'copy.deepcopy({cls}) raised {e!r}')]
    if type(c) is not type(m):
        fails.append(('C11:copy!=original', f'copy of {cls} has type {type(c).__name__}'))
    try:
        if not (c == m) or not (m == c):
            fails.append(('C11:copy!=original', f'copy of {cls} does not compare equal to the original'))
    except Exception as e:   # noqa: BLE001
        fails.append(('C11:copy!=original', f'comparing the copy of {cls} raised {e!r}'))
    if isinstance(m, base.RawTokenModel):
        if c.raw_text != m.raw_text:
            fails.append(('C11:copy-text', f'{cls}: {c.raw_text!r} != {m.raw_text!r}'))
        if c is m:
            fails.append(('C11:shared-token', f'deepcopy of the token {cls} returned the same object'))
        if c.token_store is not None:
            fails.append(('C11:copy-inv:token-copy-in-a-store', f'copy of the token {cls} already lives in a store'))
        return c, fails
    try:
        if intro.pr(c) != intro.pr(m):
            fails.append(('C11:copy-text', f'{cls}: copy prints {intro.pr(c)[:80]!r}, original spans {intro.pr(m)[:80]!r}'))
    except Exception as e:   # noqa: BLE001
        fails.append(('C11:copy-text', f'printing the copy of {cls} raised {e!r}'))
    orig_tokens = {id(t) for t in root.token_store} | {id(t) for t in intro.leaves(root)}
    copy_tokens = {id(t) for t in c.token_store} | {id(t) for t in intro.leaves(c)}
    if orig_tokens & copy_tokens:
        shared = next(t for t in list(c.token_store) + intro.leaves(c) if id(t) in orig_tokens)
        fails.append(('C11:shared-token', f'copy of {cls} shares the token {type(shared).__name__} {shared.raw_text!r} with the original'))
    orig_nodes = {id(n) for _, n in intro.walk(root) if not isinstance(n, base.RawTokenModel)}
    for p, n in intro.walk(c):
        if not isinstance(n, base.RawTokenModel) and id(n) in orig_nodes:
            fails.append(('C11:shared-node', f'copy of {cls} shares the node {"/".join(p)} ({type(n).__name__}) with the original'))
            break
    if c.token_store is root.token_store:
        fails.append(('C11:copy-inv:same-store', f'copy of {cls} lives in the original store'))
    if not intro.check_inv(m):
        bad = intro.check_inv(c)
        if bad:
            fails.append((f'C11:copy-inv:{bad[0][0]}', f'copy of {cls}: {bad[0][1]}'))
        st = list(c.token_store)
        try:
            if not st or c.first_token is not st[0] or c.last_token is not st[-1]:
                fails.append(('C11:copy-inv:not-whole-store', f'copy of {cls} does not span its whole store'))
        except Exception as e:   # noqa: BLE001
            fails.append(('C11:copy-inv:first-last-raises', repr(e)))
    return c, fails


def container_checks(root, m, d, shape):
    """ONE copy.deepcopy call over a container that holds a model and something inside it (a sub-model, a token, its field
    wrapper): every member is copied as if copied alone - equal to its original, a complete tree of its own, sharing no
    token with the other copies or with the original."""
    fails = []
    what = f'{shape}[{type(m).__name__}, {type(d).__name__}]'
    box = {'tuple': (m, d), 'list': [d, m], 'dict': {'outer': m, 'inner': d}}[shape]
    try:
        cb = copy.deepcopy(box)
    except Exception as e:   # noqa: BLE001
        return [(f'C11:deepcopy-raises:container:{type(e).__name__}', f'copy.deepcopy({what}) raised {e!r}')]
    cm, cd = (cb[0], cb[1]) if shape == 'tuple' else (cb[1], cb[0]) if shape == 'list' else (cb['outer'], cb['inner'])
    for orig, c, nm in ((m, cm, 'outer'), (d, cd, 'inner')):
        try:
            if not (c == orig):
                fails.append(('C11:copy!=original:container', f'{what}: the copy of the {nm} member does not equal its original'))
        except Exception as e:   # noqa: BLE001
            fails.append(('C11:copy!=original:container', f'{what}: comparing the {nm} copy raised {e!r}'))
        if isinstance(c, base.RawTokenModel):
            if c.token_store is not None:
                fails.append(('C11:copy-inv:token-copy-in-a-store', f'{what}: the copied token already lives in a store (of another copy)'))
        elif isinstance(c, base.RawTreeModel):
            bad = intro.check_inv(c) if not intro.check_inv(orig) else []
            if bad:
                fails.append((f'C11:copy-inv:container:{bad[0][0]}', f'{what}: {nm} copy: {bad[0][1]}'))
    def toks(x):
        if isinstance(x, base.RawTokenModel):
            return {id(x)}
        if isinstance(x, base.RawTreeModel):
            return {id(t) for t in x.token_store} if x.token_store is not None else set()
        try:
            return {id(t) for it in x for t in (it.tokens if hasattr(it, 'tokens') else [it])}
        except Exception:   # noqa: BLE001
            return set()
    if toks(cm) & toks(cd):
        fails.append(('C11:shared-token:container', f'{what}: the two copies share token objects'))
    if (toks(cm) | toks(cd)) & {id(t) for t in root.token_store}:
        fails.append(('C11:shared-token:container', f'{what}: a copy shares token objects with the original document'))
    return fails


# ---- oracle: independence under edits ----------------------------------------------------------------------

class Snap:
    def __init__(self, m):
        self.m = m
        self.tok = isinstance(m, base.RawTokenModel)
        if self.tok:
            self.text = m.raw_text
            self.struct = None
            self.toks = None
            self.inv = []
        else:
            self.text = intro.pr(m)
            self.struct = intro.struct(m)
            self.toks = [(id(t), t.raw_text) for t in m.token_store]
            self.inv = [s for s, _ in intro.check_inv(m)]

    def diff(self):
        m = self.m
        try:
            if self.tok:
                return None if m.raw_text == self.text else f'token text {self.text!r} -> {m.raw_text!r}'
            t = intro.pr(m)
            if t != self.text:
                return f'printed text changed: {self.text[:60]!r} -> {t[:60]!r}'
            if [(id(x), x.raw_text) for x in m.token_store] != self.toks:
                return 'the token list of the store changed'
            s = intro.struct(m)
            if s != self.struct:
                return 'tree changed: ' + str(intro.struct_diff(self.struct, s))
            inv = [x for x, _ in intro.check_inv(m)]
            if inv != self.inv:
                return f'invariant changed: {self.inv} -> {inv}'
        except Exception as e:   # noqa: BLE001
            return f'reading the untouched side raised {e!r}'
        return None


def gen_edit(r, target):
    """One random edit of `target` (the copy or the original root) as a replayable op, or None."""
    if isinstance(target, base.RawTokenModel):
        n = type(target).__name__
        if n in edits.TOKEN_DOMAINS:
            spec = edits.TOKEN_DOMAINS[n](r)
            if spec['t'] == 'tok':
                return {'k': 'setattr', 'kind': 'tok-value', 'path': [], 'attr': 'value', 'val': spec['v']}
        if n == 'BlockComment':
            return {'k': 'setattr', 'kind': 'tok-value', 'path': [], 'attr': 'value', 'val': {'t': 'lit', 'v': r.choice(['c', 'a\nb', ''])}}
        return {'k': 'setattr', 'kind': 'tok-raw', 'path': [], 'attr': 'raw_text', 'val': {'t': 'lit', 'v': target.raw_text + r.choice(['', 'x'])}}
    if isinstance(target, (internal.Repeated, models.NumberAddExpr, models.NumberMulExpr)):
        toks = [t for t in intro.leaves(target) if type(t).__name__ in edits.TOKEN_DOMAINS and hasattr(t, 'value')]
        return None if not toks else {'k': 'leaf-value', 'kind': 'tok-value', 'leaf': intro.leaves(target).index(r.choice(toks)),
                                      'val': None}
    try:
        return edits.gen_op(r, target)
    except Exception:   # noqa: BLE001 - generator trouble on an unusual root is not a verdict
        return None


def apply_edit(r, target, op):
    if op['k'] == 'leaf-value':
        t = intro.leaves(target)[op['leaf']]
        if op['val'] is None:
            op['val'] = edits.TOKEN_DOMAINS[type(t).__name__](r)['v']
        try:
            t.value = edits.build_value(op['val'], target)
            return 'ok'
        except (ValueError, TypeError, AttributeError, KeyError, IndexError) as e:
            return edits.exc_tag(e)
    try:
        res = edits.apply_op(target, op)
    except edits.DonorError:
        return 'donor-error'
    except Exception as e:   # noqa: BLE001 - the op itself is not what C11 judges
        return 'raised:' + type(e).__name__
    return 'ok' if res[0] == 'ok' else res[1]


def edit_case(r, root, m, side, nops=6, ops=None):
    """Copy `m`; edit one side with `nops` random ops (or the recorded `ops`); the other side must not change.
    Returns (failure or None, ops applied, [(kind, outcome)])."""
    try:
        c = copy.deepcopy(m)
    except Exception:   # noqa: BLE001 - judged by copy_checks
        return None, [], []
    watched = Snap(root) if side == 'copy' else Snap(c)
    target = c if side == 'copy' else root
    done, outcomes = [], []
    for k in range(nops if ops is None else len(ops)):
        op = gen_edit(r, target) if ops is None else ops[k]
        if op is None:
            break
        out = apply_edit(r, target, op)
        done.append(op)
        outcomes.append((op['kind'], out))
        d = watched.diff()
        if d is not None:
            sig = 'C11:edit-copy-changed-original' if side == 'copy' else 'C11:edit-original-changed-copy'
            return (sig, f'{op["kind"]} on the {"copy" if side == "copy" else "original"} of/around {type(m).__name__}: {d}'), done, outcomes
        if out.startswith('raised:') or out in ('AttributeError', 'TypeError', 'AssertionError', 'ValueError:not-in-store'):
            break   # an internal error of the edit itself (other properties); the edited side may be unusable now
    return None, done, outcomes


# ---- run ---------------------------------------------------------------------------------------------------

def wrapper_case(r, root, m, name, steps=None):
    """A deep copy of a repeated FIELD (the raw wrapper, `copy.deepcopy(model.raw_xxx)`) is a list of its own: editing it
    changes nothing the original says, and editing the original changes nothing in the copy.  Returns (failure, steps)."""
    import copy as _copy
    before = intro.public_reads(m)                 # also creates every cached view of the original
    text0 = intro.pr(root)
    w = getattr(m, name)
    w2 = _copy.deepcopy(w)
    texts2 = [intro.pr(x) for x in w2]
    if texts2 != [intro.pr(x) for x in w]:
        return ('C11:wrapper-copy-differs:' + name, f'deepcopy({type(m).__name__}.{name}) does not hold copies of the same items'), []
    done = []
    plan = steps if steps is not None else [r.choice(['rot', 'pop', 'rot']) for _ in range(r.choice([1, 2, 3]))]
    for st in plan:
        done.append(st)
        try:
            if len(w2):
                x = w2.pop(-1 if st != 'rot' else 0)
                if st == 'rot':
                    w2.append(x)
        except Exception as e:
            return (f'C11:wrapper-copy-edit-raises:{type(e).__name__}', f'editing the copy of {type(m).__name__}.{name}: {e}'), done
        after = intro.public_reads(m)
        if after != before or intro.pr(root) != text0:
            bad = next((k for k in before if after.get(k) != before[k]), 'text')
            return (f'C11:wrapper-copy-edit-reaches-original:{name}', f'after editing a deep copy of {type(m).__name__}.{name} the original reads '
                    f'.{bad} = {str(after.get(bad))[:120]} (before: {str(before.get(bad))[:120]})'), done
    texts2 = [intro.pr(x) for x in w2]
    try:
        if len(w):
            w.pop(0)
    except Exception as e:
        return (f'C11:original-edit-raises-after-wrapper-copy:{type(e).__name__}', str(e)[:120]), done
    if [intro.pr(x) for x in w2] != texts2:
        return ('C11:original-edit-reaches-wrapper-copy:' + name, f'editing {type(m).__name__}.{name} changed its earlier deep copy'), done
    return None, done


def _documents(ctx, n):
    r = ctx.rng
    corpus = list(docs.corpus('File'))
    for k in range(n):
        if corpus and r.random() < 0.3:
            text = r.choice(corpus)
        else:
            text = docs.gen_file(r, r.choice((1, 2, 3, 5, 8)))
        auto = r.random() < 0.6
        try:
            root = edits.P().parse(text, models.File, auto_claim_comments=auto)
        except Exception:   # noqa: BLE001
            ctx.count('doc:rejected')
            continue
        pre_ops = gen_claim_ops(r, root, r.choice([0, 0, 2, 6])) if r.random() < 0.6 else []
        if r.random() < 0.4:
            # non-default data fields: `indent_by` is copied by clone() and compared by _eq
            for p, m in intro.walk_api(root):
                if hasattr(type(m), 'indent_by') and not isinstance(m, base.RawTokenModel) and r.random() < 0.5:
                    op = {'k': 'setattr', 'kind': 'indent-by', 'path': list(p), 'attr': 'indent_by',
                          'val': {'t': 'lit', 'v': r.choice(['  ', '\t', ' ', '      '])}}
                    edits.apply_op(root, op)
                    pre_ops.append(op)
        ctx.count('doc:accepted')
        ctx.count(f'doc:auto_claim={auto}')
        if pre_ops:
            ctx.count('doc:with-claim-history')
        yield text, auto, pre_ops, root


def run(ctx, ndocs=None, lockstep=True):
    r = ctx.rng
    ndocs = ndocs if ndocs is not None else ctx.scale(230, 5000)
    model_ok = lockstep and ctx.extra.get('model_available', True)
    lines, expect = [], []     # driver protocol lines and (expected output, replay) per line
    for text, auto, pre_ops, root in _documents(ctx, ndocs):
        base_replay = {'text': text, 'auto_claim': auto, 'pre_ops': pre_ops}
        pre_inv = intro.check_inv(root)
        if pre_inv:
            ctx.count('doc:invariant-broken-before-copy:' + pre_inv[0][0])
        nodes = list(intro.walk(root))
        if len(nodes) > 150:
            nodes = [nodes[0]] + r.sample(nodes[1:], 149)
            ctx.count('doc:sampled')
        dump = treedump.Dump(root) if model_ok else None
        if model_ok:
            lines.append(f'T inv {dump.doc_w()}')
            expect.append((treedump.ref_inv(dump.store, dump.tree), {**base_replay, 'mode': 'inv'}, 'T inv'))
        lock_budget = 12
        for path, m in nodes:
            c, fails = copy_checks(root, m)
            is_tok = isinstance(m, base.RawTokenModel)
            moved = bool(pre_ops)
            ctx.case((type(m).__name__, 'copy', 'raised' if c is None else 'ok', moved and not is_tok),
                     sample={'doc': text[:160], 'path': list(path), 'class': type(m).__name__} if ctx.evaluations % 997 == 0 else None)
            ctx.count('copy:' + ('token' if is_tok else 'repeated' if isinstance(m, internal.Repeated) else 'tree'))
            for sig, what in fails[:1]:
                ctx.oracle_fail(sig, what, {**base_replay, 'mode': 'copy', 'path': list(path)})
            if model_ok and not is_tok and lock_budget > 0 and (path == () or r.random() < 0.25):
                lock_budget -= 1
                rep = {**base_replay, 'mode': 'copy', 'path': list(path)}
                lines.append(f'T deepcopy {dump.doc_w()} {dump.path_w(m)}')
                if c is None:
                    exc = fails[0][0].split(':')[-1]
                    expect.append(('err ' + ('ValueError:not-in-store' if exc == 'ValueError' else exc), rep, 'T deepcopy'))
                else:
                    cd = treedump.Dump(c)
                    expect.append((f'ok {cd.doc_w()}', rep, 'T deepcopy'))
                    lines.append(f'T inv {cd.doc_w()}')
                    expect.append((treedump.ref_inv(cd.store, cd.tree), rep, 'T inv(copy)'))
        # independence: a few sub-models per document, each side
        trees = [x for x in nodes if not isinstance(x[1], base.RawTokenModel)]
        picks = [nodes[0], r.choice(trees), r.choice(nodes)]
        for path, m0 in picks:
            for side in ('copy', 'orig'):
                # the original is edited in the 'orig' cases: work on a fresh build of the document
                root2 = build_doc(text, auto, pre_ops)
                try:
                    m = by_path(root2, path)
                except Exception:   # noqa: BLE001
                    continue
                fail, done, outcomes = edit_case(r, root2, m, side)
                for kind, out in outcomes:
                    ctx.case((type(m).__name__, 'edit-' + side, kind, out))
                    ctx.count(f'edit-{side}:{kind}:{out}')
                if fail:
                    ctx.oracle_fail(fail[0], fail[1], {**base_replay, 'mode': 'edit-' + side, 'path': list(path), 'ops': done})
        # several overlapping pieces of the document copied in one call
        for _ in range(3):
            path, m0 = r.choice(trees)
            inner = [(p2, x) for p2, x in nodes if len(p2) > len(path) and tuple(p2[:len(path)]) == tuple(path)]
            if not inner or isinstance(m0, internal.Repeated):
                continue
            p2, d0 = r.choice(inner)
            shape = r.choice(['tuple', 'list', 'dict'])
            fails = container_checks(root, m0, d0, shape)
            ctx.case((type(m0).__name__, 'container-copy', shape, type(d0).__name__ if isinstance(d0, base.RawTokenModel) else 'tree', bool(fails)))
            ctx.count('container-copy:' + shape)
            for sig, what in fails[:1]:
                ctx.oracle_fail(sig, what, {**base_replay, 'mode': 'container', 'path': list(path), 'inner': list(p2), 'shape': shape})
        # deep copies of repeated FIELDS (raw wrappers)
        holders = [(p, m, name) for p, m in trees for name in intro.api_props(type(m))['rep'] if len(getattr(m, name))] \
            if all(not isinstance(m, (models.NumberAddExpr, models.NumberMulExpr, internal.Repeated)) or True for _, m in trees) else []
        holders = [(p, m, name) for p, m, name in holders if not isinstance(m, (models.NumberAddExpr, models.NumberMulExpr, internal.Repeated))]
        for path, m0, name in (r.sample(holders, 3) if len(holders) > 3 else holders):
            root2 = build_doc(text, auto, pre_ops)
            try:
                m = by_path(root2, path)
            except Exception:   # noqa: BLE001
                continue
            fail, done = wrapper_case(r, root2, m, name)
            ctx.case((type(m).__name__, 'wrapper-copy', name, 'fail' if fail else 'ok'))
            ctx.count('wrapper-copy:' + name)
            if fail:
                ctx.oracle_fail(fail[0], fail[1], {**base_replay, 'mode': 'wrapper', 'path': list(path), 'name': name, 'steps': done})
    # exact: the same operation on a document with a history and on a deep copy of it taken just before has the same outcome
    import session
    session.run_sessions(ctx, ctx.scale(150, 3000) if ndocs is None or ndocs > 200 else 60, 12, ['twin'], malformed=0.1, prefix='C11:')
    if model_ok and lines:
        out = ctx.driver.run(lines)
        ctx.extra['lockstep_lines'] = len(lines)
        for got, (exp, rep, stream) in zip(out, expect):
            ctx.count('lockstep:' + stream)
            if got != exp:
                ctx.divergence(stream, {'model': got[:400], 'real': exp[:400]}, rep)


def search(ctx, hints):
    run(ctx, ndocs=ctx.scale(400, 4000), lockstep=False)


def replay(ctx, data):
    rep = data.get('replay') or data.get('first_diverging_replay') or data
    if not rep or 'text' not in rep:
        return False
    if 'ops' in rep and 'oracles' in rep:
        import session
        return not session.replay(data, ['twin'])
    root = build_doc(rep['text'], rep['auto_claim'], rep.get('pre_ops', []))
    mode = rep.get('mode', 'copy')
    if mode == 'inv':
        return not intro.check_inv(root)
    m = by_path(root, rep.get('path', []))
    if mode == 'copy':
        _, fails = copy_checks(root, m)
        return not fails
    if mode == 'container':
        return not container_checks(root, m, by_path(root, rep['inner']), rep['shape'])
    if mode == 'wrapper':
        fail, _ = wrapper_case(ctx.rng, root, m, rep['name'], steps=rep.get('steps'))
        return fail is None
    side = mode.split('-', 1)[1]
    fail, _, _ = edit_case(ctx.rng, root, m, side, ops=rep.get('ops', []))
    return fail is None
