"""C06 - what the model says is what the printed text says (print -> parse -> same structure)."""
import decimal
import session, intro, edits, slicegrid
from autobean_refactor import models

ID = 'C06'
PROPERTY_FILE = 'Autobean/Properties/C06.lean'
LEAN_TARGETS = ['Autobean.Properties.C06', 'Autobean.Obligations.Schema']
RULE = ('syntax-preserving edit histories (no raw-text/spacing/indent overrides, in-domain values, inserted raw nodes with a '
        'fitting indent) on normally parsed documents; after every operation the printed document is re-parsed by the '
        'real parser and compared structurally (classes, fields, nesting, order, token texts; block-comment attribution, '
        'trailing blanks of inline comments / ignored lines and zero-width private marks aside). '
        'distinct non-trivial = distinct (operation kind, parent class, field, outcome)')
ASSUMPTIONS = ['documents are parsed with the default attribution mode (auto_claim_comments=True)',
               'Transaction.raw_string0/1/2 (generated slots behind payee/narration) are edited only by the known-finding probe']


def _classify(ctx):
    """Map failures that are exactly the documented custom-values limitation to its known signature."""
    for f in ctx.oracle_fails:
        if f.get('classified'):
            continue
        f['classified'] = True
        rep = f['replay']
        try:
            fails, _ = session.run_history(rep['text'], rep['auto_claim'], rep['ops'], ['reparse'])
            root = edits.P().parse(rep['text'], models.File, auto_claim_comments=rep['auto_claim'])
            for op in rep['ops']:
                try:
                    edits.apply_op(root, op)
                except edits.DonorError:
                    pass
            if _custom_unary_pattern(root):
                f['sig'] = 'C06:custom.values:number-after-number:unary'
            elif _glued_slash_currency(root):
                f['sig'] = 'C06:glued-number-currency:slash-read-as-currency'
        except Exception:
            pass


def _first_number(v):
    if isinstance(v, models.Amount):
        return v.raw_number
    if isinstance(v, models.NumberExpr):
        return v
    return None


def _custom_unary_pattern(root):
    for d in root.raw_directives:
        if not isinstance(d, models.Custom):
            continue
        prev = None
        for v in d.raw_values:
            n = _first_number(v)
            if isinstance(prev, models.NumberExpr) and n is not None:
                ft = n.first_token
                if type(ft).__name__ == 'UnaryOp':
                    return True
            prev = v
    return False


def _glued_slash_currency(root):
    """The recorded finding, exactly: a currency token directly preceded (nothing with text in between) by numbers glued to a
    division sign - `/7.USD` - so that sign, digits and currency together are ONE valid currency lexeme."""
    import re
    toks = [t for t in root.token_store if t.raw_text]
    for i, t in enumerate(toks):
        if type(t).__name__ != 'Currency':
            continue
        j = i - 1
        while j >= 0 and type(toks[j]).__name__ == 'Number':
            j -= 1
        if j >= 0 and j < i - 1 and type(toks[j]).__name__ == 'MulOp' and toks[j].raw_text == '/':
            lexeme = ''.join(x.raw_text for x in toks[j:i + 1])
            try:
                edits.P().parse_token(lexeme, models.Currency)
                return True
            except Exception:
                pass
    return False


def _probes(ctx):
    """Deterministic probes of the two recorded findings (so that they are reported on every run)."""
    p = edits.P()
    c = p.parse('2000-01-01 custom "x" 1', models.Custom)
    c.raw_values.append(models.NumberExpr.from_value(decimal.Decimal(-2)))
    again = p.parse(intro.pr(c), models.Custom)
    ctx.case(('probe', 'custom-unary'))
    if len(again.raw_values) != len(c.raw_values):
        ctx.oracle_fail('C06:custom.values:number-after-number:unary', f'{intro.pr(c)!r} re-reads with {len(again.raw_values)} value(s)',
                        {'probe': 'custom-unary'})
    g = p.parse('2000-01-01 balance Assets:Foo 100.00USD', models.File)
    g.raw_directives[0].raw_number.raw_number_add_expr = p.parse('0/7.', models.NumberExpr).raw_number_add_expr
    ctx.case(('probe', 'glued-slash-currency'))
    try:
        again_g = p.parse(intro.pr(g), models.File)
        same = session.reparse_struct(again_g) == session.reparse_struct(g)
    except Exception:
        same = False
    if not same:
        ctx.oracle_fail('C06:glued-number-currency:slash-read-as-currency', f'{intro.pr(g)!r} re-reads with the currency {"/7.USD"!r}', {'probe': 'glued-slash-currency'})
    t = p.parse('2000-01-01 * "p" "n"', models.Transaction)
    t.raw_string2 = None
    again = p.parse(intro.pr(t), models.Transaction)
    ctx.case(('probe', 'raw_string2'))
    if (again.payee, again.narration) != (t.payee, t.narration):
        ctx.oracle_fail('C06:transaction.raw_string2=None:payee-present', f'{intro.pr(t)!r} re-reads as payee={again.payee!r} narration={again.narration!r}',
                        {'probe': 'raw_string2'})


def _txn_strings_grid(ctx):
    """payee / narration: every sequence of at most two value assignments from {None, '', 'x'} on the three header forms; after
    every accepted step the printed header re-reads as the (payee, narration) the model reports."""
    import itertools
    p = edits.P()
    forms = ['2000-01-01 *', '2000-01-01 * "n"', '2000-01-01 * "p" "n"', '2000-01-01 * "" "n"']
    steps = [(a, v) for a in ('payee', 'narration') for v in (None, '', 'x')]
    for form in forms:
        for seq in itertools.chain(((s1,) for s1 in steps), itertools.product(steps, steps)):
            t = p.parse(form + '\n  Assets:A  1 USD', models.Transaction)
            ok = True
            for a, v in seq:
                try:
                    setattr(t, a, v)
                except Exception:
                    ok = False       # a refused combination: C09 / C19 matter
                    break
            if not ok:
                continue
            ctx.case(('txn-strings', form, seq))
            text = intro.pr(t)
            try:
                again = p.parse(text, models.Transaction)
                got = (again.payee, again.narration)
            except Exception as e:
                got = f'does not parse: {type(e).__name__}'
            if got != (t.payee, t.narration):
                ctx.oracle_fail(f'C06:transaction-strings:{seq[-1][0]}={seq[-1][1]!r}', f'{form!r} after {list(seq)}: the model says payee={t.payee!r} narration={t.narration!r}, '
                                f'the printed text {text.splitlines()[0]!r} re-reads as {got}', {'probe': 'txn-strings', 'form': form, 'seq': [list(x) for x in seq]})


def _custom_constructor_grid(ctx):
    """Custom.from_value / from_children are the documented disambiguating path (a sign-leading number after a number is put
    in parentheses): every value sequence of length <= 3 over a small alphabet, and every length-4 sequence of numbers and
    amounts, prints to text that re-reads as the same values (alone and appended to a file).  The recorded finding is about
    values inserted through the wrappers afterwards, never about a freshly constructed entry."""
    import itertools, datetime
    p = edits.P()
    D = decimal.Decimal
    alpha = {
        'n1': lambda: D(1), 'n-2': lambda: D(-2), 'n-0.5': lambda: D('-0.5'),
        'a-3': lambda: models.Amount.from_value(D(-3), 'USD'), 'a4': lambda: models.Amount.from_value(D(4), 'USD'),
        'raw+5': lambda: p.parse('+5', models.NumberExpr), 'raw(6)': lambda: p.parse('(6)', models.NumberExpr),
        's': lambda: 'str', 'b': lambda: True, 'd': lambda: datetime.date(2001, 2, 3),
        'acc': lambda: models.Account.from_value('Assets:A'),
    }
    numeric = ['n1', 'n-2', 'a-3', 'raw+5', 'raw(6)']
    seqs = [q for n in (1, 2, 3) for q in itertools.product(alpha, repeat=n)] + list(itertools.product(numeric, repeat=4))

    def canon(v):
        return intro.pr(v) if isinstance(v, models.RawModel) else repr(v)
    def flags(v):
        """(kind, sign) of a value as `_disambiguate_values` sees it: n/a/o, first token of its number is a unary sign."""
        if isinstance(v, decimal.Decimal):
            return 'n', v.is_signed()
        n = v if isinstance(v, models.NumberExpr) else v.raw_number if isinstance(v, models.Amount) else None
        if n is None:
            return 'o', False
        return ('n' if isinstance(v, models.NumberExpr) else 'a'), type(n.first_token).__name__ == 'UnaryOp'

    def wrapped(v, raw):
        n = raw if isinstance(raw, models.NumberExpr) else raw.raw_number if isinstance(raw, models.Amount) else None
        return n is not None and type(n.first_token).__name__ == 'LeftParen'
    lock = []
    for q in seqs:
        for via in ('value', 'children'):
            vals = [alpha[k]() for k in q]
            fl = [flags(v) for v in vals]
            pre_paren = [wrapped(v, v) if isinstance(v, models.RawModel) else False for v in vals]
            try:
                if via == 'value':
                    c = models.Custom.from_value(datetime.date(2000, 1, 1), 't', vals)
                else:
                    raws = [v if isinstance(v, models.RawModel) else
                            (models.EscapedString.from_value(v) if isinstance(v, str) else
                             models.Bool.from_value(v) if isinstance(v, bool) else
                             models.Date.from_value(v) if isinstance(v, datetime.date) else
                             models.NumberExpr.from_value(v)) for v in vals]
                    c = models.Custom.from_children(models.Date.from_value(datetime.date(2000, 1, 1)), models.EscapedString.from_value('t'), raws)
            except Exception as e:
                ctx.oracle_fail(f'C06:custom-constructor:raises:{type(e).__name__}', f'{via} {q}: {e}', {'probe': 'custom-constructor', 'seq': list(q), 'via': via})
                continue
            ctx.case(('custom-constructor', via, len(q), tuple(k[0] for k in q)))
            want = [canon(v) for v in c.values]
            # the model of the disambiguation loop (theorem disamb_reads_all): which values were put in parentheses
            got_w = ''.join('1' if (wrapped(None, r) and not pp) else '0' for r, pp in zip(c.raw_values, pre_paren))
            lock.append(('D ' + ','.join(k + ('1' if sg else '0') for k, sg in fl), f'ok {got_w} read={len(q)}',
                         {'probe': 'custom-constructor', 'seq': list(q), 'via': via}))
            f = models.File.from_value([c])
            text = intro.pr(f)
            try:
                again = p.parse(text, models.File)
                got = [canon(v) for v in again.directives[0].values]
            except Exception as e:
                got = f'does not parse: {type(e).__name__}'
            if got != want:
                ctx.oracle_fail('C06:custom-constructor:reparse', f'Custom.from_{via} with values {list(q)}: the model holds {want}, the printed text {text!r} '
                                f're-reads as {got}', {'probe': 'custom-constructor', 'seq': list(q), 'via': via})
                break
        else:
            continue
        break
    # the reader itself (`merges` of the model is a statement about the grammar): the same values put in WITHOUT the
    # constructors' disambiguation (appended through the raw wrapper) re-read as exactly as many values as the model's
    # reader counts - fewer than given exactly in the situations of the recorded finding
    for q in [x for n in (2, 3) for x in itertools.product(numeric + ['s'], repeat=n)]:
        vals = [alpha[k]() for k in q]
        raws = [v if isinstance(v, models.RawModel) else models.EscapedString.from_value(v) if isinstance(v, str) else models.NumberExpr.from_value(v) for v in vals]
        fl = [flags(v) for v in raws]
        try:
            c = models.Custom.from_value(datetime.date(2000, 1, 1), 't', [])
            for r_ in raws:
                c.raw_values.append(r_)
            again = p.parse(intro.pr(c), models.Custom)
            k = len(again.raw_values)
        except Exception as e:
            k = f'does not parse: {type(e).__name__}'
        ctx.case(('custom-reader', tuple(a + ('1' if b else '0') for a, b in fl), k))
        lock.append(('D raw ' + ','.join(a + ('1' if b else '0') for a, b in fl), f'ok read={k}', {'probe': 'custom-constructor', 'seq': list(q), 'via': 'raw-append'}))
    if lock and ctx.extra.get('model_available', True) and getattr(ctx, 'driver', None) is not None:
        outs = ctx.driver.run([l for l, _, _ in lock])
        bad = 0
        for (l, exp, rep), out in zip(lock, outs):
            if out.strip() != exp and bad < 3:
                bad += 1
                ctx.divergence('custom-disambiguation', {'line': l, 'model': out[:200], 'real': exp}, rep)
        ctx.extra['custom_constructions_validated_against_model'] = len(lock)


def run(ctx):
    _txn_strings_grid(ctx)
    _custom_constructor_grid(ctx)
    session.run_sessions(ctx, ctx.scale(220, 5000), ctx.scale(12, 30), ['reparse', 'fresh'], syntax_preserving=True, auto_claim_only=True)
    slicegrid.run(ctx, ['reparse'], syntax_preserving=True)
    import slotgrid
    slotgrid.run(ctx, ['reparse'])
    _classify(ctx)
    _probes(ctx)


def search(ctx, hints):
    session.run_sessions(ctx, ctx.scale(1500, 8000), 25, ['reparse', 'fresh'], syntax_preserving=True, auto_claim_only=True)
    _classify(ctx)


def replay(ctx, data):
    rep = data.get('replay') or data
    if rep.get('probe') in ('txn-strings', 'custom-constructor'):
        import check
        c = check.Ctx('C06', 'quick', ctx.seed)
        (_txn_strings_grid if rep['probe'] == 'txn-strings' else _custom_constructor_grid)(c)
        return not c.oracle_fails
    if rep.get('probe'):
        c = type('C', (), {'oracle_fails': [], 'case': lambda *a, **k: None, 'oracle_fail': lambda self, *a: self.oracle_fails.append(a)})()
        return False
    return not session.replay(data, ['reparse', 'fresh'])
