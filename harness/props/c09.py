"""C09 - a value written through a property is the value read back, siblings unaffected.

Three parts, all on the real objects of /repo:
  A. cost group (CostSpec.number_per / number_total / currency / date / label / merge, value level and raw level):
     history-mode correspondence with the Lean model `Autobean.Cost` (driver prefix `Q`) + oracle (a Python
     record-of-optionals with the rejection rule; print -> re-parse after every step; siblings unchanged);
  B. transaction payee / narration (value level and raw level): same, model `Autobean.Txn`;
  C. generic sweep: every value-level property of every tree model found in corpus documents.
"""
from __future__ import annotations
import ast, copy, datetime, decimal, io, itertools
from common import REPO

from autobean_refactor import parser as _parser, models, printer
from autobean_refactor.models import base as _base, internal as _internal
from autobean_refactor.models.internal import value_properties as _vp, fields as _fields
from autobean_refactor.models import meta_value_internal as _mvi

ID = 'C09'
PROPERTY_FILE = 'Autobean/Properties/C09.lean'
LEAN_TARGETS = ['Autobean.Properties.C09', 'Autobean.Obligations.CachesValues']
TECHNIQUE = 'Lean 4 refinement proof (setter branches vs record-of-optionals, histories by induction) + history-mode correspondence'
RULE = ('A: assignment histories on real CostSpec objects parsed from every documented start form (8 main shapes x {} / {{}} x '
        'subsets of date/label/* in varied order, free-standing and inside a posting of a File); exhaustive sequences of '
        'length <= 2 (thorough: <= 3 over the 12 dependent value-level ops, <= 4 over 9 of them) over a 3-value domain + None, value-level and raw '
        'setters, + random sequences of length 8; every step is replayed on the Lean model (components, brace kind, six '
        'getters) and judged by a record-of-optionals, print -> re-parse, siblings. B: the same for Transaction payee / '
        'narration / raw_payee / raw_narration from the three header forms. C: every value-level property of every tree model '
        'in the corpus documents (string literals of the repo tests that parse as File + one all-directives ledger): assign an '
        'in-domain value (None for optional ones), read back, other value properties of the same model, print -> re-parse. '
        'distinct non-trivial = distinct (part, class/shape before, property, level, value kind, outcome, shape after)')
ASSUMPTIONS = [
    'values are compared through small ids (cost/transaction groups) or canonical (type, text) pairs (generic sweep)',
    'Transaction.string0/1/2 are not assigned: they are the generated slots behind payee/narration (string0 is NEVER in the grammar)',
    'non-canonical CostSpec found in corpus documents (e.g. `{1, USD}`) are outside the quantifier of the cost group and skipped there',
    'a negative number is not assigned to a number/amount inside `custom` values (juxtaposed expressions: `1 -3` re-reads as one; code TODO, tracked under C06)',
    'a leading/trailing comment is judged after re-parse only when the text determines its owner (documented attribution rules: a comment directly before a line of the same indentation is that line\'s leading comment; adjacent comment lines are one comment)',
    'in-domain values only: no exponent decimals, flags from the flag alphabet, inline comments without leading blank or newline (codec domain is C12)',
    'spacing_* / raw_* properties are not value-level properties (C17 / C03)',
]

P = _parser.Parser()
D = decimal.Decimal


def prn(m) -> str:
    b = io.StringIO()
    printer.print_model(m, b)
    return b.getvalue()


# =====================================================================================================
# A. cost group
# =====================================================================================================
NUMS = {1: D('1'), 2: D('2.50'), 3: D('-3')}
CURS = {1: 'USD', 2: 'EUR', 3: 'CAD'}
DATES = {1: datetime.date(2000, 1, 1), 2: datetime.date(2012, 12, 31), 3: datetime.date(1999, 2, 28)}
LABELS = {1: 'label', 2: '', 3: 'a "q" \\ b\nc'}
DOM = {'per': NUMS, 'tot': NUMS, 'cur': CURS, 'date': DATES, 'label': LABELS}
PROP = {'per': 'number_per', 'tot': 'number_total', 'cur': 'currency', 'date': 'date', 'label': 'label', 'merge': 'merge'}
RAWPROP = {'per': 'raw_number_per', 'tot': 'raw_number_total', 'cur': 'raw_currency', 'date': 'raw_date',
           'label': 'raw_label', 'merge': 'raw_asterisk'}
NODE = {'per': models.NumberExpr, 'tot': models.NumberExpr, 'cur': models.Currency, 'date': models.Date,
        'label': models.EscapedString}
MAINS = {'none': None, 'N': '1', 'U': 'USD', 'A': '1 USD', 'C11': '1 # 2.50 USD', 'C10': '1 # USD', 'C01': '# 2.50 USD',
         'C00': '# USD'}
MAIN_DUMP = {'none': None, 'N': 'N:1', 'U': 'U:1', 'A': 'A:1:1', 'C11': 'C:1:2:1', 'C10': 'C:1:-:1', 'C01': 'C:-:2:1',
             'C00': 'C:-:-:1'}
EXTRAS = {'D': '2000-01-01', 'L': '"label"', 'X': '*'}
EXTRA_DUMP = {'D': 'D:1', 'L': 'L:1', 'X': 'X'}

FILE_PRE = ('2000-01-01 open Assets:A\n\n2000-01-02 * "payee" "narr" #tag\n  note: "x"\n  ! Assets:A  10.00 FOO ')
FILE_POST = (' @ 2 EUR ; cmt\n    mm: 1\n  Assets:B  -5 USD\n\n2000-01-03 close Assets:A\n')


def rev(dom, v):
    if v is None:
        return '-'
    for k, x in dom.items():
        if x == v:
            return str(k)
    return '?'


def form_text(form):
    """form = {'total': bool, 'order': [keys]} -> '{...}'."""
    parts = [MAINS[k] if k in MAINS else EXTRAS[k] for k in form['order']]
    inner = ', '.join(parts)
    return ('{{' + inner + '}}') if form['total'] else ('{' + inner + '}')


def form_dump(form):
    parts = [MAIN_DUMP[k] if k in MAIN_DUMP else EXTRA_DUMP[k] for k in form['order']]
    return ','.join(parts) or '-'


class CostCase:
    """One real CostSpec (free-standing, or inside a posting of a File) + its record-of-optionals."""

    def __init__(self, form, attached):
        self.form, self.attached = form, attached
        text = form_text(form)
        if attached:
            self.root = P.parse(FILE_PRE + text + FILE_POST, models.File)
            self.cost = self.locate(self.root)
            self.sib0 = self.siblings(self.root)
        else:
            self.root = self.cost = P.parse(text, models.CostSpec)
            self.sib0 = None
        self.rec = self.getters()

    @staticmethod
    def locate(f):
        txn = [d for d in f.raw_directives if isinstance(d, models.Transaction)][0]
        return txn.raw_postings[0].raw_cost

    @staticmethod
    def siblings(f):
        ds = list(f.raw_directives)
        txn = ds[1]
        p = txn.raw_postings[0]
        return (p.flag, p.account, p.number, p.currency, p.price.number, p.price.currency, p.inline_comment,
                prn(p.raw_meta[0]), prn(txn.raw_postings[1]), txn.payee, txn.narration, list(txn.tags), prn(ds[0]), prn(ds[2]),
                len(ds), len(txn.raw_postings))

    def getters(self, c=None):
        c = c or self.cost
        return {'per': c.number_per, 'tot': c.number_total, 'cur': c.currency, 'date': c.date, 'label': c.label,
                'merge': c.merge}

    def comps(self):
        out = []
        for x in self.cost.raw_cost.raw_components:
            if isinstance(x, models.CompoundAmount):
                out.append(f'C:{rev(NUMS, x.number_per)}:{rev(NUMS, x.number_total)}:{rev(CURS, x.currency)}')
            elif isinstance(x, models.Amount):
                out.append(f'A:{rev(NUMS, x.number)}:{rev(CURS, x.currency)}')
            elif isinstance(x, models.NumberExpr):
                out.append(f'N:{rev(NUMS, x.value)}')
            elif isinstance(x, models.Currency):
                out.append(f'U:{rev(CURS, x.value)}')
            elif isinstance(x, models.Date):
                out.append(f'D:{rev(DATES, x.value)}')
            elif isinstance(x, models.EscapedString):
                out.append(f'L:{rev(LABELS, x.value)}')
            elif isinstance(x, models.Asterisk):
                out.append('X')
            else:
                out.append('?' + type(x).__name__)
        return out

    def dump(self, g=None):
        c = self.cost
        comps = self.comps()
        kinds = [x[0] for x in comps]
        canon = (sum(kinds.count(k) for k in 'CANU') <= 1 and kinds.count('D') <= 1 and kinds.count('L') <= 1
                 and kinds.count('X') <= 1)
        g = g or self.getters()
        return (f't={int(isinstance(c.raw_cost, models.TotalCost))} comps={",".join(comps) or "-"} '
                f'per={rev(NUMS, g["per"])} tot={rev(NUMS, g["tot"])} cur={rev(CURS, g["cur"])} '
                f'date={rev(DATES, g["date"])} label={rev(LABELS, g["label"])} merge={int(g["merge"])} canon={int(canon)}')

    def shape(self):
        kinds = [x[0] for x in self.comps()]
        main = ''.join(k for k in kinds if k in 'CANU') or '-'
        return ('T' if isinstance(self.cost.raw_cost, models.TotalCost) else 'U') + main

    def assign(self, op):
        """op = [raw(0/1), field, vid or None].  Returns exception tag or None."""
        raw, f, vid = op
        try:
            if f == 'reseat':
                # the cost body is replaced by an equal, freshly built one through the public raw_cost setter: nothing a
                # value property reads may depend on which object holds the components
                self.cost.raw_cost = copy.deepcopy(self.cost.raw_cost)
            elif f == 'merge':
                if raw:
                    self.cost.raw_asterisk = models.Asterisk.from_default() if vid else None
                else:
                    self.cost.merge = bool(vid)
            else:
                v = None if vid is None else DOM[f][vid]
                if raw:
                    setattr(self.cost, RAWPROP[f], None if v is None else NODE[f].from_value(v))
                else:
                    setattr(self.cost, PROP[f], v)
        except ValueError as e:
            msg = str(e)
            if 'Cannot set both number_per and number_total' in msg or 'Cannot remove currency from compound amount' in msg:
                return 'ValueError:cost'
            return 'ValueError:' + msg[:40]
        return None

    def text(self):
        return prn(self.root)


def rec_apply(rec, op):
    """The record-of-optionals: returns (new record, rejected?)."""
    raw, f, vid = op
    if f == 'reseat':
        return rec, False
    new = dict(rec)
    new[f] = bool(vid) if f == 'merge' else (None if vid is None else DOM[f][vid])
    if new['per'] is not None and new['tot'] is not None and new['cur'] is None:
        return rec, True
    return new, False


def op_line(op):
    raw, f, vid = op
    v = ('1' if vid else '0') if f == 'merge' else ('-' if vid is None else str(vid))
    return f'Q set {int(bool(raw))} {f} {v}'


def cost_oracle(case: CostCase, op, err, text_before, g):
    """Judges one step on the real objects (g = the six getters after the step). Returns (sig, what) or None; updates case.rec."""
    raw, f, vid = op
    new, rejected = rec_apply(case.rec, op)
    lvl = 'raw' if raw else 'val'
    if err is not None and err != 'ValueError:cost':
        return (f'C09:cost:unexpected-exception:{f}:{lvl}', f'{err}')
    if rejected:
        if err is None:
            return (f'C09:cost:not-rejected:{f}:{lvl}', f'assignment accepted but record has both numbers and no currency; getters {case.getters()}')
        if case.text() != text_before:
            return (f'C09:cost:rejected-but-changed:{f}:{lvl}', f'text {text_before!r} -> {case.text()!r}')
        if g != case.rec:
            return (f'C09:cost:rejected-but-changed:{f}:{lvl}', f'getters {g} != {case.rec}')
        return None
    if err is not None:
        return (f'C09:cost:spurious-rejection:{f}:{lvl}', f'{err} although the record update {new} is admissible')
    case.rec = new
    if f == 'reseat':
        if g != new or case.text() != text_before:
            return ('C09:cost:reseat-changed', f'after raw_cost = deepcopy(raw_cost): getters {g} vs record {new}, text {text_before!r} -> {case.text()!r}')
        return None
    if g[f] != new[f]:
        return (f'C09:cost:read-back:{f}:{lvl}', f'{PROP[f]} reads {g[f]!r} after assigning {new[f]!r}')
    if g != new:
        bad = [k for k in g if g[k] != new[k]]
        return (f'C09:cost:sibling:{f}->{",".join(bad)}:{lvl}', f'after {PROP[f]}={new[f]!r}: getters {g} != record {new}')
    # print -> re-parse
    text = case.text()
    try:
        if case.attached:
            f2 = P.parse(text, models.File)
            c2 = CostCase.locate(f2)
            sib = CostCase.siblings(f2)
        else:
            c2 = P.parse(text, models.CostSpec)
            sib = None
    except Exception as e:
        return (f'C09:cost:reparse-fails:{f}:{lvl}', f'{type(e).__name__} on {text!r}')
    g2 = case.getters(c2)
    if g2 != new:
        bad = [k for k in g2 if g2[k] != new[k]]
        return (f'C09:cost:reparse:{f}->{",".join(bad)}:{lvl}', f'{text!r} re-reads {g2} != record {new}')
    if case.attached:
        if CostCase.siblings(case.root) != case.sib0:
            return (f'C09:cost:outside-sibling:{f}:{lvl}', f'posting/transaction/other directives changed: {CostCase.siblings(case.root)} vs {case.sib0}')
        if sib != case.sib0:
            return (f'C09:cost:outside-sibling-reparse:{f}:{lvl}', f're-parsed siblings {sib} vs {case.sib0}')
    return None


def run_cost_sequence(ctx, form, attached, ops, batches, check_from=0):
    """Runs one history on a fresh real object; appends a batch (replay, [(line, expected|None)]) to `batches`;
    oracle on steps >= check_from.  Returns replay dict when the oracle failed, else None."""
    rep = {'part': 'cost', 'form': form, 'attached': attached, 'ops': [list(o) for o in ops]}
    lines = []
    batches.append((rep, lines))
    try:
        case = CostCase(form, attached)
    except Exception as e:
        ctx.oracle_fail('C09:cost:start-form-does-not-parse', f'{form_text(form)!r}: {type(e).__name__}', rep)
        return rep
    d0 = case.dump(case.rec)
    exp_comps = form_dump(form)
    if f' comps={exp_comps} ' not in d0 or ' canon=1' not in d0:
        ctx.divergence('cost-start-form', {'form': form_text(form), 'real': d0, 'expected_comps': exp_comps}, rep)
    lines.append((f'Q start {int(form["total"])} {d0.split(" comps=")[1].split(" ")[0]}', 'ok ' + d0))
    for i, op in enumerate(ops):
        full = i >= check_from
        before = case.text() if full else None
        shape0 = case.shape()
        try:
            err = case.assign(op)
        except Exception as e:
            ctx.oracle_fail(f'C09:cost:unexpected-{type(e).__name__}:{op[1]}:{"raw" if op[0] else "val"}',
                            f'{type(e).__name__}: {e}', rep)
            return rep
        if not full:
            if op[1] != 'reseat':
                lines.append((op_line(op), None))
            case.rec, _ = rec_apply(case.rec, op)
            continue
        g = case.getters()
        dump = case.dump(g)
        if op[1] != 'reseat':   # no model step: the model's state is the component list, which the reseat leaves as it is
            lines.append((op_line(op), ('ok ' if err is None else f'err {err} ') + dump))
        bad = cost_oracle(case, op, err, before, g)
        vk = 'none' if op[2] is None else 'some'
        ctx.count(f'cost:{op[1]}:{"raw" if op[0] else "val"}:{"err" if err else "ok"}')
        ctx.case(('cost', shape0, op[1], bool(op[0]), vk, err or 'ok', case.shape(), attached),
                 sample={'start': form_text(form), 'attached': attached, 'ops': [list(o) for o in ops[:i + 1]], 'after': dump}
                 if ctx.evaluations % 4999 == 0 else None)
        if bad:
            ctx.oracle_fail(bad[0], bad[1] + f' [start {form_text(form)}, ops {ops[:i + 1]}]', dict(rep, ops=[list(o) for o in ops[:i + 1]]))
            return rep
    return None


class _Probe:
    """A throw-away ctx for re-running a history with the oracle only."""

    def __init__(self, ctx):
        self.rng, self.thorough, self.evaluations = ctx.rng, ctx.thorough, 1
        self.oracle_fails, self.extra, self.notes = [], {}, []

    def count(self, *a, **k):
        pass

    def case(self, *a, **k):
        pass

    def divergence(self, *a, **k):
        pass

    def oracle_fail(self, sig, what, replay):
        self.oracle_fails.append({'sig': sig, 'what': what, 'replay': replay})


def shrink_last_failure(ctx, runner):
    """Delta-debugging over the operations of the last reported failing history (same signature must remain)."""
    if not ctx.oracle_fails:
        return
    f = ctx.oracle_fails[-1]
    rep = f['replay']
    if rep.get('part') not in ('cost', 'txn'):
        return
    ops = [tuple(o) for o in rep['ops']]
    best = f
    changed = True
    while changed and len(ops) > 1:
        changed = False
        for i in range(len(ops)):
            cand = ops[:i] + ops[i + 1:]
            pr = _Probe(ctx)
            try:
                runner(pr, rep['form'], rep['attached'], cand, [])
            except Exception:
                continue
            if pr.oracle_fails and pr.oracle_fails[0]['sig'] == f['sig']:
                ops = [tuple(o) for o in pr.oracle_fails[0]['replay']['ops']]
                best = pr.oracle_fails[0]
                changed = True
                break
    ctx.oracle_fails[-1] = best


def all_forms(extras_sets):
    out = []
    for main in MAINS:
        for total in (False, True):
            for ex in extras_sets:
                order = ([] if main == 'none' else [main]) + list(ex)
                out.append({'total': total, 'order': order})
    return out


def random_form(rng):
    main = rng.choice(list(MAINS))
    ex = [k for k in 'DLX' if rng.random() < 0.5]
    order = ([] if main == 'none' else [main]) + ex
    rng.shuffle(order)
    return {'total': rng.random() < 0.5, 'order': order}


def alphabet(kind):
    ops = []
    if kind == 'dep9':
        for f in ('per', 'tot', 'cur'):
            for v in (None, 1, 2):
                ops.append((0, f, v))
        return ops
    for f in ('per', 'tot', 'cur'):
        for v in (None, 1, 2, 3):
            ops.append((0, f, v))
    if kind == 'dep12':
        return ops
    if kind == 'small':
        for f in ('date', 'label'):
            for v in (None, 2):
                ops.append((0, f, v))
        ops += [(0, 'merge', 0), (0, 'merge', 1)]
        for f in ('per', 'tot', 'cur'):
            for v in (None, 3):
                ops.append((1, f, v))
        return ops
    for f in ('date', 'label'):
        for v in (None, 1, 2, 3):
            ops.append((0, f, v))
    ops += [(0, 'merge', 0), (0, 'merge', 1)]
    ops += [(1, f, v) for (_, f, v) in list(ops)]
    return ops


def run_cost(ctx, batches, with_random=True, budget_scale=1):
    rng = ctx.rng
    nseq = 0
    # exhaustive part
    forms = all_forms([(), ('D', 'L', 'X')])
    small = alphabet('small')
    dep12 = alphabet('dep12')
    for form in forms:
        bare = len(form['order']) <= 1
        for n in (1, 2):
            # length 2: all 24 x 24 from the bare forms; the 12 x 12 dependent value-level ops from the forms with date, label, *
            for ops in itertools.product(small if (bare or n == 1 or ctx.thorough) else dep12, repeat=n):
                if run_cost_sequence(ctx, form, False, list(ops), batches, check_from=n - 1):
                    return
                nseq += 1
    if ctx.thorough:
        for form in forms:
            for ops in itertools.product(dep12, repeat=3):
                if run_cost_sequence(ctx, form, False, list(ops), batches, check_from=2):
                    return
                nseq += 1
        dep = alphabet('dep9')
        for form in all_forms([()]):
            for ops in itertools.product(dep, repeat=4):
                if run_cost_sequence(ctx, form, False, list(ops), batches, check_from=3):
                    return
                nseq += 1
    # all 128 documented forms in the default order + one single assignment of every kind (start-form coverage)
    full = alphabet('full')
    allf = all_forms([c for k in range(4) for c in itertools.combinations('DLX', k)])
    for form in allf:
        for op in (full if ctx.thorough else rng.sample(full, 6)):
            if run_cost_sequence(ctx, form, rng.random() < 0.3, [op], batches):
                return
            nseq += 1
    # random part
    if with_random:
        for _ in range(ctx.scale(300, 10000) * budget_scale):
            form = random_form(rng)
            ops = [rng.choice(full) if rng.random() > 0.12 else (2, 'reseat', None) for _ in range(8)]
            if run_cost_sequence(ctx, form, rng.random() < 0.5, ops, batches):
                return
            nseq += 1
    ctx.extra['cost_sequences'] = ctx.extra.get('cost_sequences', 0) + nseq


# =====================================================================================================
# B. transaction payee / narration
# =====================================================================================================
STRS = {0: '', 1: 'foo', 2: 'b"q" \\ x\ny'}
TXN_PRE = '2000-01-01 open Assets:A\n\n2000-01-02 *'
TXN_POST = ' #tag ^link ; cmt\n  kk: "v"\n  Assets:A  1 USD\n  Assets:B\n\n2000-01-03 close Assets:A\n'
TXN_FORMS = {'none': [], 'narration': [1], 'both': [2, 1]}
TPROPS = ['payee', 'narration', 'raw_payee', 'raw_narration']


def esc(s):
    return '"' + s.replace('\\', '\\\\').replace('"', '\\"') + '"'


class TxnCase:
    def __init__(self, form, attached):
        self.form, self.attached = form, attached
        header = ''.join(' ' + esc(STRS[i]) for i in TXN_FORMS[form])
        if attached:
            self.root = P.parse(TXN_PRE + header + TXN_POST, models.File)
            self.txn = self.locate(self.root)
        else:
            self.root = self.txn = P.parse('2000-01-02 *' + header + ' #tag ^link ; cmt\n  kk: "v"\n  Assets:A  1 USD\n  Assets:B',
                                           models.Transaction)
        self.sib0 = self.siblings(self.root)
        self.rec = {'payee': self.txn.payee, 'narration': self.txn.narration}

    def locate(self, root):
        if isinstance(root, models.Transaction):
            return root
        return [d for d in root.raw_directives if isinstance(d, models.Transaction)][0]

    def siblings(self, root):
        t = self.locate(root)
        out = [t.date, t.flag, list(t.tags), list(t.links), t.inline_comment, [prn(m) for m in t.raw_meta],
               [prn(p) for p in t.raw_postings], t.leading_comment, t.trailing_comment]
        if isinstance(root, models.File):
            out += [prn(d) for d in root.raw_directives if d is not t]
        return out

    def dump(self, t=None):
        t = t or self.txn
        s = [t.string0, t.string1, t.string2]
        canon = s[0] is None and (s[1] is None or s[2] is not None)
        return (f's={rev(STRS, s[0])},{rev(STRS, s[1])},{rev(STRS, s[2])} payee={rev(STRS, t.payee)} '
                f'narration={rev(STRS, t.narration)} canon={int(canon)}')

    def assign(self, op):
        prop, vid = op
        v = None if vid is None else STRS[vid]
        if prop.startswith('raw_'):
            setattr(self.txn, prop, None if v is None else models.EscapedString.from_value(v))
        else:
            setattr(self.txn, prop, v)


def trec_apply(rec, op):
    prop, vid = op
    v = None if vid is None else STRS[vid]
    new = dict(rec)
    if prop.endswith('payee'):
        new['payee'] = v
        if v is not None and rec['narration'] is None:
            new['narration'] = ''
    else:
        new['narration'] = '' if (v is None and rec['payee'] is not None) else v
    return new


def run_txn_sequence(ctx, form, attached, ops, batches):
    rep = {'part': 'txn', 'form': form, 'attached': attached, 'ops': [list(o) for o in ops]}
    lines = []
    batches.append((rep, lines))
    case = TxnCase(form, attached)
    ids = TXN_FORMS[form]
    # what the LALR parser hands to from_parsed_children: the first optional string is filled first
    pre = ['-'] + [str(i) for i in ids] + ['-'] * (2 - len(ids))
    lines.append(('Q tparse ' + ' '.join(pre), 'ok ' + case.dump()))
    for i, op in enumerate(ops):
        prop, vid = op
        had = (case.rec['payee'] is not None, case.rec['narration'] is not None)
        try:
            case.assign(op)
        except Exception as e:
            ctx.oracle_fail(f'C09:txn:unexpected-{type(e).__name__}:{prop}', f'{type(e).__name__}: {e}', rep)
            return rep
        f = 'payee' if prop.endswith('payee') else 'narration'
        lines.append((f'Q tset {int(prop.startswith("raw_"))} {f} {"-" if vid is None else vid}', 'ok ' + case.dump()))
        new = trec_apply(case.rec, op)
        case.rec = new
        t = case.txn
        got = {'payee': t.payee, 'narration': t.narration}
        bad = None
        cut = dict(rep, ops=[list(o) for o in ops[:i + 1]])
        if got[f] != new[f]:
            bad = (f'C09:txn:read-back:{prop}', f'{f} reads {got[f]!r}, expected {new[f]!r}')
        elif got != new:
            bad = (f'C09:txn:dependency:{prop}', f'{got} != record {new}')
        elif case.siblings(case.root) != case.sib0:
            bad = (f'C09:txn:sibling:{prop}', f'{case.siblings(case.root)} vs {case.sib0}')
        else:
            text = prn(case.root)
            try:
                r2 = P.parse(text, type(case.root))
                t2 = case.locate(r2)
                got2 = {'payee': t2.payee, 'narration': t2.narration}
                lines.append(('Q treparse', 'ok ' + case.dump(t2)))
                if got2 != new:
                    bad = (f'C09:txn:reparse:{prop}', f'{text!r} re-reads {got2} != record {new}')
                elif case.siblings(r2) != case.sib0:
                    bad = (f'C09:txn:sibling-reparse:{prop}', f'{case.siblings(r2)} vs {case.sib0}')
            except Exception as e:
                bad = (f'C09:txn:reparse-fails:{prop}', f'{type(e).__name__} on {text!r}')
        ctx.count(f'txn:{prop}:{"none" if vid is None else "some"}')
        ctx.case(('txn', had, prop, 'none' if vid is None else ('empty' if vid == 0 else 'some'),
                  (new['payee'] is not None, new['narration'] is not None), attached))
        if bad:
            ctx.oracle_fail(bad[0], bad[1] + f' [start {form}, ops {ops[:i + 1]}]', cut)
            return rep
    return None


def run_txn(ctx, batches):
    rng = ctx.rng
    ops_all = [(p, v) for p in TPROPS for v in (None, 0, 1, 2)]
    n = 0
    for form in TXN_FORMS:
        for attached in (False, True):
            # every step is judged, so the sequences of length k cover their prefixes
            k = (3 if ctx.thorough else 2) if not attached else (2 if ctx.thorough else 1)
            for ops in itertools.product(ops_all, repeat=k):
                if run_txn_sequence(ctx, form, attached, list(ops), batches):
                    return
                n += 1
    for _ in range(ctx.scale(100, 2000)):
        ops = [rng.choice(ops_all) for _ in range(8)]
        if run_txn_sequence(ctx, rng.choice(list(TXN_FORMS)), rng.random() < 0.5, ops, batches):
            return
        n += 1
    ctx.extra['txn_sequences'] = n


# =====================================================================================================
# C. generic sweep over every value-level property
# =====================================================================================================
LEDGERS = ['''\
; leading comment of option
option "title" "Ledger" ; ic
include "other.bean"

plugin "mod.plug" "cfg"
plugin "mod.noconf"
''', '''\
pushtag #trip
pushmeta who: "me"
pushmeta nobody:

2000-01-14 close Assets:Broker
; trailing comment of close

poptag #trip
popmeta who:
''', '''\
2000-01-01 open Assets:Bank:Checking USD, EUR "STRICT" ; opened
  aa: "meta"
  bb: 12.5
  cc: 2001-02-03
  dd: TRUE
  ee: Assets:Other
  ff:
2000-01-01 open Assets:Broker
2000-01-02 commodity USD
  name: "dollar"
''', '''\
2000-01-03 * "Payee" "Narration" #tag ^link ; txn comment
  txnmeta: "v"
  ! Assets:Bank:Checking  -10.00 USD ; posting comment
    pmeta: 1 + 2
  Assets:Broker  2 ABC {5 USD, 2000-01-02, "lot", *} @ 6 USD
  Assets:Broker  3 ABC {{15 USD}} @@ 18 USD
  Expenses:Misc
''', '''\
2000-01-03 * "Narration only"
  Assets:Broker  1 ABC {1 # 2 USD}
  Assets:Broker  1 ABC {} @
  Assets:Broker  1 ABC {USD}
  ; leading comment of the posting
  Assets:Broker  1 ABC {{2 # USD, "x"}} @@
    ; leading comment of the meta item
    pm: "x"
  Expenses:Misc
  ; trailing comment of the last posting

2000-01-05 txn
  Assets:Bank:Checking  (1 + 2) * 3 USD
  Expenses:Misc
''', '''\
2000-01-06 balance Assets:Bank:Checking  100 ~ 0.01 USD
2000-01-06 balance Assets:Broker  2 ABC
2000-01-07 pad Assets:Bank:Checking Equity:Opening

2000-01-08 note Assets:Bank:Checking "a note" #nt
2000-01-09 document Assets:Bank:Checking "/path/file.pdf" ^lk
''', '''\
2000-01-10 event "location" "Paris"
2000-01-11 query "cash" "SELECT 1"

2000-01-12 price ABC 5.5 USD
2000-01-13 custom "budget" "x" TRUE 12 USD Assets:Broker 2000-01-01 4
''', '''\
2000-01-01 * \n  Assets:A  1 USD \n    kk: 1 \n2000-01-02 open Assets:A \n''']

_GEN = {
    'Date': [datetime.date(2001, 2, 3), datetime.date(1999, 12, 31), datetime.date(2024, 2, 29)],
    'Account': ['Assets:Xy', 'Expenses:Food:Caf-1', 'Liabilities:A1:B2'],
    'Currency': ['ABC', 'XY1', 'A.B-C'],
    'EscapedString': ['', 'plain', 'q"uo\\te', 'multi\nline', 'tab\tü'],
    'NumberExpr': [D('0'), D('12.50'), D('-3'), D('1000000.001')],
    'Tolerance': [D('0.5'), D('12.50'), D('3')],
    'MetaKey': ['ab', 'key-1_x', 'zZ9'],
    'Tag': ['tg', 'a-b/c.d_1'],
    'Link': ['lk', 'a-b/c.d_1'],
    'Indent': ['  ', '    ', '\t', '      '],
    'TransactionFlag': ['*', '!', '#', 'P'],
    'PostingFlag': ['*', '!', '&', 'M'],
    'Bool': [True, False],
    'InlineComment': ['', 'c', 'two words ; semi'],
    'BlockComment': ['', 'c', 'line1\nline2'],
}
_PLAIN = {('CostSpec', 'merge'): 'Bool', ('NumberExpr', 'value'): 'NumberExpr', ('Tolerance', 'value'): 'Tolerance'}
_SKIP = {('Transaction', 'string0'), ('Transaction', 'string1'), ('Transaction', 'string2')}
_ALIAS = {('Tolerance', 'number'): {'value'}, ('Tolerance', 'value'): {'number'}}
_VALUE_PROP_TYPES = (_vp.required_value_property, _vp.optional_string_property, _vp.optional_indented_string_property,
                     _vp.optional_decimal_property, _vp.optional_date_property, _mvi.optional_meta_value_property)
_TREE = tuple(models.TREE_MODELS.values())
_propcache = {}


def value_props(cls):
    """{name: descriptor} of the value-level properties of a tree-model class."""
    if cls in _propcache:
        return _propcache[cls]
    found = {}
    for k in cls.__mro__[::-1]:
        for n, v in k.__dict__.items():
            if n.startswith('raw_') or n.startswith('spacing_') or n.startswith('_'):
                continue
            if isinstance(v, _VALUE_PROP_TYPES):
                found[n] = v
            elif isinstance(v, property):
                if v.fset is not None:
                    found[n] = v
                else:
                    found.pop(n, None)
    for (c, n) in _SKIP:
        if cls.__name__ == c:
            found.pop(n, None)
    _propcache[cls] = found
    return found


def field_names(cls):
    out = []
    for k in cls.__mro__[::-1]:
        for n, v in k.__dict__.items():
            if isinstance(v, _fields.field) and n not in out:
                out.append(n)
    return out


def children(m):
    """(label, child tree model) pairs; repeated items are indexed among the non-comment items."""
    for n in field_names(type(m)):
        v = getattr(m, n, None)
        if v is None:
            continue
        if isinstance(v, _internal.Repeated):
            k = 0
            for it in v.items:
                if isinstance(it, models.BlockComment):
                    continue
                if isinstance(it, _base.RawTreeModel):
                    yield (n, k), it
                k += 1
        elif isinstance(v, _base.RawTreeModel):
            yield (n, None), v


def walk(root):
    """(path, model) for every tree model reachable through fields (NumberExpr internals are not entered)."""
    stack = [((), root)]
    while stack:
        path, m = stack.pop()
        yield path, m
        if isinstance(m, models.NumberExpr):
            continue
        for lab, c in children(m):
            stack.append((path + (lab,), c))


def resolve(root, path):
    m = root
    for lab in path:
        nxt = None
        for l2, c in children(m):
            if l2 == lab:
                nxt = c
                break
        if nxt is None:
            return None
        m = nxt
    return m


def canon(v):
    if v is None:
        return None
    if isinstance(v, bool):
        return ('bool', v)
    if isinstance(v, decimal.Decimal):
        return ('dec', str(v.normalize() + 0))
    if isinstance(v, datetime.date):
        return ('date', v.isoformat())
    if isinstance(v, str):
        return ('str', v)
    if isinstance(v, _base.RawModel):
        return ('model', type(v).__name__, prn(v) if isinstance(v, _base.RawTreeModel) else v.raw_text)
    return ('other', repr(v))


def inner_kind(m, name, prop):
    """Name of the token/tree class that carries the value (selects the generator)."""
    cls = type(m).__name__
    if isinstance(prop, property):
        return _PLAIN.get((cls, name))
    if isinstance(prop, _vp.required_value_property):
        return type(prop._inner_property.__get__(m)).__name__
    if isinstance(prop, _mvi.optional_meta_value_property):
        return 'Meta'
    return prop._inner_type.__name__


def is_optional(prop):
    return not isinstance(prop, (property, _vp.required_value_property))


def all_values(m, name, prop):
    """Every (value, value-kind) of the generator of this property (None included when optional)."""
    kind = inner_kind(m, name, prop)
    out = [(None, 'None')] if is_optional(prop) else []
    if kind == 'Meta':
        for k in ('EscapedString', 'Date', 'NumberExpr', 'Bool'):
            out += [(v, 'meta:' + k) for v in _GEN[k]]
    elif kind in _GEN:
        out += [(v, kind) for v in _GEN[kind]]
    return out


def gen_value(rng, m, name, prop, force=None):
    """-> (ok, value, value-kind); force = (value, kind) | None (random)."""
    kind = inner_kind(m, name, prop)
    if force is not None:
        return True, force[0], force[1]
    if is_optional(prop) and rng.random() < 0.3:
        return True, None, 'None'
    if kind == 'Meta':
        k = rng.choice(['EscapedString', 'Date', 'NumberExpr', 'Bool'])
        return True, rng.choice(_GEN[k]), 'meta:' + k
    if kind not in _GEN:
        return False, None, str(kind)
    return True, rng.choice(_GEN[kind]), kind


def cost_is_canon(c):
    kinds = [type(x).__name__ for x in c.raw_cost.raw_components]
    main = sum(kinds.count(k) for k in ('CompoundAmount', 'Amount', 'NumberExpr', 'Currency'))
    return main <= 1 and kinds.count('Date') <= 1 and kinds.count('EscapedString') <= 1 and kinds.count('Asterisk') <= 1


def read_all(m):
    return {n: canon(p.__get__(m, type(m))) for n, p in value_props(type(m)).items()}


def expected_after(m, name, v, before):
    """The documented dependencies: (expected readings of all value properties, rejected?)."""
    exp = dict(before)
    exp[name] = canon(v)
    cls = type(m).__name__
    for a in _ALIAS.get((cls, name), ()):
        exp[a] = canon(v)
    if cls == 'Transaction':
        if name == 'payee' and v is not None and before['narration'] is None:
            exp['narration'] = canon('')
        if name == 'narration' and v is None and before['payee'] is not None:
            exp['narration'] = canon('')
    rejected = False
    if cls == 'CostSpec' and exp['number_per'] is not None and exp['number_total'] is not None and exp['currency'] is None:
        rejected = True
    return exp, rejected


def comment_ownership_ambiguous(m, name):
    """The text cannot say who owns a block comment that touches another comment line, or (for a trailing comment) that
    is immediately followed by a line with the same indentation: by the documented attribution rules it is then (part
    of) the leading comment of what follows (docs/special/comments.md).  Returns a reason or None."""
    tok = getattr(m, 'raw_' + name, None)
    if tok is None:
        return None
    before, after, seen = [], [], False
    for t in m.token_store:
        if t is tok:
            seen = True
        else:
            (after if seen else before).append(t.raw_text)
    before, after = ''.join(before), ''.join(after)
    prev_lines = before.split('\n')
    if len(prev_lines) >= 2 and prev_lines[-2].strip(' \t\r').startswith(';'):
        return 'joins-previous-comment'
    rest = after.split('\n')
    if len(rest) >= 2:
        nxt = rest[1].rstrip('\r')
        body = nxt.lstrip(' \t')
        if body.startswith(';'):
            return 'joins-next-comment'
        if name == 'trailing_comment' and body and nxt[:len(nxt) - len(body)] == tok.indent:
            return 'followed-by-same-indentation'
    return None


def generic_case(ctx, text, path, name, v, vk):
    """One assignment on a fresh parse of `text`. Returns (sig, what) | None | 'skip'."""
    root = P.parse(text, models.File)
    m = resolve(root, path)
    if m is None:
        return 'skip'
    cls = type(m).__name__
    prop = value_props(type(m)).get(name)
    if prop is None:
        return 'skip'
    if cls == 'CostSpec' and not cost_is_canon(m):
        ctx.count('generic:skip-noncanonical-cost')
        return 'skip'
    before = read_all(m)
    exp, rejected = expected_after(m, name, v, before)
    text0 = prn(root)
    present = before[name] is not None
    sig0 = f'{cls}.{name}'
    try:
        prop.__set__(m, v)
        err = None
    except ValueError as e:
        err = f'ValueError: {e}'
    except Exception as e:
        return (f'C09:generic:unexpected-{type(e).__name__}:{sig0}', f'{type(e).__name__}: {e} on assigning {v!r}')
    ctx.count(f'generic:{sig0}')
    ctx.case(('generic', cls, name, 'present' if present else 'absent', vk, 'err' if err else 'ok'),
             sample={'doc': text[:200], 'class': cls, 'property': name, 'value': repr(v)} if ctx.evaluations % 1499 == 0 else None)
    if rejected:
        if err is None:
            return (f'C09:generic:not-rejected:{sig0}', f'{v!r} accepted')
        if prn(root) != text0:
            return (f'C09:generic:rejected-but-changed:{sig0}', f'{text0!r} -> {prn(root)!r}')
        return None
    if err is not None:
        return (f'C09:generic:refused:{sig0}', f'{err} on assigning in-domain {v!r}')
    after = read_all(m)
    if after[name] != exp[name]:
        return (f'C09:generic:read-back:{sig0}', f'reads {after[name]!r} after assigning {v!r}')
    bad = [k for k in after if after[k] != exp[k]]
    if bad:
        return (f'C09:generic:sibling:{sig0}->{",".join(bad)}', f'after {name}={v!r}: ' +
                '; '.join(f'{k}: was {before[k]!r}, reads {after[k]!r}, expected {exp[k]!r}' for k in bad))
    text1 = prn(root)
    try:
        root2 = P.parse(text1, models.File)
    except Exception as e:
        return (f'C09:generic:reparse-fails:{sig0}', f'{type(e).__name__} on {text1!r} after {name}={v!r}')
    m2 = resolve(root2, path)
    if m2 is None or type(m2) is not type(m):
        return (f'C09:generic:reparse-structure:{sig0}', f'no {cls} at {path} in re-parse of {text1!r}')
    again = read_all(m2)
    if name in ('leading_comment', 'trailing_comment') and v is not None:
        why = comment_ownership_ambiguous(m, name)
        if why:
            ctx.count(f'generic:comment-ownership-not-in-text:{why}')
            again[name] = exp[name]
    if again[name] != exp[name]:
        if name == 'inline_comment' and again[name] and exp[name] and again[name][1].rstrip(' \t') == exp[name][1]:
            return ('C09:inline_comment:line-trailing-blank-absorbed',
                    f'{text1!r} re-reads {cls}.inline_comment={again[name][1]!r}, assigned {v!r}: the blanks that ended the line are now part of the comment')
        if name in ('leading_comment', 'trailing_comment') and v is not None:
            other = 'leading_comment' if name == 'trailing_comment' else 'trailing_comment'
            where = 'standalone-or-unowned'
            for k in range(len(path) - 1, -1, -1):
                anc = resolve(root2, path[:k])
                if anc is not None and name in value_props(type(anc)) and canon(getattr(anc, name)) == exp[name]:
                    where = 'enclosing-model'
                    break
            else:
                for _, x in walk(root2):
                    if other in value_props(type(x)) and canon(getattr(x, other)) == exp[name]:
                        where = 'neighbour-of-other-indentation'
                        break
            return (f'C09:{name}:reparse-owner:{where}',
                    f'{text1!r} re-reads {cls}.{name}={again[name]!r}, assigned {v!r}; by the documented rule (same indentation, '
                    f'adjacent, nothing of the same indentation after it) the comment belongs to the {cls}; it is now with: {where}')
        return (f'C09:generic:reparse:{sig0}', f'{text1!r} re-reads {name}={again[name]!r}, assigned {v!r}')
    bad = [k for k in again if again[k] != exp[k]]
    if bad:
        return (f'C09:generic:reparse-sibling:{sig0}->{",".join(bad)}', f'after {name}={v!r}, re-parse of {text1!r}: ' +
                '; '.join(f'{k}: {exp[k]!r} -> {again[k]!r}' for k in bad))
    return None


_corpus = None


def harvest(cap=150):
    """String constants of the repo's *_test.py files that parse as a File (deterministic order), capped."""
    global _corpus
    if _corpus is not None:
        return _corpus
    seen, out = set(), []
    for f in sorted((REPO / 'autobean_refactor').rglob('*_test.py')):
        try:
            tree = ast.parse(f.read_text())
        except Exception:
            continue
        for n in ast.walk(tree):
            if isinstance(n, ast.Constant) and isinstance(n.value, str) and 0 < len(n.value) < 2000 and n.value not in seen:
                seen.add(n.value)
                try:
                    P.parse(n.value, models.File)
                except Exception:
                    continue
                out.append(n.value)
    # prefer the documents with most models: stable sort by size, take an even spread
    out.sort(key=lambda s: (-len(s), s))
    if len(out) > cap:
        step = len(out) / cap
        out = [out[int(i * step)] for i in range(cap)]
    _corpus = out
    return out


def run_generic(ctx, per_doc=None):
    rng = ctx.rng
    import slotgrid
    # the slot-grid fixtures with falsy siblings (FALSE / NULL / '' / zero).  The glued one is left out: changing a token's
    # text IN PLACE where nothing separates it from its neighbour ('*Assets:B' with flag M, '{2 EUR,2000-01-01}' without
    # the currency) changes how the line lexes - a layout matter the value properties do not address
    fixed = LEDGERS + [t for t in slotgrid.FIXTURES if t not in LEDGERS and '\r\n' not in t]
    # ... but REMOVING a value there (assigning None) and creating an absent one rewrite no existing token: those two
    # are exercised on the glued layouts too (what is removed must be the value and its own separators, never a glued sibling)
    # (a fixture of its own: in the slot grid's glued one `{2 EUR,2000-01-01}` without the currency lexes as the number 2,2000)
    glued = ['2000-01-03 * "payee" "narr"\n'
             '  !Assets:A  1 USD {2# 10 USD}\n'
             '  *Assets:B  -10.00 USD {{2#10 USD}}@@ 3 EUR\n'
             '  Assets:C  5 USD {12.00# 3.00 USD, 2000-01-01}@ 1 EUR\n'
             '  !Assets:D\n'
             '2000-01-02 balance Assets:A 1~0.1 USD\n']
    docs = fixed + glued + harvest()
    classes_seen, props_seen = set(), set()
    total = 0
    for di, text in enumerate(docs):
        try:
            root = P.parse(text, models.File)
        except Exception as e:
            if text in LEDGERS:
                ctx.notes.append(f'built-in ledger {LEDGERS.index(text)} no longer parses: {type(e).__name__}')
            continue
        cands = []
        for path, m in walk(root):
            if not isinstance(m, _TREE):
                continue
            classes_seen.add(type(m).__name__)
            for name, prop in value_props(type(m)).items():
                cands.append((path, type(m).__name__, name))
        if text in fixed:
            # deterministic coverage: every property of every model with every value of its generator
            chosen = []
            for c in cands:
                mm = resolve(root, c[0])
                vals = all_values(mm, c[2], value_props(type(mm))[c[2]])
                chosen += [c + (fv,) for fv in vals] or [c + (None,)]
        elif text in glued:
            chosen = []
            for c in cands:
                mm = resolve(root, c[0])
                prop = value_props(type(mm))[c[2]]
                if not is_optional(prop):
                    continue
                try:
                    cur = prop.__get__(mm, type(mm))
                except Exception:
                    continue
                if cur is not None:
                    chosen.append(c + ((None, 'None'),))
                else:
                    chosen += [c + (fv,) for fv in all_values(mm, c[2], prop)[1:2]]
        else:
            k = per_doc or ctx.scale(8, 60)
            chosen = [c + (None,) for c in (cands if len(cands) <= k else rng.sample(cands, k))]
        for path, cls, name, force in chosen:
            m = resolve(root, path)
            prop = value_props(type(m))[name]
            ok, v, vk = gen_value(rng, m, name, prop, force)
            if not ok:
                ctx.count(f'generic:no-generator:{vk}:{cls}.{name}')
                ctx.extra.setdefault('generic_no_generator', [])
                if f'{cls}.{name}:{vk}' not in ctx.extra['generic_no_generator']:
                    ctx.extra['generic_no_generator'].append(f'{cls}.{name}:{vk}')
                continue
            if isinstance(v, decimal.Decimal) and v < 0 and any(lab[0] == '_values' for lab in path):
                # custom values are juxtaposed: `1 -3` is one expression (code TODO in custom.py; tracked under C06)
                ctx.count('generic:custom-values-negative-made-positive')
                v = -v
            res = generic_case(ctx, text, path, name, v, vk)
            if res == 'skip' or res is None:
                if res is None:
                    props_seen.add((cls, name))
                    total += 1
                continue
            ctx.oracle_fail(res[0], res[1], {'part': 'generic', 'doc': text, 'path': [list(p) for p in path], 'property': name,
                                              'value': enc_value(v)})
            props_seen.add((cls, name))
    ctx.extra['generic_classes'] = sorted(classes_seen)
    ctx.extra['generic_properties'] = len(props_seen)
    ctx.extra['generic_assignments'] = total
    all_props = {(c.__name__, n) for c in _TREE for n in value_props(c)}
    missing = sorted(f'{c}.{n}' for (c, n) in all_props - props_seen)
    ctx.extra['generic_properties_not_exercised'] = missing


def enc_value(v):
    if v is None:
        return None
    if isinstance(v, bool):
        return ['bool', v]
    if isinstance(v, decimal.Decimal):
        return ['dec', str(v)]
    if isinstance(v, datetime.date):
        return ['date', v.isoformat()]
    return ['str', v]


def dec_value(e):
    if e is None:
        return None
    k, v = e
    if k == 'bool':
        return bool(v)
    if k == 'dec':
        return D(v)
    if k == 'date':
        return datetime.date.fromisoformat(v)
    return v


# =====================================================================================================
# entry points
# =====================================================================================================
def _diff_with_model(ctx, batches):
    """batches = [(replay, [(line, expected|None)])] -> one driver call, line-by-line diff."""
    if not ctx.extra.get('model_available', True):
        ctx.notes.append('Lean model not available: correspondence skipped, oracle only')
        return
    all_lines, index = [], []
    for bi, (rep, lines) in enumerate(batches):
        for li, (l, e) in enumerate(lines):
            all_lines.append(l)
            index.append((bi, li))
    outs = ctx.driver.run(all_lines)
    seen = set()
    for (bi, li), out in zip(index, outs):
        exp = batches[bi][1][li][1]
        if exp is None or bi in seen:
            continue
        if out.rstrip() != exp.rstrip():
            seen.add(bi)
            ctx.divergence('cost-history' if batches[bi][0].get('part') == 'cost' else 'txn-history',
                           {'line': batches[bi][1][li][0], 'model': out[:400], 'real': exp[:400], 'step': li}, batches[bi][0])
    ctx.extra['traces_validated_against_model'] = ctx.extra.get('traces_validated_against_model', 0) + len(batches)
    ctx.extra['model_lines'] = ctx.extra.get('model_lines', 0) + len(all_lines)


def run_fresh(ctx, n):
    """Histories of arbitrary edits (raw children re-seated, replaced, removed; values assigned) on generated ledgers: after
    every step every public property of the edited model reads what it reads on a deep copy of that model - what a
    property returns depends on the content, never on which object held a child when some view was first read."""
    import session
    session.run_sessions(ctx, n, 14, ['fresh'], prefix='C09:')


def run(ctx):
    batches = []
    n = len(ctx.oracle_fails)
    run_cost(ctx, batches)
    if len(ctx.oracle_fails) > n:
        shrink_last_failure(ctx, run_cost_sequence)
    n = len(ctx.oracle_fails)
    run_txn(ctx, batches)
    if len(ctx.oracle_fails) > n:
        shrink_last_failure(ctx, run_txn_sequence)
    run_generic(ctx)
    run_fresh(ctx, ctx.scale(150, 3000))
    _diff_with_model(ctx, batches)


def search(ctx, hints):
    """Oracle only, bigger budget: called when a proof / the correspondence broke."""
    batches = []
    n0 = len(ctx.oracle_fails)
    # first the diverging histories themselves, judged by the oracle alone
    for d in hints.get('divergences', []):
        rep = d.get('replay') or {}
        if rep.get('part') == 'cost':
            run_cost_sequence(ctx, rep['form'], rep['attached'], [tuple(o) for o in rep['ops']], batches)
        elif rep.get('part') == 'txn':
            run_txn_sequence(ctx, rep['form'], rep['attached'], [tuple(o) for o in rep['ops']], batches)
    if len(ctx.oracle_fails) == n0:
        run_cost(ctx, batches, budget_scale=4)
        if len(ctx.oracle_fails) > n0:
            shrink_last_failure(ctx, run_cost_sequence)
    if len(ctx.oracle_fails) == n0:
        run_txn(ctx, batches)
        if len(ctx.oracle_fails) > n0:
            shrink_last_failure(ctx, run_txn_sequence)
    if len(ctx.oracle_fails) == n0:
        run_generic(ctx, per_doc=40)
    if len(ctx.oracle_fails) == n0:
        run_fresh(ctx, ctx.scale(1000, 4000))


def replay(ctx, data):
    rep = data.get('replay') or data.get('first_diverging_replay')
    if not rep:
        return False
    part = rep.get('part')
    if part is None and 'ops' in rep and 'text' in rep:
        import session
        return not session.replay(data, ['fresh'])
    before = len(ctx.oracle_fails)
    lines = []
    if part == 'cost' and 'form' in rep:
        run_cost_sequence(ctx, rep['form'], rep['attached'], [tuple(o) for o in rep['ops']], lines)
    elif part == 'txn' and 'form' in rep:
        run_txn_sequence(ctx, rep['form'], rep['attached'], [tuple(o) for o in rep['ops']], lines)
    elif part == 'generic':
        path = tuple((a, b) for a, b in rep['path'])
        res = generic_case(ctx, rep['doc'], path, rep['property'], dec_value(rep['value']), 'replay')
        if res not in (None, 'skip'):
            ctx.oracle_fail(res[0], res[1], rep)
    else:
        return False
    return len(ctx.oracle_fails) == before
