"""C13 - number expressions evaluate and compose like ordinary arithmetic.

Correspondence (lock-step with resync, one driver line per real operator application):
  real NumberExpr tokens --> Lean `parseAdd` --> s-expression       == s-expression of the real (lark-built) tree
  Lean `applyStep` (add/sub/mul/div/reflected/neg/pos/wrap) on it   == tokens + s-expression of the real result
  Lean `eval` over the free term carrier (fully parenthesised text) == real `.value` (evaluated with Decimal here)
plus one chain line per case where the model carries its own state through the whole chain.

Oracle (real code only): `.value` against an independent recursive-descent Decimal evaluator over the printed text;
value of every result == value(a) op value(b) in Decimal; printed result re-parses (real parser) to that value;
plain/reflected forms leave a, b and their documents untouched and raise nothing; in-place forms leave b (and its
document) untouched and change a's document only inside a's span.
"""
from __future__ import annotations
import collections, decimal, io, operator, os, random, re
from decimal import Decimal

ID = 'C13'
PROPERTY_FILE = 'Autobean/Properties/C13.lean'
LEAN_TARGETS = ['Autobean.Properties.C13', 'Autobean.Obligations.Codec', 'Autobean.Obligations.CachesNumExpr']
RULE = ('random expression texts (NUMBER forms incl. 1,234.5 / 7. / 007, nested parentheses, unary chains, spacing none/'
        'blank/tab/newline) parsed by the real parser, free-standing or attached inside a ledger (meta value, posting '
        'amount, cost components, price annotations, balance amount + tolerance, price, custom); chains of 1-4 '
        'applications of + - * / (plain, in-place, reflected), unary + -, wrap_with_parenthesis with int / Decimal / '
        'free expression / attached expression (other or same document) / the expression itself as operand. '
        'Every application is one evaluated case. distinct non-trivial = distinct (op, form, operand kind, receiver '
        'attached?, top-level class of receiver and operand (atom/mul/add), parentheses inserted?)')
ASSUMPTIONS = [
    'decimal arithmetic is abstract in the theorems (any carrier); the oracle uses decimal.Decimal under the default context',
    'literals mostly have at most 15 significant digits; 4 % have 23-41 (the value of a literal is exact, every operation, '
    'unary minus included, rounds to the 28-digit default context - the independent evaluator performs the same operations)',
    'cases where Decimal itself raises (division by zero, 0/0, overflow) are skipped for the value clauses only',
    'lark tokenisation of a printed expression is outside the model; the Lean parser ignores the ADD_OP/UNARY_OP class '
    '(theorem parse_class_blind) and the token kinds/texts lark produced are compared with the model on every case',
    'which Python object owns which token (deep copies, documents untouched, nothing raised for attached operands) '
    'is established by the oracle on the explored cases, not by a theorem',
]
LEVEL_NOTE = ('Proved for all trees/spacings/carriers: value = left fold, value of every operator application and chain, '
              'print-then-parse gives back the same tree, parentheses exactly when needed. Trusted/modelled: the Python '
              'functions are hand-transcribed to tree functions (checked per application against the real objects); object '
              'ownership (deep copies, documents untouched, nothing raised) is shown by the oracle on explored cases only; '
              'lark tokenisation and decimal are outside the model.')
TECHNIQUE = 'Lean 4 machine-checked proof over a hand-written model + run-time correspondence check against the implementation'

BINOPS = {'add': '+', 'sub': '-', 'mul': '*', 'div': '/'}
_PLAIN = {'add': operator.add, 'sub': operator.sub, 'mul': operator.mul, 'div': operator.truediv}
_INPLACE = {'add': operator.iadd, 'sub': operator.isub, 'mul': operator.imul, 'div': operator.itruediv}
_REFL = {'add': '__radd__', 'sub': '__rsub__', 'mul': '__rmul__', 'div': '__rtruediv__'}

_P = None


def _env():
    global _P
    from autobean_refactor import parser, models
    if _P is None:
        _P = parser.Parser()
    return _P, models


# ---------------------------------------------------------------------------------------------------------
# independent evaluator: own tokenizer + recursive descent over the printed text, Decimal, default context
# ---------------------------------------------------------------------------------------------------------

_TOK = re.compile(r'\s*(?:(?P<num>[0-9][0-9,]*(?:\.[0-9]*)?)|(?P<op>[-+*/()]))')


class EvalError(Exception):
    pass


def independent_eval(text: str) -> Decimal:
    toks = []
    pos = 0
    text = text.rstrip()
    while pos < len(text):
        m = _TOK.match(text, pos)
        if not m:
            raise EvalError(f'bad character at {pos} in {text!r}')
        toks.append(('n', m.group('num')) if m.group('num') is not None else ('o', m.group('op')))
        pos = m.end()
    i = 0

    def peek():
        return toks[i] if i < len(toks) else (None, None)

    def factor():
        nonlocal i
        k, v = peek()
        if k == 'n':
            i += 1
            return Decimal(v.replace(',', ''))
        if v == '(':
            i += 1
            r = expr()
            if peek()[1] != ')':
                raise EvalError('expected )')
            i += 1
            return r
        if v == '-':
            i += 1
            return -factor()
        if v == '+':
            i += 1
            return factor()     # unary plus: the operand itself
        raise EvalError(f'unexpected {v!r}')

    def term():
        nonlocal i
        r = factor()
        while peek()[1] in ('*', '/'):
            o = peek()[1]
            i += 1
            x = factor()
            r = r * x if o == '*' else r / x
        return r

    def expr():
        nonlocal i
        r = term()
        while peek()[1] in ('+', '-'):
            o = peek()[1]
            i += 1
            x = term()
            r = r + x if o == '+' else r - x
        return r

    r = expr()
    if i != len(toks):
        raise EvalError('trailing input')
    return r


def _try_val(f):
    """('v', Decimal), ('x', signal name) when decimal itself raises, ('e', name) for any other exception."""
    try:
        return ('v', f())
    except decimal.DecimalException as e:
        return ('x', type(e).__name__)
    except Exception as e:
        return ('e', type(e).__name__)


# ---------------------------------------------------------------------------------------------------------
# generators
# ---------------------------------------------------------------------------------------------------------

def gen_ws(rng, nl):
    r = rng.random()
    if r < .42:
        return ''
    if r < .74:
        return ' '
    if nl and r < .80:
        return rng.choice(['\n', '\n ', ' \n\t', '\r\n  ', '\n\n '])
    return rng.choice(['  ', '\t', ' \t', '\t ', '   '])


def gen_num(rng):
    r = rng.random()
    if rng.random() < .04:
        # more significant digits than the 28 of the default decimal context: a literal's value is still the literal,
        # exactly - only the results of operations are rounded
        return (str(rng.randint(1, 9)) + ''.join(rng.choice('0123456789') for _ in range(rng.randint(9, 19))) + '.' +
                ''.join(rng.choice('0123456789') for _ in range(rng.randint(12, 20))) + rng.choice('123456789'))
    if r < .35:
        ip = str(rng.randint(1, 20))
    elif r < .6:
        ip = str(rng.randint(1, 10 ** rng.randint(1, 7)))
    elif r < .8:
        ip = str(rng.randint(1, 999)) + ''.join(',%03d' % rng.randint(0, 999) for _ in range(rng.randint(1, 2)))
    elif r < .93:
        ip = '0' * rng.randint(1, 2) + str(rng.randint(1, 99))
    elif r < .98:
        ip = '0'
        return ip + '.' + ''.join(rng.choice('0123456789') for _ in range(rng.randint(0, 3))) + rng.choice('123456789')
    else:
        ip = '0'
    r = rng.random()
    if r < .5:
        return ip
    if r < .57:
        return ip + '.'
    return ip + '.' + ''.join(rng.choice('0123456789') for _ in range(rng.randint(1, 4)))


def gen_atom(rng, d, nl):
    r = rng.random()
    if d <= 0 or r < .56:
        return gen_num(rng)
    if r < .80:
        return '(' + gen_ws(rng, nl) + gen_add(rng, d - 1, nl) + gen_ws(rng, nl) + ')'
    return rng.choice('+-') + gen_ws(rng, nl) + gen_atom(rng, d - 1, nl)


def gen_mul(rng, d, nl):
    n = rng.choice([1, 1, 1, 2, 2, 3])
    s = gen_atom(rng, d, nl)
    for _ in range(n - 1):
        s += gen_ws(rng, nl) + rng.choice('*/') + gen_ws(rng, nl) + gen_atom(rng, d, nl)
    return s


def gen_add(rng, d, nl):
    n = rng.choice([1, 1, 2, 2, 3])
    s = gen_mul(rng, d, nl)
    for _ in range(n - 1):
        s += gen_ws(rng, nl) + rng.choice('+-') + gen_ws(rng, nl) + gen_mul(rng, d, nl)
    return s


def gen_expr(rng, nl=True, d=None):
    return gen_add(rng, rng.choice([0, 1, 2, 2, 3]) if d is None else d, nl and rng.random() < .3)


_DOCS = [
    # meta value, posting amount, per-unit cost, per-unit price, posting meta amount
    ('2000-01-01 *\n  foo: {0}\n  Assets:A  {1} USD {{{2} EUR}} @ {3} GBP\n    bar: {4} USD\n', 5),
    # posting amount, compound cost, total price
    ('2000-01-01 * "p" "n"\n  Assets:B  {0} USD {{{1} # {2} EUR}} @@ {3} GBP\n  Assets:C\n', 4),
    # total cost with date, price directive
    ('2000-01-01 txn\n  Assets:B  {0} USD {{{{{1} EUR, 2000-01-01}}}}\n2000-01-03 price USD {2} EUR\n', 3),
    # balance amount + tolerance, custom amount
    ('2000-01-02 balance Assets:A {0} ~ {1} USD\n2000-01-04 custom "x" {2} USD\n', 3),
    # bare meta number on a directive, pad in between
    ('2000-01-05 open Assets:A\n  nn: {0}\n  mm: {1} EUR\n', 2),
]


def gen_doc(rng):
    """(text, number of expressions in it)"""
    tpl, n = rng.choice(_DOCS)
    return tpl.format(*[gen_expr(rng, nl=False, d=rng.choice([0, 1, 1, 2])) for _ in range(n)]), n


def gen_int(rng):
    return rng.choice([1, 2, 3, 5, 7, 10, 100, -1, -2, -5, -12, rng.randint(-10 ** 6, 10 ** 6), rng.randint(-3, 3)])


def gen_dec(rng):
    r = rng.random()
    if r < .08:
        return rng.choice(['1E+3', '-2E+2', '0E-7', '-0', '1.50E-3', '-0.00'])
    s = '-' if rng.random() < .4 else ''
    ip = str(rng.randint(1, 10 ** rng.randint(0, 6)))
    fp = ''.join(rng.choice('0123456789') for _ in range(rng.randint(0, 5)))
    return s + ip + ('.' + fp if fp else '')


def gen_step(rng, nslots):
    r = rng.random()
    if r < .07:
        return {'op': 'neg'}
    if r < .13:
        return {'op': 'pos'}
    if r < .17:
        return {'op': 'wrap'}
    st = {'op': rng.choice(['add', 'sub', 'mul', 'div']), 'mode': rng.choice(['plain', 'plain', 'inplace', 'refl'])}
    r = rng.random()
    if r < .02:
        st.update(okind='bool', oval=rng.choice(['True', 'False']))      # bool is an int: operand 1 / 0
    elif r < .2:
        st.update(okind='int', oval=str(gen_int(rng)))
    elif r < .4:
        st.update(okind='dec', oval=gen_dec(rng))
    elif r < .68:
        st.update(okind='free', oval=gen_expr(rng))
    elif r < .82:
        d, n = gen_doc(rng)
        st.update(okind='att', odoc=d, oslot=rng.randrange(n))
    elif r < .93:
        if nslots:
            st.update(okind='same', oslot=rng.randrange(nslots))
        else:
            d, n = gen_doc(rng)
            st.update(okind='att', odoc=d, oslot=rng.randrange(n))
    else:
        st.update(okind='self')
    return st


def gen_spec(rng):
    if rng.random() < .62:
        spec = {'text': gen_expr(rng)}
    else:
        d, n = gen_doc(rng)
        spec = {'doc': d, 'slot': rng.randrange(n)}
    nslots = n if 'doc' in spec else 0
    spec['chain'] = [gen_step(rng, nslots) for _ in range(rng.choice([1, 2, 3, 3, 4]))]
    if rng.random() < .3:
        # between two applications a NUMBER token inside the current expression is rewritten in place (its value was read
        # before): .value is the evaluation of the text as it stands now
        spec['leaf_edits'] = {str(rng.randrange(len(spec['chain']) + 1)): [rng.randrange(8), gen_num(rng)] for _ in range(rng.choice([1, 1, 2]))}
    return spec


# ---------------------------------------------------------------------------------------------------------
# views of the real objects
# ---------------------------------------------------------------------------------------------------------

_KIND = {'Number': 'n', 'AddOp': 'a', 'MulOp': 'm', 'UnaryOp': 'u', 'LeftParen': 'l', 'RightParen': 'r'}


_ENC = {}


def enc_text(s):
    r = _ENC.get(s)
    if r is None:
        r = 'e' if not s else '.'.join(str(ord(c)) for c in s)
        if len(_ENC) < 100000:
            _ENC[s] = r
    return r


def enc_tokens(tokens):
    return ','.join(_KIND.get(type(t).__name__, 'w') + ':' + enc_text(t.raw_text) for t in tokens)


def text_of(model):
    return ''.join(t.raw_text for t in model.tokens)


def store_text(model):
    return ''.join(t.raw_text for t in model.token_store)


def sexp_atom(a):
    n = type(a).__name__
    if n == 'Number':
        return a.raw_text
    if n == 'NumberParenExpr':
        return '(P ' + sexp_add(a.raw_inner_expr) + ')'
    if n == 'NumberUnaryExpr':
        return '(U' + a.raw_unary_op.raw_text + ' ' + sexp_atom(a.raw_operand) + ')'
    return '?' + n


def sexp_mul(m):
    s = sexp_atom(m.raw_operands[0])
    for o, x in zip(m.raw_ops, m.raw_operands[1:]):
        s += ' ' + o.raw_text + ' ' + sexp_atom(x)
    return '(M ' + s + ')'


def sexp_add(e):
    s = sexp_mul(e.raw_operands[0])
    for o, x in zip(e.raw_ops, e.raw_operands[1:]):
        s += ' ' + o.raw_text + ' ' + sexp_mul(x)
    return '(A ' + s + ')'


def sexp(expr):
    return sexp_add(expr.raw_number_add_expr)


def top_class(expr):
    e = expr.raw_number_add_expr
    if e.raw_ops:
        return 'add'
    return 'mul' if e.raw_operands[0].raw_ops else 'atom'


def find_exprs(root):
    """All NumberExpr nodes below `root`, in document order."""
    _, models = _env()
    out, seen = [], set()

    def walk(m):
        if id(m) in seen:
            return
        seen.add(id(m))
        if isinstance(m, models.NumberExpr):
            out.append(m)
            return
        if isinstance(m, models.RawTreeModel) or (hasattr(m, 'items') and hasattr(m, 'placeholder')):
            for k, v in vars(m).items():
                if k == '_token_store':
                    continue
                if isinstance(v, (list, tuple)):
                    for x in v:
                        walk(x)
                else:
                    walk(v)
    walk(root)
    idx = {id(t): i for i, t in enumerate(root.token_store)}
    out.sort(key=lambda e: idx[id(e.first_token)])
    return out


def span_split(expr):
    """(text before, text inside, text after) of `expr` within its token store."""
    toks = list(expr.token_store)
    ids = [id(t) for t in toks]
    i, j = ids.index(id(expr.first_token)), ids.index(id(expr.last_token))
    tx = [t.raw_text for t in toks]
    return ''.join(tx[:i]), ''.join(tx[i:j + 1]), ''.join(tx[j + 1:])


def snapshot(expr):
    try:
        return (text_of(expr), sexp(expr), store_text(expr))
    except Exception as e:      # a broken operand (e.g. its tokens left its store) is a state of its own
        return ('!' + type(e).__name__, '!', '!')


# ---------------------------------------------------------------------------------------------------------
# one case = one spec executed on the real code
# ---------------------------------------------------------------------------------------------------------

class Case:
    """Executes a spec step by step; collects oracle failures, model lines and expectations."""

    def __init__(self, spec):
        self.spec = spec
        self.fails = []          # (sig, what, step index)
        self.lines = []          # (driver line, [expected stage or None...], step index, label)
        self.records = []        # per step: dict for signatures/statistics
        self.notes = []

    def fail(self, sig, what, k):
        self.fails.append((sig, what, k))

    def load(self):
        p, models = _env()
        sp = self.spec
        self.doc = None
        if 'doc' in sp:
            self.doc = p.parse(sp['doc'], models.File)
            ex = find_exprs(self.doc)
            if sp['slot'] >= len(ex):
                raise ValueError(f'generator: {len(ex)} expressions in document')
            self.doc_exprs = ex
            self.cur = ex[sp['slot']]
        else:
            self.cur = p.parse(sp['text'], models.NumberExpr)
        return self.cur

    def operand(self, st):
        p, models = _env()
        k = st['okind']
        if k == 'int':
            return int(st['oval'])
        if k == 'bool':
            return st['oval'] == 'True'
        if k == 'dec':
            return Decimal(st['oval'])
        if k == 'free':
            return p.parse(st['oval'], models.NumberExpr)
        if k == 'att':
            f = p.parse(st['odoc'], models.File)
            return find_exprs(f)[st['oslot']]
        if k == 'same':
            return self.doc_exprs[st['oslot']]
        if k == 'self':
            return self.cur
        raise ValueError(k)

    def check_initial(self):
        """Value clause of the property on the parsed text itself."""
        cur = self.cur
        text = text_of(cur)
        real = _try_val(lambda: cur.value)
        ind = _try_val(lambda: independent_eval(text))
        if ind[0] == 'v':
            if not (real[0] == 'v' and real[1] == ind[1]):
                self.fail('C13:value:parsed-text', f'{text!r}: .value -> {real[1]} but precedence/left-assoc evaluation gives {ind[1]}', -1)
        elif ind[0] == 'x' and real[0] != 'x':
            self.fail('C13:value:parsed-text:raise-mismatch', f'{text!r}: .value -> {real}, evaluation -> {ind}', -1)
        return real

    def run(self, with_model=True):
        p, models = _env()
        try:
            self.load()
        except Exception as e:   # generator produced something the grammar refuses: not a case
            self.notes.append(f'unparseable generated input: {type(e).__name__}')
            return False
        self.check_initial()
        chain_words = []
        chain_ok = with_model
        first_tokens = enc_tokens(self.cur.tokens)
        for k, st in enumerate(self.spec['chain']):
            if self.leaf_edit(k):
                chain_ok = False       # the model's chain carries no leaf edits; the per-step lines re-dump the tokens
            word = self.step(k, st, with_model)
            if word is None:
                chain_ok = False
                break
            chain_words.append(word)
        if self.leaf_edit(len(self.spec['chain'])):
            chain_ok = False
        if chain_ok and chain_words:
            # the model carrying its own state through the whole chain: compare the final stage
            exp = [None] * len(chain_words) + [(enc_tokens(self.cur.tokens), sexp(self.cur))]
            self.lines.append(('N ' + first_tokens + ' ' + ' '.join(chain_words), exp, len(chain_words) - 1, 'chain'))
        return True

    def leaf_edit(self, k):
        e = self.spec.get('leaf_edits', {}).get(str(k))
        if not e:
            return False
        p, models = _env()
        nums = [t for t in self.cur.tokens if isinstance(t, models.Number)]
        if not nums:
            return False
        t = nums[e[0] % len(nums)]
        t.raw_text = e[1]
        text = text_of(self.cur)
        real = _try_val(lambda: self.cur.value)
        ind = _try_val(lambda: independent_eval(text))
        if ind[0] == 'v' and not (real[0] == 'v' and real[1] == ind[1]):
            self.fail('C13:value:after-leaf-edit', f'after rewriting a NUMBER token to {e[1]!r} the text is {text!r} (= {ind[1]}) but .value -> {real[1]}', k - 1)
        elif ind[0] == 'x' and real[0] != 'x':
            self.fail('C13:value:after-leaf-edit:raise-mismatch', f'{text!r}: .value -> {real}, evaluation -> {ind}', k - 1)
        return True

    def step(self, k, st, with_model):
        p, models = _env()
        op = st['op']
        cur = self.cur
        rec = {'op': op, 'mode': st.get('mode', 'unary' if op in ('neg', 'pos') else 'method'),
               'okind': st.get('okind', '-'), 'attached': cur.token_store is getattr(self.doc, 'token_store', None),
               'ca': top_class(cur)}
        try:
            b = self.operand(st) if op in BINOPS else None
        except Exception as e:
            self.notes.append(f'unparseable generated operand: {type(e).__name__}')
            return None
        b_is_expr = isinstance(b, models.NumberExpr)
        rec['cb'] = top_class(b) if b_is_expr else ('neg' if b is not None and b < 0 else 'atom')
        a_pre = snapshot(cur)
        a_split = span_split(cur)
        a_tokens = enc_tokens(cur.tokens)
        a_sexp = a_pre[1]
        a_val = _try_val(lambda: cur.value)
        b_pre = snapshot(b) if b_is_expr else None
        b_split = span_split(b) if b_is_expr else None
        b_val = _try_val(lambda: b.value) if b_is_expr else (('v', Decimal(b)) if b is not None else None)
        same_store = b_is_expr and b.token_store is cur.token_store
        # model word for this application
        if op in BINOPS:
            if st['okind'] == 'self':
                word = 's' + op + '/-'
            else:
                if b_is_expr:
                    arg = 'E=' + enc_tokens(b.tokens)
                else:
                    d = Decimal(b)
                    arg = 'V=' + ('1' if d < 0 else '0') + '=' + enc_text(format(abs(d), 'f'))
                word = ('r' if st['mode'] == 'refl' else '') + op + '/' + arg
        else:
            word = op + '/-'
        # --- the real call
        inplace = op == 'wrap' or st.get('mode') == 'inplace'
        try:
            if op == 'neg':
                res = -cur
            elif op == 'pos':
                res = +cur
            elif op == 'wrap':
                cur.wrap_with_parenthesis()
                res = cur
            elif st['mode'] == 'plain':
                res = _PLAIN[op](cur, b)
            elif st['mode'] == 'inplace':
                res = _INPLACE[op](cur, b)
            elif b_is_expr:
                res = getattr(cur, _REFL[op])(b)
            else:
                res = _PLAIN[op](b, cur)          # int/Decimal on the left: Python dispatches to cur.__r*__
        except Exception as e:
            if op != 'wrap':
                self.fail(f'C13:raises:{op}:{rec["mode"]}:{rec["okind"]}:{"attached" if rec["attached"] else "free"}',
                          f'{type(e).__name__}: {e} on {a_pre[0]!r} {op} {b_pre[0] if b_pre else b!r}', k)
            return None
        if not isinstance(res, models.NumberExpr):
            self.fail(f'C13:result-type:{op}', f'{type(res).__name__}', k)
            return None
        r_text = text_of(res)
        r_sexp = sexp(res)
        rec['parens'] = r_text.count('(') > a_pre[0].count('(') + (b_pre[0].count('(') if b_pre else 0)
        self.records.append(rec)
        tag = f'{op}:{rec["mode"]}:{rec["okind"]}'
        # --- value of the result
        if op in BINOPS:
            x, y = (b_val, a_val) if st['mode'] == 'refl' else (a_val, b_val)
            if x[0] == 'v' and y[0] == 'v':
                f = {'add': operator.add, 'sub': operator.sub, 'mul': operator.mul, 'div': operator.truediv}[op]
                expected = _try_val(lambda: f(x[1], y[1]))
            else:
                expected = ('x', 'operand')
        elif op == 'neg':
            expected = _try_val(lambda: -a_val[1]) if a_val[0] == 'v' else ('x', 'operand')
        else:
            expected = a_val if a_val[0] == 'v' else ('x', 'operand')
        r_val = _try_val(lambda: res.value)
        judge = op != 'wrap'
        if expected[0] == 'v':
            if r_val[0] != 'v':
                if judge:
                    self.fail(f'C13:value:{tag}', f'result {r_text!r} raises {r_val[1]}, expected {expected[1]}', k)
            elif r_val[1] != expected[1]:
                if judge:
                    self.fail(f'C13:value:{tag}', f'{a_pre[0]!r} {op}({rec["mode"]}) {b_pre[0] if b_pre else b!r} -> {r_text!r} '
                                                  f'= {r_val[1]}, arithmetic gives {expected[1]}', k)
        else:
            rec['decimal_raises'] = True
        # --- printed text re-parses to the same value
        if judge:
            try:
                rp = p.parse(r_text, models.NumberExpr)
                rp_val = _try_val(lambda: rp.value)
                if rp_val != r_val and not (rp_val[0] == r_val[0] == 'v' and rp_val[1] == r_val[1]):
                    self.fail(f'C13:reparse-value:{tag}', f'{r_text!r} re-parses to {rp_val}, result value {r_val}', k)
            except Exception as e:
                self.fail(f'C13:reparse-fails:{tag}', f'{r_text!r}: {type(e).__name__}', k)
            ind = _try_val(lambda: independent_eval(r_text))
            if expected[0] == 'v' and not (ind[0] == 'v' and ind[1] == expected[1]):
                self.fail(f'C13:printed-value:{tag}', f'{r_text!r} evaluates to {ind}, arithmetic gives {expected[1]}', k)
        # --- operands and their documents
        if judge:
            if not inplace:
                if snapshot(cur) != a_pre:
                    self.fail(f'C13:operand-changed:left:{tag}', f'left operand {a_pre[0]!r} (document {a_pre[2]!r}) became '
                                                                 f'{snapshot(cur)[0]!r} (document {snapshot(cur)[2]!r})', k)
            else:
                try:
                    post = span_split(cur)
                except Exception as e:
                    post = ('!' + type(e).__name__, '', '!')
                if post[0] != a_split[0] or post[2] != a_split[2]:
                    self.fail(f'C13:inplace-outside-span:{tag}', f'document changed outside the expression: {a_split!r} -> {post!r}', k)
            if b_is_expr and b is not cur:
                if inplace and same_store:
                    now = snapshot(b)[:2]
                    if now != b_pre[:2]:
                        self.fail(f'C13:operand-changed:right:{tag}', f'right operand {b_pre[0]!r} became {now[0]!r}', k)
                elif snapshot(b) != b_pre:
                    self.fail(f'C13:operand-changed:right:{tag}', f'right operand {b_pre[0]!r} (document {b_pre[2]!r}) became '
                                                                  f'{snapshot(b)[0]!r} (document {snapshot(b)[2]!r})', k)
        # --- model line: parse of the pre-state, then the application
        if with_model:
            self.lines.append(('N ' + a_tokens + ' ' + word,
                               [(a_tokens, a_sexp, a_val), (enc_tokens(res.tokens), r_sexp, r_val)], k, 'step'))
        self.cur = res
        return word


def signature(rec):
    return (rec['op'], rec['mode'], rec['okind'], 'att' if rec['attached'] else 'free', rec['ca'], rec.get('cb', '-'),
            'paren' if rec.get('parens') else 'noparen')


def _diff_stage(out_stage, exp):
    """Compare one model stage `tokens ;; sexp ;; term` with the real (tokens, sexp[, value])."""
    parts = out_stage.split(' ;; ')
    if len(parts) != 3:
        return f'model says {out_stage!r}, real has {exp[1]!r}'
    if parts[0] != exp[0]:
        return f'tokens differ: model {parts[0]} real {exp[0]}'
    if parts[1] != exp[1]:
        return f'tree shape differs: model {parts[1]} real {exp[1]}'
    if len(exp) > 2 and exp[2][0] == 'v':
        mv = _try_val(lambda: independent_eval(parts[2]))
        if not (mv[0] == 'v' and mv[1] == exp[2][1]):
            return f'value differs: model term {parts[2]} = {mv}, real value {exp[2][1]}'
    return None


_POOL = ['7', '1+2', '2*3', '8/4/2', '1-2-3', '-(1+2)', '2*(3+4)/5', '-3']


def _fails_with(spec, sig):
    try:
        c = Case(spec)
        c.run(with_model=False)
        return any(f[0] == sig for f in c.fails)
    except Exception:
        return False


def _shrink(spec, sig):
    """Replace the free-standing texts of a failing spec by small ones as long as the same failure remains."""
    best = spec
    if best.get('text') is not None:
        for t in _POOL:
            c = dict(best, text=t)
            if len(t) < len(best['text']) and _fails_with(c, sig):
                best = c
                break
    if best['chain']:
        st = best['chain'][-1]
        if st.get('okind') == 'free':
            for t in _POOL:
                c = dict(best, chain=best['chain'][:-1] + [dict(st, oval=t)])
                if len(t) < len(st['oval']) and _fails_with(c, sig):
                    best = c
                    break
        elif st.get('okind') in ('int', 'dec'):
            for t in ['2', '-3']:
                c = dict(best, chain=best['chain'][:-1] + [dict(st, okind='int', oval=t)])
                if _fails_with(c, sig.replace(':dec', ':int')) and sig.replace(':dec', ':int') == sig:
                    best = c
                    break
    return best


def _minimise(spec, k, sig):
    """Reduce a failing case to the single failing application on a re-parsed pre-state, then to small texts."""
    spec = {kk: v for kk, v in spec.items() if v is not None}
    if k < 0:
        return _shrink(dict(spec, chain=[]), sig)
    full = dict(spec, chain=spec['chain'][:k + 1])
    try:
        c = Case(dict(spec, chain=spec['chain'][:k]))
        c.run(with_model=False)
        if c.fails:
            return full
        st = spec['chain'][k]
        if c.cur.token_store is getattr(c.doc, 'token_store', None):
            cand = {'doc': store_text(c.cur), 'slot': [id(e) for e in c.doc_exprs].index(id(c.cur)), 'chain': [st]}
        else:
            if st.get('okind') == 'same':
                return full
            cand = {'text': text_of(c.cur), 'chain': [st]}
        if _fails_with(cand, sig):
            return _shrink(cand, sig)
    except Exception:
        pass
    return full


class _Acc:
    """What one chunk reports (picklable); merged into ctx by `_run`."""

    def __init__(self):
        self.evaluations = 0
        self.sigs = set()
        self.samples = []
        self.dist = collections.Counter()
        self.fails = []
        self.divs = []
        self.model_lines = 0

    def case(self, sig, sample):
        self.evaluations += 1
        self.sigs.add(repr(sig))
        if len(self.samples) < 6:
            self.samples.append(sample)

    def count(self, key):
        self.dist[key] += 1


def _chunk(args):
    """`n` cases from their own seed: real code + oracle, then (optionally) the Lean driver and the diff."""
    seed, n, with_model = args
    import common
    rng = random.Random(seed)
    acc = _Acc()
    pending = []
    for i in range(n):
        spec = gen_spec(rng)
        c = Case(spec)
        ok = c.run(with_model)
        for note in c.notes:
            acc.count('note:' + note)
        if not ok:
            continue
        acc.count('receiver:' + ('attached' if 'doc' in spec else 'free'))
        acc.count(f'chain-length:{len(spec["chain"])}')
        for rec in c.records:
            acc.case(signature(rec), {'text': spec.get('text', spec.get('doc')), 'slot': spec.get('slot'), 'step': dict(rec)})
            acc.count('op:' + rec['op'])
            acc.count('form:' + rec['mode'])
            acc.count('operand:' + rec['okind'])
            acc.count('receiver-class:' + rec['ca'])
            acc.count('operand-class:' + rec.get('cb', '-'))
            if rec.get('parens'):
                acc.count('parentheses-inserted')
            if rec.get('decimal_raises'):
                acc.count('decimal-raises(value clause skipped)')
        seen = set()
        for sig, what, k in c.fails:
            if sig in seen:
                continue
            seen.add(sig)
            if len(acc.fails) < 200:
                acc.fails.append((sig, what, _minimise(spec, k, sig)))
        for line in c.lines:
            pending.append((line, spec))
    if with_model and pending:
        outs = common.Driver().run([l[0][0] for l in pending])
        acc.model_lines = len(pending)
        for ((line, exp, k, label), spec), out in zip(pending, outs):
            stages = out.split(' || ')
            detail = None
            if len(stages) != len(exp):
                detail = f'model output {out[:200]!r}'
            else:
                for stg, e in zip(stages, exp):
                    if e is None:
                        continue
                    detail = _diff_stage(stg, e)
                    if detail:
                        break
            if detail and len(acc.divs) < 200:
                acc.divs.append((f'C13:numexpr:{label}', f'{detail} [line {line[:300]}]', dict(spec, chain=spec['chain'][:k + 1])))
    return acc


def _run(ctx, n, with_model, chunk=4000):
    """Quick: one chunk in-process. Thorough: chunks on a small process pool (each with its own driver);
    chunk seeds come from ctx.rng and results are merged in chunk order, so a run is reproducible from VERIF_SEED."""
    with_model = with_model and ctx.extra.get('model_available', True)
    jobs = []
    left = n
    while left > 0:
        m = min(chunk, left)
        jobs.append((ctx.rng.getrandbits(64), m, with_model))
        left -= m
    if len(jobs) == 1:
        results = [_chunk(jobs[0])]
    else:
        import multiprocessing
        with multiprocessing.get_context('fork').Pool(min(6, os.cpu_count() or 1, len(jobs))) as pool:
            results = pool.map(_chunk, jobs, chunksize=1)
    for acc in results:
        ctx.evaluations += acc.evaluations
        ctx.nontrivial |= acc.sigs
        for smp in acc.samples:
            if len(ctx.samples) < 6:
                ctx.samples.append(smp)
        ctx.dist.update(acc.dist)
        for f in acc.fails:
            ctx.oracle_fail(*f)
        for d in acc.divs:
            ctx.divergence(*d)
        ctx.extra['model_lines'] = ctx.extra.get('model_lines', 0) + acc.model_lines


def run(ctx):
    _run(ctx, ctx.scale(2000, 100000), True)


def search(ctx, hints):
    _run(ctx, ctx.scale(6000, 30000), False)


def replay(ctx, data):
    rep = data.get('replay') or data.get('first_diverging_replay')
    if not rep:
        return False
    c = Case({k: v for k, v in rep.items() if v is not None})
    c.run(with_model=False)
    return not c.fails
