"""C20 - equality means same type, same text and same structure."""
from __future__ import annotations
import copy
from autobean_refactor import models
from autobean_refactor.models import base, internal
import intro, edits, docs, treedump, session
from autobean_refactor.models import base as base_mod

ID = 'C20'
PROPERTY_FILE = 'Autobean/Properties/C20.lean'
LEAN_TARGETS = ['Autobean.Properties.C20', 'Autobean.Obligations.Schema', 'Autobean.Obligations.CachesEquality']
RULE = ('generated ledgers and the parseable string literals of the repository tests, both attribution modes; pairs: the same '
        'text parsed twice (root and every sub-model), copy vs original, every single perturbation of one document (text of '
        'one store token; each present optional child removed; each absent optional child added; append/pop on each repeated '
        'field; indent_by; comment ownership: unclaim leading/trailing/interleaving, move a leading comment to the enclosing '
        'item list, claim in unattributed documents) judged at the File and at the smallest model containing the change, both '
        'directions; token pairs with equal (RULE, text) for ==/hash; same-class sub-model pairs; every judged pair is also '
        'compared with an independent three-part characterisation and with the Lean treeEq on the dumped pair. '
        'distinct non-trivial = distinct (pair kind, class, field, perturbation kind, verdict)')
ASSUMPTIONS = ['private field layout is read through harness/intro.py; documents are dumped by harness/treedump.py',
               'the generated _eq of every class names every field and indent_by: ClassSchema.eqComplete (Model/SchemaWF.lean) '
               'over the extracted table; here every field of every reachable class is perturbed on the real objects',
               'characterisation used by the oracle (theorems treeEq_of_char / treeEq_imp): same type, same (RULE, text) token '
               'list, same structure (classes, fields, indent_by, ownership) with leaves at the same positions => must be equal; '
               'different type, text or structure => must be unequal; pairs in between (same abstract structure, an identical '
               'token owned at another position) are counted, not judged']
LEVEL_NOTE = 'proof on the tree model (Model/Tree.lean) + lock-step tie; per-class _eq completeness is a table obligation'
TECHNIQUE = 'Lean 4 theorems over a rose-tree/store model; lock-step correspondence; executable oracle on real objects'


# ---- the independent characterisation ---------------------------------------------------------------------

def struct20(m):
    """Classes, field nesting, indent_by (a data field the generated `_eq` compares), ownership; tokens on (RULE, text)."""
    if m is None:
        return None
    if isinstance(m, base.RawTokenModel):
        return ('T', type(m).RULE, m.raw_text)
    if isinstance(m, internal.Repeated):
        return ('R', tuple(struct20(x) for x in m.items))
    ind = m.__dict__['indent_by'] if 'indent_by' in m.__dict__ else None
    return (type(m).__name__, ind, tuple((name, struct20(v)) for name, _, v in intro.field_values(m)))


def first_diff(a, b, cls='?'):
    """(class, field) of the first structural difference."""
    if a == b:
        return None
    if a is None or b is None or a[0] != b[0]:
        return (cls, 'type')
    if a[0] == 'T':
        return (cls, 'text')
    if a[0] == 'R':
        if len(a[1]) != len(b[1]):
            return (cls, 'len')
        for x, y in zip(a[1], b[1]):
            d = first_diff(x, y, cls)
            if d:
                return d
        return (cls, '?')
    if a[1] != b[1]:
        return (a[0], 'indent_by')
    for (n1, x), (_n2, y) in zip(a[2], b[2]):
        if x != y:
            if x is not None and y is not None and x[0] == y[0] and x[0] not in ('T', 'R'):
                return first_diff(x, y, a[0])     # the same class on both sides: look inside
            return (a[0], n1)
    return (a[0], '?')


def toks_kt(m):
    return [(type(t).RULE, t.raw_text) for t in m.tokens]


def leaf_offsets(m):
    pos = {id(t): i for i, t in enumerate(m.tokens)}
    return [pos.get(id(t)) for t in intro.leaves(m)]


def characterise(x, y):
    """'equal' (must compare equal), 'differ' (must compare unequal) or 'gap' (not judged), with a reason."""
    if type(x) is not type(y):
        return 'differ', (type(x).__name__, 'type')
    kx, ky = toks_kt(x), toks_kt(y)
    if ''.join(t for _, t in kx) != ''.join(t for _, t in ky):
        return 'differ', (type(x).__name__, 'text')
    sx, sy = struct20(x), struct20(y)
    if sx != sy:
        return 'differ', first_diff(sx, sy, type(x).__name__)
    if kx == ky and leaf_offsets(x) == leaf_offsets(y):
        return 'equal', (type(x).__name__, '-')
    return 'gap', (type(x).__name__, 'same-structure-other-positions' if kx == ky else 'same-text-other-tokens')


# ---- documents and paths ------------------------------------------------------------------------------------

def parse(text, auto):
    return edits.P().parse(text, models.File, auto_claim_comments=auto)


def by_path(root, path):
    x = root
    for name in path:
        x = dict((n, v) for n, _, v in intro.field_values(x))[name]
    return x


def tree_nodes(root):
    return [(p, m) for p, m in intro.walk(root) if not isinstance(m, base.RawTokenModel)]


def holder_of_token(root, k):
    """Path of the smallest tree model whose token list contains the k-th store token."""
    pos = {id(t): i for i, t in enumerate(root.token_store)}
    best = ()
    for p, m in tree_nodes(root):
        try:
            a, b = pos[id(m.first_token)], pos[id(m.last_token)]
        except Exception:   # noqa: BLE001
            continue
        if a <= k <= b and len(p) >= len(best):
            best = p
    return list(best)


# ---- perturbation sites ---------------------------------------------------------------------------------------

def different_texts(r, tok):
    old = tok.raw_text
    n = type(tok).__name__
    out = []
    if n in edits.TOKEN_DOMAINS:
        for _ in range(4):
            try:
                v = edits.build_value(edits.TOKEN_DOMAINS[n](r), None)
                out.append(v.raw_text)
            except Exception:   # noqa: BLE001
                break
    if isinstance(tok, models.Newline):
        out += [old + '\n']
    if isinstance(tok, models.Whitespace):
        out += [old + ' ']
    out += [old + '1', old + 'x', old + ' ', 'x' + old]
    return [t for t in out if t != old]


def sites_of(r, root):
    """All single perturbations applicable to the document (as replayable dicts)."""
    sites = []
    for k, t in enumerate(root.token_store):
        sites.append({'kind': 'tok-text', 'k': k, 'cls': type(t).__name__, 'texts': different_texts(r, t),
                      'holder': None, 'field': type(t).__name__})
    for p, m in tree_nodes(root):
        p = list(p)
        if isinstance(m, internal.Repeated):
            continue
        cls = type(m).__name__
        if 'indent_by' in m.__dict__:
            sites.append({'kind': 'indent_by', 'holder': p, 'cls': cls, 'field': 'indent_by'})
        if isinstance(m, (models.NumberAddExpr, models.NumberMulExpr)):
            continue
        api = intro.api_props(type(m))
        fields = {name: (kind, tys) for name, kind, tys, _ in intro.class_fields(type(m))}
        for raw, f in api['opt'].items():
            if not raw.startswith('raw_'):
                continue
            cur = m.__dict__.get(f)
            if cur is not None:
                sites.append({'kind': 'remove-opt', 'holder': p, 'cls': cls, 'field': f, 'attr': raw})
            else:
                tys = fields.get(f, (None, ()))[1]
                if not tys:
                    continue
                ty = r.choice(tys)
                indent = ''
                if ty is models.BlockComment and hasattr(m, 'raw_indent'):
                    indent = m.raw_indent.value
                spec = edits.gen_value_for(r, ty, indent=indent)
                if spec is not None:
                    sites.append({'kind': 'add-opt', 'holder': p, 'cls': cls, 'field': f, 'attr': raw, 'val': spec})
        for raw, (f, wc) in api['rep'].items():
            rp = m.__dict__.get(f)
            if rp is None:
                continue
            if rp.items:
                sites.append({'kind': 'pop', 'holder': p, 'cls': cls, 'field': f, 'attr': raw})
            tys = fields.get(f, (None, ()))[1]
            if tys:
                ty = r.choice(tys)
                spec = edits.gen_value_for(r, ty, indent=edits._indent_for(m, raw))
                if spec is not None:
                    sites.append({'kind': 'append', 'holder': p, 'cls': cls, 'field': f, 'attr': raw, 'val': spec})
            if wc:
                cm = [i for i, x in enumerate(rp.items) if isinstance(x, models.BlockComment)]
                if cm:
                    sites.append({'kind': 'unclaim-item', 'holder': p, 'cls': cls, 'field': f, 'attr': raw, 'i': r.choice(cm)})
                sites.append({'kind': 'claim-items', 'holder': p, 'cls': cls, 'field': f, 'attr': raw})
                for i, x in enumerate(rp.items):
                    if isinstance(x, internal.SurroundingCommentsMixin) and x.__dict__.get('_leading_comment') is not None:
                        sites.append({'kind': 'move-leading-to-items', 'holder': p, 'cls': cls, 'field': f, 'attr': raw, 'i': i})
        if isinstance(m, internal.SurroundingCommentsMixin):
            for side in ('leading', 'trailing'):
                if m.__dict__.get(f'_{side}_comment') is not None:
                    sites.append({'kind': f'unclaim-{side}', 'holder': p, 'cls': cls, 'field': f'_{side}_comment'})
                else:
                    sites.append({'kind': f'claim-{side}', 'holder': p, 'cls': cls, 'field': f'_{side}_comment'})
    return sites


class Skip(Exception):
    pass


def apply_site(b, site):
    """Perform the perturbation on document `b`.  Raises Skip when it does not apply / the edit itself is refused
    (not C20's business).  Returns the list of holder paths (smallest models containing the change)."""
    k = site['kind']
    try:
        if k == 'tok-text':
            tok = list(b.token_store)[site['k']]
            holder = holder_of_token(b, site['k'])
            old = tok.raw_text
            for t in site['texts']:
                try:
                    tok.raw_text = t
                except Exception:   # noqa: BLE001 - this text is not accepted by the token class; try the next
                    continue
                if tok.raw_text != old:
                    return [holder]
            raise Skip('no other text accepted')
        m = by_path(b, site['holder'])
        if k == 'indent_by':
            m.indent_by = m.indent_by + ' '
        elif k == 'remove-opt':
            setattr(m, site['attr'], None)
            if m.__dict__.get(site['field']) is not None:
                raise Skip('not removed')
        elif k == 'add-opt':
            setattr(m, site['attr'], edits.build_value(site['val'], b))
            if m.__dict__.get(site['field']) is None:
                raise Skip('not added')
        elif k == 'append':
            n = len(m.__dict__[site['field']].items)
            getattr(m, site['attr']).append(edits.build_value(site['val'], b))
            if len(m.__dict__[site['field']].items) != n + 1:
                raise Skip('not appended')
        elif k == 'pop':
            getattr(m, site['attr']).pop()
        elif k == 'unclaim-item':
            w = getattr(m, site['attr'])
            c = m.__dict__[site['field']].items[site['i']]
            if not w.unclaim_interleaving_comments([c]):
                raise Skip('nothing unclaimed')
        elif k == 'claim-items':
            n = len(m.__dict__[site['field']].items)
            got = getattr(m, site['attr']).claim_interleaving_comments()
            if len(m.__dict__[site['field']].items) == n:
                raise Skip('nothing claimed')
            del got
        elif k == 'move-leading-to-items':
            x = m.__dict__[site['field']].items[site['i']]
            c = x.unclaim_leading_comment()
            if c is None:
                raise Skip('no leading comment')
            getattr(m, site['attr']).claim_interleaving_comments([c])
            if not any(y is c for y in m.__dict__[site['field']].items):
                raise Skip('not claimed as item')
        elif k in ('unclaim-leading', 'unclaim-trailing'):
            if getattr(m, k.replace('-', '_') + '_comment')() is None:
                raise Skip('nothing unclaimed')
        elif k in ('claim-leading', 'claim-trailing'):
            if getattr(m, k.replace('-', '_') + '_comment')() is None:
                raise Skip('nothing claimed')
        else:
            raise Skip('unknown kind')
    except Skip:
        raise
    except Exception as e:   # noqa: BLE001 - the edit itself failed (other properties judge that)
        raise Skip(f'{type(e).__name__}') from e
    return [site['holder']]


# ---- judging a pair ---------------------------------------------------------------------------------------------

def safe_eq(x, y):
    try:
        return bool(x == y)
    except Exception as e:   # noqa: BLE001
        return f'raises {type(e).__name__}'


class Judge:
    def __init__(self, ctx, lockstep):
        self.ctx = ctx
        self.lockstep = lockstep
        self.lines = []
        self.expect = []

    def pair(self, kind, x, y, replay, *, expect=None, site=None, dumps=None, lock=True):
        """Judge one pair: symmetry, the expected verdict of the perturbation (if any), the characterisation."""
        ctx = self.ctx
        e1, e2 = safe_eq(x, y), safe_eq(y, x)
        cls = type(x).__name__
        fld = site['field'] if site else '-'
        pk = site['kind'] if site else kind
        if e1 is not e2 and e1 != e2:
            ctx.oracle_fail('C20:asymmetric', f'{kind}: {cls} a == b is {e1} but b == a is {e2}', replay)
        if isinstance(e1, str) or isinstance(e2, str):
            ctx.oracle_fail(f'C20:eq-raises:{cls}', f'{kind}: == on {cls} {e1}/{e2}', replay)
            return
        if expect is False and (e1 or e2):
            ctx.oracle_fail(f'C20:perturbed-equal:{site["cls"]}.{fld}:{pk}',
                            f'{pk} at {cls} (field {fld}): the perturbed {cls} still compares equal to the original', replay)
        if expect is True and not (e1 and e2):
            sig = {'parse-twice': 'C20:parse-twice-unequal', 'copy': 'C20:copy-unequal'}.get(kind, 'C20:expected-equal:' + kind)
            ctx.oracle_fail(sig, f'{kind}: {cls} models that must be equal compare unequal', replay)
        verdict, why = characterise(x, y)
        ctx.count('char:' + verdict + ('' if verdict != 'gap' else ':' + why[1]))
        if verdict == 'equal' and not e1:
            ctx.oracle_fail(f'C20:eq!=characterisation:{why[0]}.{why[1]}',
                            f'{kind}: same type, same tokens, same structure and positions, but == is False ({cls})', replay)
        if verdict == 'differ' and e1:
            ctx.oracle_fail(f'C20:eq!=characterisation:{why[0]}.{why[1]}',
                            f'{kind}: == is True although the models differ in {why[0]}.{why[1]}', replay)
        ctx.case((kind, cls, fld, pk, e1, verdict))
        if self.lockstep and lock and dumps is not None:
            da, db = dumps
            if id(x) in da.paths and id(y) in db.paths:
                self.lines.append(f'T eq {da.doc_w()} {da.path_w(x)} {db.doc_w()} {db.path_w(y)}')
                self.expect.append(('true' if e1 else 'false', replay, kind + ':' + pk))

    def flush(self):
        ctx = self.ctx
        if not self.lines:
            return
        out = ctx.driver.run(self.lines)
        ctx.extra['lockstep_lines'] = ctx.extra.get('lockstep_lines', 0) + len(self.lines)
        for got, (exp, rep, stream) in zip(out, self.expect):
            ctx.count('lockstep:T eq:' + stream.split(':')[0])
            if got != exp:
                ctx.divergence('T eq', {'model': got, 'real': exp, 'pair': stream}, rep)
        self.lines, self.expect = [], []


def judge_tokens(ctx, root, replay):
    """For tokens == is 'same RULE and same text', and is consistent with hash."""
    toks = list(root.token_store)
    groups = {}
    for t in toks:
        groups.setdefault((type(t).RULE, t.raw_text), []).append(t)
    reps = [g[0] for g in groups.values()]
    for key, g in groups.items():
        for t in g[1:6]:
            a = g[0]
            if not (a == t and t == a):
                ctx.oracle_fail('C20:eq!=characterisation:token.' + key[0], f'tokens with the same RULE and text {key!r} compare unequal', replay)
            elif hash(a) != hash(t):
                ctx.oracle_fail('C20:hash', f'equal tokens {key!r} have different hashes', replay)
        if len(g) > 1:
            ctx.case(('token-pair', key[0], 'equal'))
    reps = reps[:25]      # deterministic (replayable): all pairs of distinct (RULE, text) among the first 25
    for i, a in enumerate(reps):
        for b in reps[i + 1:]:
            if a == b or b == a:
                ctx.oracle_fail('C20:eq!=characterisation:token.' + type(a).RULE,
                                f'tokens {type(a).RULE}:{a.raw_text!r} and {type(b).RULE}:{b.raw_text!r} compare equal', replay)
                return
    ctx.case(('token-pairs', len(reps) > 1, 'unequal'))


def judge_text_variants(ctx, text, auto, a):
    """Two documents that print different text are unequal (same type, different text): the same document with
    extra trailing trivia - which no field of the tree owns."""
    for extra in ('\n', '\n\n', ' ', '\t\n', '\n; unowned tail\n'):
        t2 = text + extra
        try:
            b = parse(t2, False if ';' in extra else auto)
        except Exception:   # noqa: BLE001
            continue
        if intro.pr(b) == intro.pr(a):
            continue
        ctx.case(('text-variant', repr(extra)))
        for x, y, d in ((a, b, 'a == b'), (b, a, 'b == a')):
            if safe_eq(x, y) is True:
                ctx.oracle_fail('C20:different-text-equal:File:trailing-trivia', f'{d} although the printed texts differ (extra {extra!r} at the end)',
                                {'text': text, 'auto_claim': auto, 'site': None, 'variant': extra})
                return


SWAP_FIXTURES = [
    '2000-01-01 open Assets:A\n\n; section one\n\n; section two\n\n2000-01-02 close Assets:A\n',
    '; head one\n\n; head two\n\n2000-01-01 open Assets:A\n\n; mid\n\n; mid too\n\n; and a third\n\n2000-01-02 close Assets:A\n',
]


def judge_owner_swap(ctx, text, auto):
    """Two documents with the same tokens, the same number of owned comments, but DIFFERENT comments owned (document A gives
    up comment i of a field, document B comment j): which model owns a comment is structure, so A != B."""
    try:
        probe = parse(text, auto)
    except Exception:   # noqa: BLE001
        return
    for p, m in tree_nodes(probe):
        if isinstance(m, (internal.Repeated, models.NumberAddExpr, models.NumberMulExpr, base.RawTokenModel)):
            continue
        for raw, (f, wc) in intro.api_props(type(m))['rep'].items():
            rp = m.__dict__.get(f)
            if not wc or rp is None:
                continue
            cm = [i for i, x in enumerate(rp.items) if isinstance(x, models.BlockComment)]
            pairs = [(i, j) for i in cm for j in cm if i < j and rp.items[i].raw_text != rp.items[j].raw_text]
            for i, j in pairs[:3]:
                a, b = parse(text, auto), parse(text, auto)
                try:
                    ma, mb = by_path(a, p), by_path(b, p)
                    getattr(ma, raw).unclaim_interleaving_comments([ma.__dict__[f].items[i]])
                    getattr(mb, raw).unclaim_interleaving_comments([mb.__dict__[f].items[j]])
                except Exception:   # noqa: BLE001 - the edit itself failed: not C20's business
                    continue
                ctx.case(('owner-swap', type(m).__name__, raw))
                ctx.count('owner-swap')
                rep = {'text': text, 'auto_claim': auto, 'site': None, 'owner_swap': [list(p), raw, f, i, j]}
                for x, y, lvl in ((a, b, 'document'), (ma, mb, 'holder'), (ma.__dict__[f], mb.__dict__[f], 'field')):
                    e1, e2 = safe_eq(x, y), safe_eq(y, x)
                    if e1 is not False or e2 is not False:
                        ctx.oracle_fail(f'C20:equal-although-another-comment-is-owned:{lvl}', f'{type(m).__name__}.{raw}: A released entry {i}, B released entry {j} '
                                        f'({rp.items[i].raw_text!r} / {rp.items[j].raw_text!r}); A == B -> {e1}, B == A -> {e2} at the {lvl} level', rep)
                        break


def judge_slot_swap(ctx):
    """Same type, same text, same tokens - but the one header string sits in ANOTHER child slot of the transaction (the
    three adjacent string slots print alike): which child holds a token is structure, so the models (and the documents
    around them) are unequal, in both directions; the same slot gives equal models."""
    built = []
    for slot in ('raw_string0', 'raw_string1', 'raw_string2'):
        f = parse('2000-01-01 *\n  Assets:A  1 USD\n', True)
        t = f.raw_directives[0]
        try:
            setattr(t, slot, models.EscapedString.from_value('Cafe'))
        except Exception:   # noqa: BLE001 - the edit itself failed: not C20's business
            continue
        built.append((slot, f, t, intro.pr(f)))
    for sa, fa, ta, xa in built:
        for sb, fb, tb, xb in built:
            if xa != xb:
                continue
            ctx.case(('slot-swap', sa, sb))
            for x, y, lvl in ((fa, fb, 'document'), (ta, tb, 'holder')):
                e = safe_eq(x, y)
                if e is not (sa == sb):
                    ctx.oracle_fail(f'C20:slot-swap:{"unequal-same-slot" if sa == sb else "equal-although-another-slot-holds-the-string"}:{lvl}',
                                    f'two transactions printing {xa.splitlines()[0]!r}, the string in {sa} / {sb}: == gives {e} at the {lvl} level',
                                    {'text': xa, 'auto_claim': True, 'site': None, 'slot_swap': [sa, sb]})
                    return


def judge_after_slice_grid(ctx, judge):
    """copy == original after every kind of index / slice assignment of TREE-valued entries (directives, postings, cost
    components; lists of 2-4 entries; plain, stepped and reversed slices; integer indexes): whichever call shape put an
    entry in place, the entry is part of the document like any other."""
    import slicegrid
    for name, mk, path, attr, val in slicegrid.REGIMES:
        if name not in ('file.directives', 'txn.postings', 'cost.components'):
            continue
        for n in (2, 3, 4):
            text = mk(n)
            base = {'path': path, 'attr': attr, 'parent': path, 'field': attr}
            ops = []
            for start, stop, step in ((None, None, 2), (None, None, -1), (1, None, 2), (None, None, -2), (0, 2, None), (None, None, None), (-1, None, -2)):
                k = len(range(n)[slice(start, stop, step)])
                ops.append({'k': 'setitem', 'kind': 'rep-setslice', 'idx': ['slice', start, stop, step], 'val': {'t': 'list', 'items': [val(i) for i in range(k)]}, **base})
            ops += [{'k': 'setitem', 'kind': 'rep-setitem', 'idx': i, 'val': val(1), **base} for i in range(-n, n)]
            for op in ops:
                a = parse(text, True)
                try:
                    if edits.apply_op(a, op)[0] != 'ok':
                        continue
                    c = copy.deepcopy(a)
                except Exception:   # noqa: BLE001 - donor problems, refused edits and failing copies are not C20's business
                    continue
                ctx.case(('copy-after-slice-grid', name, n, str(op['idx'])))
                rp = {'text': text, 'auto_claim': True, 'site': None, 'edits': [op]}
                judge.pair('copy', a, c, rp, expect=True, lock=False)
                try:
                    h = intro.resolve(a, op['path'])
                    if isinstance(h, base_mod.RawTreeModel) and h is not a:
                        judge.pair('copy', h, copy.deepcopy(h), {**rp, 'copy_sub_api': op['path']}, expect=True, lock=False)
                except Exception:   # noqa: BLE001
                    pass


def judge_hash_after_edit(ctx, root, replay):
    """Token == is consistent with hash also after in-place edits: hash a token, change it through its setters, then
    compare it (and its hash) with an independently built token of the same RULE and text."""
    import tokedit
    r = ctx.rng
    toks = [t for t in root.token_store if tokedit.domain_assignments(r, t)]
    for t in (r.sample(toks, 8) if len(toks) > 8 else toks):
        hash(t)
        attr, val = r.choice(tokedit.domain_assignments(r, t))
        try:
            setattr(t, attr, val)
        except Exception:   # noqa: BLE001
            continue
        try:
            twin = type(t).from_raw_text(t.raw_text)
        except Exception:   # noqa: BLE001
            continue
        ctx.case(('hash-after-edit', type(t).__name__, attr))
        if t == twin and hash(t) != hash(twin):
            ctx.oracle_fail(f'C20:hash:after-edit:{type(t).__name__}.{attr}',
                            f'{type(t).__name__} edited through .{attr} equals a fresh token with text {t.raw_text!r} but their hashes differ',
                            {**replay, 'mode': 'hash-after-edit'})
            return


# ---- run ------------------------------------------------------------------------------------------------------------

def one_site(ctx, judge, text, auto, a, da, b0, site, lock):
    """Copy the second parse, perturb the copy, judge against the first parse."""
    replay = {'text': text, 'auto_claim': auto, 'site': site}
    b = copy.deepcopy(b0)
    if not (a == b and b == a):
        ctx.oracle_fail('C20:copy-unequal', 'the copy of the second parse does not equal the first parse', {'text': text, 'auto_claim': auto, 'site': None})
        return
    try:
        holders = apply_site(b, site)
    except Skip as e:
        ctx.count(f'skip:{site["kind"]}:{e}')
        return
    ctx.count('perturb:' + site['kind'])
    db = treedump.Dump(b) if (judge.lockstep and lock) else None
    dumps = (da, db) if db is not None else None
    judge.pair('perturbed-root', a, b, replay, expect=False, site=site, dumps=dumps, lock=lock)
    for h in holders:
        try:
            xa, xb = by_path(a, h), by_path(b, h)
        except Exception:   # noqa: BLE001
            continue
        if h:
            judge.pair('perturbed-holder', xa, xb, replay, expect=False, site=site, dumps=dumps, lock=lock)
        if site['kind'] in ('append', 'pop', 'unclaim-item', 'claim-items', 'move-leading-to-items'):
            ra, rb = xa.__dict__.get(site['field']), xb.__dict__.get(site['field'])
            if ra is not None and rb is not None:
                judge.pair('perturbed-repeated', ra, rb, replay, expect=False, site=site, dumps=dumps, lock=lock)


def run(ctx, ndocs=None, lockstep=True):
    r = ctx.rng
    ndocs = ndocs if ndocs is not None else ctx.scale(150, 4000)
    per_doc = ctx.scale(30, 80)
    lockstep = lockstep and ctx.extra.get('model_available', True)
    judge = Judge(ctx, lockstep)
    for fx in SWAP_FIXTURES:
        judge_owner_swap(ctx, fx, True)
    judge_slot_swap(ctx)
    judge_after_slice_grid(ctx, judge)
    corpus = list(docs.corpus('File'))
    for _ in range(ndocs):
        text = r.choice(corpus) if corpus and r.random() < 0.3 else docs.gen_file(r, r.choice((1, 2, 3, 5)))
        auto = r.random() < 0.65
        # a third of the documents live in stores cut into small blocks (and their copies in stores cut differently):
        # equality and hashing are about content, never about where a block boundary falls
        lf = r.choice((3, 4, 6, 10)) if r.random() < 0.35 else None
        session.set_lf(lf)
        try:
            _one_doc(ctx, r, judge, text, auto, lf, per_doc, lockstep)
        finally:
            session.set_lf(None)
    judge.flush()


def _one_doc(ctx, r, judge, text, auto, lf, per_doc, lockstep):
    if True:
        try:
            a = parse(text, auto)
            b0 = parse(text, auto)
        except Exception:   # noqa: BLE001
            ctx.count('doc:rejected')
            return
        ctx.count('doc:accepted')
        ctx.count('regime:small-blocks' if lf else 'regime:default-blocks')
        base_replay = {'text': text, 'auto_claim': auto, 'site': None, 'lf': lf}
        da = treedump.Dump(a) if lockstep else None
        db0 = treedump.Dump(b0) if lockstep else None
        # parsed twice: root and sub-models at the same path
        judge.pair('parse-twice', a, b0, base_replay, expect=True, dumps=(da, db0))
        subs = tree_nodes(a)[1:]
        for p, x in (r.sample(subs, 6) if len(subs) > 6 else subs):
            judge.pair('parse-twice', x, by_path(b0, p), {**base_replay, 'path': list(p)}, expect=True, dumps=(da, db0),
                       lock=r.random() < 0.3)
        # copy vs original
        c = copy.deepcopy(a)
        judge.pair('copy', a, c, base_replay, expect=True, dumps=(da, treedump.Dump(c)) if lockstep else None)
        for p, x in (r.sample(subs, 5) if len(subs) > 5 else subs):
            if not isinstance(x, internal.Repeated):
                judge.pair('copy', x, copy.deepcopy(x), {**base_replay, 'path': list(p), 'copy_sub': True}, expect=True, lock=False)
        # ... and with the one piece of model state that is not a token (indent_by) set to something else first
        holders = [(p, x) for p, x in subs if hasattr(x, 'indent_by')]
        if holders:
            a2 = parse(text, auto)
            picks = r.sample(holders, min(len(holders), 2))
            ibs = [r.choice(['  ', '\t', ' ']) for _ in picks]
            for (p, _), ib in zip(picks, ibs):
                by_path(a2, p).indent_by = ib
            rp = {**base_replay, 'indent_by': [[list(p), ib] for (p, _), ib in zip(picks, ibs)]}
            judge.pair('copy', a2, copy.deepcopy(a2), rp, expect=True, lock=False)
            x2 = by_path(a2, picks[0][0])
            judge.pair('copy', x2, copy.deepcopy(x2), {**rp, 'path': list(picks[0][0]), 'copy_sub': True}, expect=True, lock=False)
        # ... and after an edit history: a document with a history equals its copy like any other
        a3 = parse(text, auto)
        hist = []
        for _ in range(r.choice([1, 2, 4])):
            try:
                op = edits.gen_op(r, a3, kinds=('numop',) if r.random() < 0.35 else None)
                if op is None:
                    break
                edits.apply_op(a3, op)
                hist.append(op)
            except Exception:   # noqa: BLE001 - donor problems and refused edits are not C20's business
                continue
        if hist:
            rp = {**base_replay, 'edits': hist}
            try:
                c3 = copy.deepcopy(a3)
            except Exception:   # noqa: BLE001 - C11 matter
                c3 = None
            if c3 is not None:
                ctx.count('copy-after-edits')
                judge.pair('copy', a3, c3, rp, expect=True, lock=False)
                try:
                    h3 = intro.resolve(a3, hist[-1]['path'])
                    if isinstance(h3, base.RawTreeModel):
                        judge.pair('copy', h3, copy.deepcopy(h3), {**rp, 'copy_sub_api': hist[-1]['path']}, expect=True, lock=False)
                except Exception:   # noqa: BLE001
                    pass
        # tokens
        judge_tokens(ctx, a, base_replay)
        judge_text_variants(ctx, text, auto, a)
        # same-class sub-model pairs of one document
        bycls = {}
        for p, x in tree_nodes(a):
            bycls.setdefault(type(x), []).append((p, x))
        cands = [v for v in bycls.values() if len(v) > 1]
        for _k in range(min(6, len(cands) * 2)):
            (p1, x), (p2, y) = r.sample(r.choice(cands), 2)
            judge.pair('cross', x, y, {**base_replay, 'paths': [list(p1), list(p2)]}, dumps=(da, da), lock=r.random() < 0.5)
        # single perturbations
        sites = sites_of(r, a)
        for s in sites:
            ctx.count('site:' + s['kind'])
        kinds = sorted({s['kind'] for s in sites})
        chosen = []
        for k in kinds:      # every kind present gets a share, the rest uniformly
            ks = [s for s in sites if s['kind'] == k]
            chosen += r.sample(ks, min(len(ks), 2))
        rest = [s for s in sites if s not in chosen]
        if len(chosen) < per_doc and rest:
            chosen += r.sample(rest, min(len(rest), per_doc - len(chosen)))
        for s in chosen:
            one_site(ctx, judge, text, auto, a, da, b0, s, lock=r.random() < 0.35)
        judge_hash_after_edit(ctx, parse(text, auto), base_replay)
        judge_owner_swap(ctx, text, auto)
        if len(judge.lines) > 1500:
            judge.flush()


def search(ctx, hints):
    run(ctx, ndocs=ctx.scale(350, 3000), lockstep=False)


def replay(ctx, data):
    rep = data.get('replay') or data.get('first_diverging_replay') or data
    if not rep or 'text' not in rep:
        return False
    before = len(ctx.oracle_fails)
    text, auto = rep['text'], rep['auto_claim']
    session.set_lf(rep.get('lf'))
    try:
        return _replay(ctx, rep, text, auto, before)
    finally:
        session.set_lf(None)


def _replay(ctx, rep, text, auto, before):
    a, b0 = parse(text, auto), parse(text, auto)
    for op in rep.get('edits', []):
        try:
            edits.apply_op(a, op)
        except Exception:   # noqa: BLE001
            pass
    if rep.get('edits'):
        judge0 = Judge(ctx, False)
        judge0.pair('copy', a, copy.deepcopy(a), rep, expect=True)
        if rep.get('copy_sub_api'):
            h = intro.resolve(a, rep['copy_sub_api'])
            judge0.pair('copy', h, copy.deepcopy(h), rep, expect=True)
        return len(ctx.oracle_fails) == before
    for p, ib in rep.get('indent_by', []):
        by_path(a, p).indent_by = ib
        by_path(b0, p).indent_by = ib
    judge = Judge(ctx, False)
    site = rep.get('site')
    if rep.get('owner_swap'):
        judge_owner_swap(ctx, text, auto)
        return len(ctx.oracle_fails) == before
    if rep.get('slot_swap'):
        judge_slot_swap(ctx)
        return len(ctx.oracle_fails) == before
    if site is None:
        if 'paths' in rep:
            judge.pair('cross', by_path(a, rep['paths'][0]), by_path(a, rep['paths'][1]), rep)
        else:
            p = rep.get('path', [])
            judge.pair('parse-twice', by_path(a, p), by_path(b0, p), rep, expect=True)
            judge.pair('copy', a, copy.deepcopy(a), rep, expect=True)
            judge.pair('copy', by_path(a, p), copy.deepcopy(by_path(a, p)), rep, expect=True)
            judge_tokens(ctx, a, rep)
    else:
        one_site(ctx, judge, text, auto, a, None, b0, site, lock=False)
    return len(ctx.oracle_fails) == before
