"""C19 - a refused operation leaves the document exactly as it was."""
import session

ID = 'C19'
PROPERTY_FILE = 'Autobean/Properties/C19.lean'
LEAN_TARGETS = ['Autobean.Properties.C19', 'Autobean.Obligations.Refusals']
RULE = ('edit histories with a malformed stream mixed in (attached nodes as values at any batch position, out-of-range '
        'indices, missing keys, size-mismatched slices, unparsable raw texts, attached arithmetic operands, comments that '
        'cannot be claimed, illegal cost combinations); whenever the real call raises, printed text, tree structure and '
        'the structural invariant are compared with the state before the call. '
        'distinct non-trivial = distinct (operation kind, parent class, field, outcome)')
ASSUMPTIONS = ['exceptions considered refusals: ValueError, IndexError, KeyError, TypeError, AssertionError']


def run(ctx):
    session.run_sessions(ctx, ctx.scale(250, 6000), ctx.scale(14, 40), ['refused', 'nodouble', 'inv'], malformed=0.4, need_struct=True, prefix='')
    import refusals
    refusals.run(ctx)


def search(ctx, hints):
    session.run_sessions(ctx, ctx.scale(2500, 10000), 30, ['refused', 'nodouble', 'inv'], malformed=0.4, need_struct=True)


def replay(ctx, data):
    rep = data.get('replay') or data
    if rep.get('probe'):
        import refusals
        return not refusals.replay(rep)
    return not session.replay(data, ['refused', 'nodouble', 'inv'])
