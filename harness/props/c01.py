"""C01 - parse then print reproduces the input character for character.

run(ctx):
  * correspondence (per accepted (text, target)): `Parser._parse` is replayed step by step on the real lark
    objects (lexreplay.replay_parse): raw lexer tokens before PostLex, tokens after PostLex, the lark tree, the
    built store and model tree, print_model of every sub-model.  The Lean driver recomputes postLex / build /
    printModel from the raw tokens and the tree (lean/Driver/LexD.lean, prefix `L`); everything is diffed.
  * lark assumptions, per input: A1 raw token values tile the text; A2 tree leaves are objects of the fed list
    with strictly increasing indices (Python: all leaves; Lean: exact `LeavesIncreasing`); A3 the `[NEVER]`
    slot of transactions is empty.
  * oracle on the real `Parser.parse` for every (text, target, auto_claim_comments) that parses.
"""
from __future__ import annotations
import collections, re

import docgen
import lexreplay as lr
from common import enc_text, dec_text
from autobean_refactor import parser as parser_lib, models

ID = 'C01'
PROPERTY_FILE = 'Autobean/Properties/C01.lean'
LEAN_TARGETS = ['Autobean.Properties.C01', 'Autobean.Obligations.Lex']
RULE = ('inputs: (1) every string constant of the repository\'s *_test.py files that some parse target accepts, '
        '(2) ledgers and fragments from the schema-driven generator harness/docgen.py (all directive kinds, optional '
        'parts, comments in every position, blank/whitespace-only lines, LF/CRLF/CRCRLF, tabs, missing final newline, '
        'non-ASCII, costs/prices/arithmetic), (3) exhaustive line layouts over {directive, txn header, posting, meta, '
        'comment, indented comment, blank, whitespace-only} x {LF, CRLF} x final newline; each x all parse targets that '
        'accept it x auto_claim_comments on/off. One case = one (text, target, mode) that parses, judged by the oracle; '
        'mode-off cases are also replayed through the Lean model. distinct non-trivial = distinct (target, mode, '
        'token kinds present with count bucket 1/2+, #lines bucket)')
ASSUMPTIONS = [
    'A1 (lark, checked per input): the raw lexer tokens tile the input',
    'A2 (lark, checked per input): parse-tree token leaves are objects of the fed token list met in strictly increasing index order',
    'A3 (grammar, checked per input): the [NEVER] slot of a transaction node is empty',
    'the LALR acceptance set is not modelled: "text that parse() accepts" is taken from the real parser',
    'token-class specific from_raw_text parsing (e.g. Date raising ValueError for 5-digit years) is outside the model; such inputs are not accepted by parse() and are skipped',
    'auto_claim_comments is judged by the oracle only (the Lean model covers Parser._parse; claiming moves no text: C04/C14)',
]
TRUSTED_EXTRA = ['lark contextual lexer and LALR parser (assumptions A1/A2 validated on every explored input, not proved)']
LEVEL_NOTE = ('Lean theorems over a hand transcription of PostLex.process / ModelBuilder / print_model; lark itself and '
              'auto_claim_comments are outside the model (checked per input / by the oracle).')

KNOWN_SIG = 'C01:print-root!=input:target!=File:outer-trivia'
_MODELLED_BUILD_ERRORS = {'UnexpectedInput:missing-indent', 'assert', 'KeyError'}


# ------------------------------------------------------------------------------------------------
# oracle on the real code
# ------------------------------------------------------------------------------------------------
def _lines_bucket(text):
    n = text.count('\n') + (1 if text and not text.endswith('\n') else 0)
    for b in (0, 1, 2, 5, 20, 100):
        if n <= b:
            return b
    return 1000


def _kinds_sig(store):
    c = collections.Counter(type(t).RULE for t in store)
    return tuple(sorted((k, min(v, 2)) for k, v in c.items()))


def oracle_one(p, text, target, mode):
    """Judge C01 on parse(text, target, auto_claim_comments=mode).
    -> None if not accepted, else (fails, info): fails = list of (signature, what)."""
    try:
        m = p.parse(text, target, auto_claim_comments=mode)
    except Exception:
        return None
    fails = []
    store = list(m.token_store)
    concat = ''.join(t.raw_text for t in store)
    index = {id(t): i for i, t in enumerate(store)}
    offs = [0]
    for t in store:
        offs.append(offs[-1] + len(t.raw_text))
    if concat != text:
        fails.append(('C01:store-concat!=input', f'store concatenation {concat!r} != input {text!r}'))
    try:
        printed = lr.print_model(m)
    except Exception as e:
        printed = None
        fails.append(('C01:print-root-raises', f'{type(e).__name__}: {e}'))
    if printed is not None and printed != text:
        if target is lr.FILE:
            fails.append(('C01:print-root!=input:File', f'print {printed!r} != input {text!r}'))
        else:
            i, j = index.get(id(m.first_token)), index.get(id(m.last_token))
            ok = concat == text and i is not None and j is not None and i <= j
            if ok:
                outer = store[:i] + store[j + 1:]
                ok = (printed == ''.join(t.raw_text for t in store[i:j + 1])
                      and all((not t.raw_text) or type(t).RULE in parser_lib._IGNORED_TOKENS for t in outer)
                      and text == concat[:offs[i]] + printed + concat[offs[j + 1]:])
            if ok:
                fails.append((KNOWN_SIG, f'parse({text!r}, {target.__name__}) prints {printed!r}: trivia outside the root span is omitted'))
            else:
                fails.append(('C01:print-root!=input:target!=File:other', f'print {printed!r} != input {text!r}'))
    nsub = 0
    for sub in lr.walk(m):
        nsub += 1
        cls = type(sub).__name__
        try:
            ft, lt = sub.first_token, sub.last_token
            pr = lr.print_model(sub)
        except Exception as e:
            fails.append((f'C01:sub-print-raises:{cls}', f'{type(e).__name__}: {e}'))
            continue
        i, j = index.get(id(ft)), index.get(id(lt))
        if i is None or j is None:
            fails.append((f'C01:sub-span-not-in-store:{cls}', 'first/last token of a sub-model is not a token of the store'))
            continue
        seg = ''.join(t.raw_text for t in store[i:j + 1])
        if pr != seg:
            fails.append((f'C01:sub-print!=span:{cls}', f'print {pr!r} != store tokens {i}..{j} {seg!r}'))
        elif concat == text and pr != text[offs[i]:offs[j + 1]]:
            fails.append((f'C01:sub-print!=input-slice:{cls}', f'print {pr!r} != input[{offs[i]}:{offs[j + 1]}]'))
    info = {'kinds': _kinds_sig(store), 'nsub': nsub, 'ntok': len(store)}
    return fails, info


def shrink(p, text, target, mode, sig, budget=250):
    """Line-level delta debugging: a smaller text on which parse() still accepts and `sig` still fails."""
    def still_fails(t):
        res = oracle_one(p, t, target, mode)
        return res is not None and any(s == sig for s, _ in res[0])
    parts = re.split(r'(?<=\n)', text)
    chunk = max(len(parts) // 2, 1)
    while chunk >= 1 and budget > 0:
        i = 0
        while i < len(parts) and budget > 0:
            cand = parts[:i] + parts[i + chunk:]
            budget -= 1
            if cand != parts and still_fails(''.join(cand)):
                parts = cand
            else:
                i += chunk
        chunk //= 2
    return ''.join(parts)


def judge(ctx, p, text, target, src):
    """Oracle for both attribution modes; returns True if the text is accepted in some mode."""
    accepted = False
    for mode in (False, True):
        res = oracle_one(p, text, target, mode)
        if res is None:
            continue
        accepted = True
        fails, info = res
        ctx.case((target.RULE, mode, info['kinds'], _lines_bucket(text)),
                 sample={'text': text[:200], 'target': target.RULE, 'auto_claim_comments': mode, 'src': src,
                         'store_tokens': info['ntok'], 'sub_models': info['nsub'],
                         'verdict': [f[0] for f in fails] or 'ok'})
        ctx.count(f'target:{target.RULE}')
        seen = set()
        for sig, what in fails:
            if sig in seen:
                continue
            seen.add(sig)
            ctx.count(f'oracle-fail:{sig}')
            # check.py keeps at most 200 failures: never let one signature crowd out a different one
            if ctx.dist[f'oracle-fail:{sig}'] <= 3:
                small = text
                if sig != KNOWN_SIG and text.count('\n') > 1:
                    small = shrink(p, text, target, mode, sig)
                    res2 = oracle_one(p, small, target, mode)
                    what = next((w for s2, w in (res2[0] if res2 else []) if s2 == sig), what)
                ctx.oracle_fail(sig, what, {'text': small, 'target': target.RULE, 'auto_claim_comments': mode,
                                            'src': src, 'shrunk_from_chars': len(text)})
    return accepted


# ------------------------------------------------------------------------------------------------
# correspondence with the Lean model
# ------------------------------------------------------------------------------------------------
class Batch:
    """Collects driver lines with a checker per line; one driver call at the end."""

    def __init__(self):
        self.lines = []
        self.checks = []

    def add(self, line, check):
        self.lines.append(line)
        self.checks.append(check)

    def run(self, ctx):
        if not self.lines:
            return
        outs = ctx.driver.run(self.lines)
        for line, out, check in zip(self.lines, outs, self.checks):
            check(out)
        ctx.extra['driver_lines'] = ctx.extra.get('driver_lines', 0) + len(self.lines)


def _short(s, n=400):
    return s if len(s) <= n else s[:n] + f'...(+{len(s) - n})'


def correspond(ctx, batch, p, text, target, src):
    """Replay `_parse` on the real objects; schedule the model comparison. Returns the Replay."""
    r = lr.replay_parse(p, text, target)
    if r.stage == 'lex/parse' and r.error is not None:
        return r            # not accepted by lark: outside the property's quantifier
    rep = {'text': text, 'target': target.RULE, 'src': src}
    ctx.count('model-replays')
    # A1
    if ''.join(str(t.value) for t in r.raw) != text:
        ctx.divergence('lark-assumption', {'A1': 'raw lexer tokens do not tile the input',
                                           'raw': _short(repr([(t.type, str(t.value)) for t in r.raw]))}, rep)
    index_of = {id(t): i for i, t in enumerate(r.fed)}
    leaves = []
    words = lr.ptree_words(r.tree, index_of, leaves)
    # A2 (plain form over all leaves of the tree)
    if any(i < 0 for i in leaves) or any(a >= b for a, b in zip(leaves, leaves[1:])):
        ctx.divergence('lark-assumption', {'A2': 'tree leaves are not fed tokens in strictly increasing order',
                                           'leaves': _short(repr(leaves))}, rep)
    # PostLex
    if r.inline:
        if [id(t) for t in r.raw] != [id(t) for t in r.fed]:
            ctx.divergence('postlex', {'inline': 'PostLexInline is not the identity'}, rep)
    else:
        exp = ('ok ' + lr.enc_ltoks(r.fed)).rstrip()

        def chk_pl(out, exp=exp):
            if out.rstrip() != exp:
                ctx.divergence('postlex', {'model': _short(out), 'real': _short(exp)}, rep)
        batch.add('L postlex ' + lr.enc_ltoks(r.raw), chk_pl)
    # build
    line = 'L build ' + lr.enc_ltoks(r.fed) + ' | ' + ' '.join(words)
    if r.error is not None:
        tag = lr.exc_tag(r.error)

        def chk_err(out, tag=tag):
            if out.startswith('err '):
                mtag = out[4:]
                if mtag.startswith('assert'):
                    mtag = 'assert'
                elif mtag.startswith('KeyError'):
                    mtag = 'KeyError'
                if mtag != tag:
                    ctx.divergence('build', {'model': out, 'real': 'raises ' + tag}, rep)
            elif tag in _MODELLED_BUILD_ERRORS:
                ctx.divergence('build', {'model': _short(out), 'real': 'raises ' + tag}, rep)
            else:
                ctx.count(f'build-raises-outside-model:{tag}:{src}')   # e.g. Date.from_raw_text ValueError
        batch.add(line, chk_err)
        return r
    m = r.model
    store, sdump = lr.store_dump(m.token_store)
    id_of = {id(t): i for i, t in enumerate(store)}
    mwords = ' '.join(lr.mtree_words(m, id_of))
    try:
        prints = ' '.join(enc_text(lr.print_model(s)) for s in lr.walk(m))
    except Exception as e:
        prints = f'!raises:{type(e).__name__}'
    exp = f'ok a2=1 a3=1 | {sdump} | {mwords} | {prints}'

    def chk_build(out, exp=exp):
        if out == exp:
            return
        if out.startswith('ok a2=0'):
            ctx.divergence('lark-assumption', {'A2': 'LeavesIncreasing (exact form) is false'}, rep)
            return
        if out.startswith('ok a2=1 a3=0'):
            ctx.divergence('lark-assumption', {'A3': 'a transaction node has a non-empty [NEVER] slot'}, rep)
            return
        a, b = out.split(' | '), exp.split(' | ')
        names = ['flags', 'store', 'tree', 'prints']
        which = [names[i] if i < 4 else '?' for i in range(max(len(a), len(b)))
                 if i >= len(a) or i >= len(b) or a[i] != b[i]]
        ctx.divergence('build', {'differs_in': which, 'model': _short(out), 'real': _short(exp)}, rep)
    batch.add(line, chk_build)
    return r


def check_consts(ctx, batch):
    """The constants the model hard-codes are the ones of the real code."""
    real_nic = parser_lib.PostLex._NEWLINE_INDENT_COMMENT
    real_ign = set(parser_lib._IGNORED_TOKENS)
    pat = parser_lib.PostLex._NEWLINE_INDENT_COMMENT_SPLIT_RE
    if pat.pattern != r'([\r\n]*)([ \t]*)(;.*)?' or not (pat.flags & re.S):
        ctx.divergence('consts', {'split_re': pat.pattern, 'flags': int(pat.flags)}, {'kind': 'consts'})
    names = (parser_lib.PostLex._NEWLINE, parser_lib.PostLex._EOL, parser_lib.PostLex._INDENT_MARK,
             parser_lib.PostLex._DEDENT_MARK, parser_lib.PostLex._INDENT, parser_lib.PostLex._BLOCK_COMMENT)
    if names != ('_NEWLINE', 'EOL', 'INDENT_MARK', 'DEDENT_MARK', 'INDENT', 'BLOCK_COMMENT'):
        ctx.divergence('consts', {'postlex_names': names}, {'kind': 'consts'})

    def chk(out):
        m = re.fullmatch(r'ok nic=(\S+) ignored=(\S+)', out)
        if not m or m.group(1) != real_nic or set(m.group(2).split(',')) != real_ign:
            ctx.divergence('consts', {'model': out, 'real': [real_nic, sorted(real_ign)]}, {'kind': 'consts'})
    batch.add('L consts', chk)
    # split3 against re on a few strings
    rng = ctx.rng
    for _ in range(ctx.scale(60, 600)):
        s = ''.join(rng.choice('\r\n \t;ax') for _ in range(rng.randint(0, 7)))
        mm = pat.fullmatch(s)
        exp = 'none' if not mm else 'ok ' + ' '.join(enc_text(g or '') for g in mm.groups())

        def chk_s(out, exp=exp, s=s):
            if out != exp:
                ctx.divergence('split3', {'s': s, 'model': out, 're': exp}, {'kind': 'split3', 's': s})
        batch.add('L split3 ' + enc_text(s), chk_s)


# ------------------------------------------------------------------------------------------------
# inputs
# ------------------------------------------------------------------------------------------------
_SMALL_TARGETS = None


def layout_targets():
    global _SMALL_TARGETS
    if _SMALL_TARGETS is None:
        _SMALL_TARGETS = [lr.TARGET_BY_RULE[r] for r in ('file', 'transaction', 'posting', 'meta_item', 'open')]
    return _SMALL_TARGETS


def inputs(ctx, budget_mult=1):
    """Yields (src, text, candidate targets)."""
    rng = ctx.rng
    # (1) corpus
    for s in lr.harvest_strings():
        yield ('corpus', s, lr.TARGETS)
    # (2) generated ledgers
    n_files = ctx.scale(300, 6000) * budget_mult
    for i in range(n_files):
        n = rng.choice([0, 1, 1, 2, 3, 5, 8, 12, 20]) if i % 10 else rng.randint(20, 40)
        text = docgen.gen_file(rng, n)
        yield ('gen_file', text, lr.TARGETS if n <= 1 else [lr.FILE])
    n_risky = ctx.scale(40, 600) * budget_mult
    for i in range(n_risky):
        yield ('gen_file_risky', docgen.gen_file(rng, rng.randint(1, 6), risky=True), [lr.FILE])
    if ctx.thorough:
        for i in range(24 * budget_mult):
            yield ('gen_file_big', docgen.gen_file(rng, rng.randint(320, 420)), [lr.FILE])
    n_frag = ctx.scale(250, 4000) * budget_mult
    for i in range(n_frag):
        text, _rule = docgen.gen_fragment(rng)
        yield ('gen_fragment', text, lr.TARGETS)
        if i % 2 == 0:
            # a comment and a line break right after a punctuation / operator character (inside inline models the parser
            # cannot take the comment there: it stays a gap token and must still be in the store)
            spots = [k for k, ch in enumerate(text) if ch in '{,(+-*/~#@' and k + 1 < len(text)]
            if spots:
                k = rng.choice(spots)
                yield ('gen_fragment_commented', text[:k + 1] + rng.choice([' ; note\n', ';x\n  ', ' ;\n\t']) + text[k + 1:], lr.TARGETS)
        if i % 3 == 0 and '\n' in text or text[:1] in ' \t':
            # near-valid: the indentation of one line is removed / added.  Most of these are rejected; whatever the parser
            # accepts must round-trip like any other accepted text (a builder that starts to accept more is judged on it)
            lines = text.split('\n')
            k = 0 if rng.random() < 0.6 else rng.randrange(len(lines))
            stripped = lines[k].lstrip(' \t')
            lines[k] = stripped if stripped != lines[k] and rng.random() < 0.7 else rng.choice(['  ', '    ', '\t']) + lines[k]
            yield ('gen_fragment_reindented', '\n'.join(lines), lr.TARGETS)
    # (3) exhaustive line layouts
    for name, text in docgen.gen_layouts(ctx.scale(3, 5)):
        nl = len(name.split('/')[0]) if name else 0
        yield ('layout', text, lr.TARGETS if nl <= 2 else layout_targets())


def explore(ctx, with_model, budget_mult=1):
    p = parser_lib.Parser()
    batch = Batch()
    if with_model:
        check_consts(ctx, batch)
    seen = set()
    acc = collections.Counter()
    tot = collections.Counter()
    max_model_lines = ctx.scale(9000, 80000)
    for src, text, targets in inputs(ctx, budget_mult):
        any_acc = False
        if all((text, t.RULE) in seen for t in targets):
            ctx.count(f'duplicate-inputs:{src}')
            continue
        for target in targets:
            key = (text, target.RULE)
            if key in seen:
                continue
            seen.add(key)
            if with_model and len(batch.lines) < max_model_lines:
                r = correspond(ctx, batch, p, text, target, src)
                if r.stage == 'lex/parse':
                    continue          # lark rejected it: parse() cannot accept it either
            if judge(ctx, p, text, target, src):
                any_acc = True
        tot[src] += 1
        if any_acc:
            acc[src] += 1
    for src in tot:
        ctx.count(f'inputs:{src}', tot[src])
        ctx.count(f'accepted:{src}', acc[src])
    rates = {src: round(acc[src] / tot[src], 4) for src in tot}
    ctx.extra['accept_rate'] = rates
    ctx.notes.append(f'accept rate per input source (accepted by at least one candidate target): {rates}')
    if with_model:
        batch.run(ctx)


def run(ctx):
    explore(ctx, with_model=bool(ctx.extra.get('model_available', True)))


def search(ctx, hints):
    """Oracle only, x10 budget."""
    explore(ctx, with_model=False, budget_mult=10)


def replay(ctx, data) -> bool:
    rep = data.get('replay') or data.get('first_diverging_replay')
    if not rep or 'text' not in rep:
        return False
    p = parser_lib.Parser()
    target = lr.TARGET_BY_RULE[rep['target']]
    modes = [rep['auto_claim_comments']] if 'auto_claim_comments' in rep else [False, True]
    ok = True
    for mode in modes:
        res = oracle_one(p, rep['text'], target, mode)
        if res is None:
            print(f'replay: parse({rep["text"]!r}, {target.__name__}, auto_claim_comments={mode}) is not accepted now')
            continue
        for sig, what in res[0]:
            print(f'replay: {sig}: {what[:300]}')
            ok = False
    return ok
