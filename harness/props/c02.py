"""C02 - changing one token changes only that token's characters."""
import tokedit

ID = 'C02'
PROPERTY_FILE = 'Autobean/Properties/C02.lean'
LEAN_TARGETS = ['Autobean.Properties.C02', 'Autobean.Obligations.Effects']
RULE = ('generated ledgers and test-corpus documents parsed with the load-factor constants patched to 2..12 (multi-block '
        'stores); random sequences of single-token assignments (value / raw_text / indent, values from the token type\'s '
        'domain incl. multi-line strings and comments); after each: store identity/order unchanged, other texts unchanged, '
        'print = input with that span replaced; the store internals are diffed against the Lean model (Store.updateText). '
        'distinct non-trivial = distinct (token class, attribute, old/new has line break, multi-block, lf)')
ASSUMPTIONS = ['the document store is rebuilt in the model the way ModelBuilder builds it (from_tokens([]) + insert_after(None, all))']


def run(ctx):
    tokedit.run(ctx, ctx.scale(120, 3000), ctx.scale(12, 20), [2, 3, 4, 5, 10] if not ctx.thorough else list(range(2, 13)), 'C02', judge=('C02',))


def search(ctx, hints):
    tokedit.run(ctx, ctx.scale(1200, 4000), 20, [2, 3, 4, 5, 10], 'C02', with_model=False, judge=('C02',))


def replay(ctx, data):
    rep = data.get('replay') or data.get('first_diverging_replay')
    return not [b for b in tokedit.replay(rep) if b[0].startswith('C02', judge=('C02',))]
