"""C03 - adding, removing or replacing a child leaves everything else untouched."""
import session, slicegrid

ID = 'C03'
PROPERTY_FILE = 'Autobean/Properties/C03.lean'
LEAN_TARGETS = ['Autobean.Properties.C03', 'Autobean.Obligations.Schema']
RULE = ('random slot edits (optional/required raw and value properties, every MutableSequence/MutableMapping method of raw '
        'wrappers, filtered views, string views and meta mappings with indices/slices from -n-2..n+2 and steps '
        '1,2,3,-1,-2) in generated ledgers and test-corpus documents; frame oracle on the real store: tokens outside the '
        'parent keep identity/order/text, surviving tokens keep relative order, siblings and untouched items keep their '
        'text, every run of tokens that appears or disappears contains a token of the child itself. '
        'distinct non-trivial = distinct (operation kind, parent class, field, outcome)')
ASSUMPTIONS = ['"parent" of an edit is the model whose slot/view is addressed']


def _observers():
    obs = []
    try:
        import corr_repeated
        obs.append(corr_repeated.Observer())
    except ImportError:
        pass
    return obs


def run(ctx):
    obs = _observers() if ctx.extra.get('model_available', True) else []
    session.run_sessions(ctx, ctx.scale(250, 6000), ctx.scale(14, 40), ['frame'], observers=obs)
    session.finish_observers(ctx, obs)
    slicegrid.run(ctx, ['frame'])


def search(ctx, hints):
    session.run_sessions(ctx, ctx.scale(2500, 10000), 30, ['frame'])


def replay(ctx, data):
    return not session.replay(data, ['frame'])
