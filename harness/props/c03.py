"""C03 - adding, removing or replacing a child leaves everything else untouched."""
import session, slicegrid

ID = 'C03'
PROPERTY_FILE = 'Autobean/Properties/C03.lean'
LEAN_TARGETS = ['Autobean.Properties.C03', 'Autobean.Obligations.Schema']
RULE = ('random slot edits (optional/required raw and value properties, every MutableSequence/MutableMapping method of raw '
        'wrappers, filtered views, string views and meta mappings with indices/slices from -n-2..n+2 and steps '
        '1,2,3,-1,-2) in generated ledgers and test-corpus documents; frame oracle on the real store: tokens outside the '
        'parent keep identity/order/text, surviving tokens keep relative order, siblings and untouched items keep their '
        'text, every run of tokens that appears or disappears contains a token of the child itself. '
        'Model correspondence (lock-step with resync, harness/corr_repeated.py, driver prefix R): every opt-set / req-set on a '
        'generated model and every rep-* call on a raw wrapper is replayed on Model/Slots.lean / Model/Repeated.lean from the '
        'dumped pre-state; the resulting store (ids, kinds, texts, fresh tokens as N) and item spans are diffed; the same for the '
        'exhaustive (len, start, stop, step, #values) grid. '
        'distinct non-trivial = distinct (operation kind, parent class, field, outcome)')
ASSUMPTIONS = ['"parent" of an edit is the model whose slot/view is addressed',
               'views, meta mappings and value-level properties are observed at the raw-wrapper level only (their reduction to raw '
               'operations is C10/C09 matter); compound ops (pop+insert) are counted as skipped',
               'the abstract store of Model/Seq.lean is licensed by C07 for the real blocked store']


def _observers():
    obs = []
    try:
        import corr_repeated
        obs.append(corr_repeated.Observer())
    except ImportError:
        pass
    return obs


def run(ctx):
    obs = _observers() if ctx.extra.get('model_available', True) else []
    session.run_sessions(ctx, ctx.scale(250, 6000), ctx.scale(14, 40), ['frame', 'reads', 'fresh'], observers=obs)
    if obs:
        import corr_repeated
        corr_repeated.grid(ctx, obs[0])   # exhaustive index/slice grid through the same observer (one driver batch)
    session.run_churn(ctx, ctx.scale(100, 1500), ctx.scale(50, 80), ['frame', 'reads'], observers=obs)   # small blocks: split/merge/redistribution underneath
    session.finish_observers(ctx, obs)
    import viewprobes
    viewprobes.run(ctx)
    slicegrid.run(ctx, ['frame'])
    import slotgrid
    slotgrid.run(ctx, ['frame'])


def search(ctx, hints):
    session.run_sessions(ctx, ctx.scale(2500, 10000), 30, ['frame', 'reads', 'fresh'])


def replay(ctx, data):
    return not session.replay(data, ['frame', 'reads', 'fresh'])
