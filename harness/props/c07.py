"""C07 - the token store behaves exactly like a plain ordered sequence."""
import storehist

ID = 'C07'
PROPERTY_FILE = 'Autobean/Properties/C07.lean'
LEAN_TARGETS = ['Autobean.Properties.C07', 'Autobean.Obligations.Consts']
RULE = ('random operation histories on the real TokenStore (from_tokens, splice, insert_after/before, replace, remove, '
        'raw_text update, refused inserts, iter) with the load-factor constants re-evaluated from the source for '
        'lf in 2..12; every step is replayed on the Lean model (internal dump diff) and compared with a plain list. '
        'distinct non-trivial = distinct (operation, outcome, #blocks before/after, layout changed, small block present, lf)')
ASSUMPTIONS = ['token identity is compared through sequential ids given at creation']


def _lfs(ctx):
    return [2, 3, 4, 5, 10] if not ctx.thorough else [2, 3, 4, 5, 6, 7, 8, 10, 12]


def run(ctx):
    storehist.run_histories(ctx, ctx.scale(160, 3000), ctx.scale(30, 60), _lfs(ctx), judge=('C07',))


def search(ctx, hints):
    storehist.run_histories(ctx, ctx.scale(1500, 6000), 60, [2, 3, 4, 5, 10], with_model=False, judge=('C07',))


def replay(ctx, data):
    rep = data.get('replay') or data.get('first_diverging_replay')
    if not rep:
        return False
    return not storehist.replay_history(rep)
