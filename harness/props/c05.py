"""C05 - after any edit history the tree is still a valid syntax tree of its tokens."""
import session, slicegrid, claimprobes

ID = 'C05'
PROPERTY_FILE = 'Autobean/Properties/C05.lean'
LEAN_TARGETS = ['Autobean.Properties.C05', 'Autobean.Obligations.Schema']
RULE = ('random edit histories (token, optional, required, repeated, filtered-view, mapping, spacing, comment-claim, '
        'deep-copy-and-insert, pop-and-reinsert, arithmetic, cost setters) on generated ledgers and on the parseable '
        'string literals of the repository tests, both attribution modes; after every operation the structural invariant '
        '(store identity of every reachable node, first/last tokens, DFS leaves strictly increasing in the store, every '
        'significant token owned once, popped nodes self-contained) is evaluated on the real objects. '
        'distinct non-trivial = distinct (operation kind, parent class, field, outcome)')
ASSUMPTIONS = ['private field layout is read through harness/intro.py']
OBSERVERS = []


def _observers():
    obs = []
    try:
        import corr_tree
        obs.append(corr_tree.Observer())
    except ImportError:
        pass
    return obs


def run(ctx):
    _run(ctx)


def _constructed_then_edited(ctx):
    """Nodes built by the constructors (from_value) with 1-4 entries in a repeated field - postings, meta, tags/links,
    currencies, custom values, directives - are put into a document and then EDITED there: each entry in turn is deleted,
    popped, replaced, one is inserted in front; after the construction and after every edit the invariant holds and the
    document re-reads with as many entries as the model lists."""
    import datetime, decimal
    import intro, edits
    from autobean_refactor import models
    D = decimal.Decimal
    d0 = datetime.date(2000, 1, 1)

    def txn(n):
        return models.Transaction.from_value(d0, None, 'n', [models.Posting.from_value(f'Assets:P{i}', D(i), 'USD') for i in range(n)],
                                             tags=[f't{i}' for i in range(n)], meta={f'k{i}': D(i) for i in range(n)})
    makers = {
        'postings': (txn, lambda t: t.raw_postings, lambda i: models.Posting.from_value(f'Assets:N{i}', None, None), lambda t: len(t.raw_postings)),
        'meta': (txn, lambda t: t.raw_meta, lambda i: models.MetaItem.from_value(f'n{i}', 'v'), lambda t: len(t.raw_meta)),
        'tags': (txn, lambda t: t.raw_tags_links, lambda i: models.Tag.from_value(f'n{i}'), lambda t: len(t.raw_tags_links)),
        'currencies': (lambda n: models.Open.from_value(d0, 'Assets:A', [f'CU{"RSTUV"[i]}' for i in range(n)]), lambda o: o.raw_currencies,
                       lambda i: models.Currency.from_value('NEW'), lambda o: len(o.raw_currencies)),
        'values': (lambda n: models.Custom.from_value(d0, 't', [f's{i}' for i in range(n)]), lambda c: c.raw_values,
                   lambda i: models.EscapedString.from_value('new'), lambda c: len(c.raw_values)),
    }
    for name, (make, field, fresh, count) in makers.items():
        for n in (1, 2, 3, 4):
            edits_ = [('none', None)] + [(k, i) for i in range(n) for k in ('del', 'pop', 'set')] + [('insert0', 0)]
            for kind, i in edits_:
                for host in ('file-constructor', 'appended'):
                    rep = {'probe': 'constructed-then-edited', 'field': name, 'n': n, 'edit': kind, 'i': i, 'host': host}
                    try:
                        node = make(n)
                        if host == 'file-constructor':
                            f = models.File.from_value([models.Close.from_value(d0, 'Assets:Z'), node])
                        else:
                            f = edits.P().parse('2000-01-01 close Assets:Z\n', models.File)
                            f.raw_directives.append(node)
                        w = field(node)
                        if kind == 'del':
                            del w[i]
                        elif kind == 'pop':
                            w.pop(i)
                        elif kind == 'set':
                            w[i] = fresh(i)
                        elif kind == 'insert0':
                            w.insert(0, fresh(0))
                    except Exception as e:
                        ctx.oracle_fail(f'C05:constructed-then-edited:raises:{type(e).__name__}', f'{name} n={n} {kind} {i} ({host}): {str(e)[:160]}', rep)
                        continue
                    ctx.case(('constructed-then-edited', name, n, kind, host))
                    bad = intro.check_inv(f)
                    if bad:
                        ctx.oracle_fail(f'C05:{bad[0][0]}:constructed-then-edited', f'{name} n={n} {kind} {i} ({host}): {bad[0][1]}', rep)
                        continue
                    text = intro.pr(f)
                    try:
                        again = edits.P().parse(text, models.File)
                        got = count(again.raw_directives[1])
                    except Exception as e:
                        got = f'does not parse: {type(e).__name__}'
                    if got != count(node):
                        ctx.oracle_fail('C05:constructed-then-edited:text-and-tree-disagree', f'{name} n={n} {kind} {i} ({host}): the model lists {count(node)} entries, '
                                        f'the printed text {text!r} re-reads with {got}', rep)


def _run(ctx):
    _constructed_then_edited(ctx)
    obs = _observers() if ctx.extra.get('model_available', True) else []
    session.run_sessions(ctx, ctx.scale(250, 6000), ctx.scale(14, 40), ['inv', 'reads', 'nodouble'], observers=obs, malformed=0.12)
    session.run_churn(ctx, ctx.scale(100, 1500), ctx.scale(50, 80), ['inv', 'reads'], observers=obs)   # small blocks: split/merge/redistribution underneath
    session.finish_observers(ctx, obs)
    slicegrid.run(ctx, ['inv'])
    import slotgrid
    slotgrid.run(ctx, ['inv'])
    claimprobes.run(ctx)
    claimprobes.run_handover(ctx, ['inv'], maxlen=4)


def search(ctx, hints):
    session.run_sessions(ctx, ctx.scale(2500, 10000), 30, ['inv', 'reads', 'nodouble'], malformed=0.12)


def replay(ctx, data):
    rep = data.get('replay') or data
    if isinstance(rep, dict) and rep.get('probe') == 'constructed-then-edited':
        import check
        c = check.Ctx('C05', 'quick', ctx.seed)
        _constructed_then_edited(c)
        return not c.oracle_fails
    return not session.replay(data, ['inv', 'reads', 'nodouble'])
