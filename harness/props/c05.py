"""C05 - after any edit history the tree is still a valid syntax tree of its tokens."""
import session, slicegrid, claimprobes

ID = 'C05'
PROPERTY_FILE = 'Autobean/Properties/C05.lean'
LEAN_TARGETS = ['Autobean.Properties.C05', 'Autobean.Obligations.Schema']
RULE = ('random edit histories (token, optional, required, repeated, filtered-view, mapping, spacing, comment-claim, '
        'deep-copy-and-insert, pop-and-reinsert, arithmetic, cost setters) on generated ledgers and on the parseable '
        'string literals of the repository tests, both attribution modes; after every operation the structural invariant '
        '(store identity of every reachable node, first/last tokens, DFS leaves strictly increasing in the store, every '
        'significant token owned once, popped nodes self-contained) is evaluated on the real objects. '
        'distinct non-trivial = distinct (operation kind, parent class, field, outcome)')
ASSUMPTIONS = ['private field layout is read through harness/intro.py']
OBSERVERS = []


def _observers():
    obs = []
    try:
        import corr_tree
        obs.append(corr_tree.Observer())
    except ImportError:
        pass
    return obs


def run(ctx):
    _run(ctx)


def _run(ctx):
    obs = _observers() if ctx.extra.get('model_available', True) else []
    session.run_sessions(ctx, ctx.scale(250, 6000), ctx.scale(14, 40), ['inv', 'reads', 'nodouble'], observers=obs, malformed=0.12)
    session.run_churn(ctx, ctx.scale(100, 1500), ctx.scale(50, 80), ['inv', 'reads'], observers=obs)   # small blocks: split/merge/redistribution underneath
    session.finish_observers(ctx, obs)
    slicegrid.run(ctx, ['inv'])
    import slotgrid
    slotgrid.run(ctx, ['inv'])
    claimprobes.run(ctx)
    claimprobes.run_handover(ctx, ['inv'], maxlen=4)


def search(ctx, hints):
    session.run_sessions(ctx, ctx.scale(2500, 10000), 30, ['inv', 'reads', 'nodouble'], malformed=0.12)


def replay(ctx, data):
    return not session.replay(data, ['inv', 'reads', 'nodouble'])
