"""C12 - token value, raw text and lexer agree for every value in the domain.

Correspondence (Lean model `Autobean/Model/Codec.lean` through the driver, prefix `K`):
  * `_format_value`, `_parse_value` of every value-carrying token class,
  * `re.match` of the terminal regex lark compiled for the class (`lexes`), `Parser.parse_token`,
  * the decidable domain predicates the theorems are stated on (`dom`).
Oracle (real code only): the three round trips of the property + setter sequences + the token embedded in a
small document.
"""
from __future__ import annotations
import datetime, decimal, itertools, re, time

ID = 'C12'
PROPERTY_FILE = 'Autobean/Properties/C12.lean'
LEAN_TARGETS = ['Autobean.Properties.C12', 'Autobean.Obligations.Codec', 'Autobean.Obligations.Effects']
RULE = ('per token class: values (random + adversarial + exhaustive short strings over an adversarial alphabet), lexemes '
        'generated from the terminal, arbitrary texts (lexeme+suffix, mutated lexemes, class-alphabet noise) and setter '
        'sequences. distinct non-trivial = distinct (class, route, domain-feature bucket, outcome)')
ASSUMPTIONS = [
    'domain of a class = the meanings of its terminal\'s lexemes: EscapedString all strings; BlockComment values whose every '
    '\\r is inside a \\r*\\n run, indent in [ \\t]*; InlineComment strings without \\r,\\n not starting with a space; '
    'Tag/Link [A-Za-z0-9-_/.]+; MetaKey [a-z][a-zA-Z0-9-_]+; TransactionFlag one of *!&#?%PSTCURM; Date every datetime.date; '
    'Number finite Decimals with sign bit 0 (equality = Decimal.__eq__); Account/Currency their lexemes; Bool both',
    'strings are sequences of Unicode scalar values (lone surrogates are not generated)',
    'model _parse_value of Date/Number is exact on texts over the terminal alphabet ([0-9/-], [0-9.,]); int()/Decimal() '
    'also accept signs, blanks, underscores, exponents, non-ASCII digits - no lexeme contains them; such texts are only '
    'checked by the oracle',
    'terminal regexes are hand-modelled; the compiled regex strings are pinned (TERMINALS) and compared on every run',
]
TRUSTED_EXTRA = ['Python re / lark BasicLexer as the meaning of the terminals (hand models validated against re.match on every explored text)']
LEVEL_TEXT = 'proof on the model (Codec.lean) + correspondence of format/parse/lexes/dom with the real classes and lark terminals'
LEVEL_NOTE = ('Proved on the model for every value of the stated domains (unbounded, by induction on the string): parse(format v) = v, '
              'the terminal lexes format v back, every lexeme is accepted, setter machine. Modelled rather than verified: the Lean '
              'transcriptions of _format_value/_parse_value and the hand models of the lark terminals (validated against the real '
              'classes, re.match and Parser.parse_token on every explored input). Account/Currency lexing with a non-empty rest is '
              'not proved (partial). Outside the model: lark contextual lexer in documents (oracle only), int()/Decimal() on texts '
              'outside the terminal alphabet.')
TECHNIQUE = 'Lean 4 theorems by structural induction on strings; differential testing of the model; executable oracle'

# the regexes the hand models in Codec.lean were written for (lark 1.3 `pattern.to_regexp()`)
TERMINALS = {
    'ESCAPED_STRING': '(?s:".*?(?<!\\\\)(\\\\\\\\)*?")',
    'INLINE_COMMENT': '(?s:;[^\r\n]*)',
    'BLOCK_COMMENT': '(?:(?m:^)[ \t]+(?s:;[^\r\n]*)(?:\r*\n[ \t]+(?s:;[^\r\n]*))*|(?m:^)(?s:;[^\r\n]*)(?:\r*\n(?s:;[^\r\n]*))*)',
    'TAG': '#[A-Za-z0-9-_\\/.]+',
    'LINK': '\\^[A-Za-z0-9-_\\/.]+',
    'META_KEY': '[a-z][a-zA-Z0-9-_]+:',
    'BOOL': '(?:FALSE|TRUE)',
    'DATE': '[0-9]{4,}[-\\/][0-9]{1,2}[-\\/][0-9]{1,2}',
    'NUMBER': '(?:([0-9]{1,3})(,[0-9]{3})+|[0-9]+)(?:\\.[0-9]*)?',
    'TRANSACTION_FLAG': '(?:txn|[*!&#?%PSTCURM])',
    'ACCOUNT': '(?:[^\x00-\x7f]|[A-Z])(?:(?:[A-Za-z0-9\\-]|[^\x00-\x7f]))*(?::(?:[A-Z0-9]|[^\x00-\x7f])(?:(?:[A-Za-z0-9\\-]|[^\x00-\x7f]))*)+',
    'CURRENCY': "(?:/[A-Z0-9'._-]*[A-Z](?:[A-Z0-9'._-]*[A-Z0-9])?|[A-Z][A-Z0-9'._-]*[A-Z0-9])",
}

ES_CONSTS = {'escape_map': {'\n': 'n', '\t': 't', '\r': 'r', '\f': 'f', '\b': 'b', '"': '"', '\\': '\\'},
             'escape_pattern': '[\\\\"]', 'unescape_pattern': '\\\\(.)', 'unescape_flags': 32}

ASTRAL = '\U0001F600'
ADV9 = ['"', '\\', 'a', ' ', ';', '\n', '\r', '\x0c', ' ']          # exhaustive alphabet (thorough: length <= 4)
STR_ALPHA = ['"', '\\', 'a', 'n', ' ', '\t', ';', '\n', '\r', '\x0c', '\x85', ' ', 'é', ASTRAL, '\x08', '#']
TAGCH = 'abzAZ019-_/.'
KEYCH = 'abzAZ019-_'
FLAGS = '*!&#?%PSTCURM'


def enc(s):
    return 'e' if not s else '.'.join(str(ord(c)) for c in s)


def dec(s):
    return '' if s == 'e' else ''.join(chr(int(x)) for x in s.split('.'))


def rstr(rng, alpha, lo, hi):
    return ''.join(rng.choice(alpha) for _ in range(rng.randint(lo, hi)))


def features(s):
    """domain-feature bucket of a text"""
    f = []
    if s == '':
        f.append('empty')
    if '"' in s:
        f.append('quote')
    if '\\' in s:
        f.append('bslash')
    if '\r\n' in s:
        f.append('crlf')
    if '\n' in s:
        f.append('nl')
    if re.search(r'\r(?!\r*\n)', s):
        f.append('lone-cr')
    if any(c in s for c in '\x0c\x85  \x1c\x1d\x1e\x0b'):
        f.append('usep')
    if any(ord(c) > 127 for c in s):
        f.append('nonascii')
    if s[:1] in (' ', '\t'):
        f.append('lead-ws')
    if s[-1:] in (' ', '\t'):
        f.append('trail-ws')
    if ';' in s:
        f.append('semi')
    return '+'.join(f) or 'plain'


# ------------------------------------------------------------------------------------------------ class specs

class Spec:
    key = ''
    cls_name = ''
    alpha = 'a'
    quota = (1500, 40000)          # values (quick, thorough)

    def __init__(self, models):
        self.T = getattr(models, self.cls_name)
        self.rule = self.T.RULE
        self.rx = re.compile(TERMINALS[self.rule])

    # value <-> driver / canonical text
    def venc(self, v):
        return enc(v)

    def canon(self, v):
        return enc(v)

    def jval(self, v):
        return v

    def unj(self, j):
        return j

    def veq(self, a, b):
        return type(a) is type(b) and a == b

    def in_dom(self, v):
        raise NotImplementedError

    def bucket(self, v):
        return features(v)

    def fmt(self, v):
        return self.T._format_value(v)

    def from_value(self, v):
        return self.T.from_value(v)

    def state(self, tok):
        return (tok.raw_text, self.canon(tok.value))

    def parse_canon(self, text):
        return 'ok ' + self.canon(self.T._parse_value(text))

    def parse_exact(self, text):
        return True

    def gen_values(self, rng, n):
        raise NotImplementedError

    def gen_lexemes(self, rng, n):
        raise NotImplementedError

    def context(self, raw):
        raise NotImplementedError

    def gen_texts(self, rng, n):
        """texts for the parse / lexes correspondence"""
        out = []
        lex = self.gen_lexemes(rng, max(4, n // 3))
        out += lex
        for l in lex:
            out.append(l + rstr(rng, self.alpha, 0, 4))
            k = rng.randrange(3)
            i = rng.randrange(len(l) + 1)
            if k == 0 and l:
                out.append(l[:i] + l[i + 1:])
            elif k == 1:
                out.append(l[:i] + rng.choice(self.alpha) + l[i:])
            else:
                out.append(l[:i] + rng.choice(self.alpha) + l[i + 1:])
        while len(out) < n:
            out.append(rstr(rng, self.alpha, 0, 8))
        return out


class StrSpec(Spec):
    key, cls_name, alpha, quota = 'str', 'EscapedString', STR_ALPHA, (5000, 200000)

    def in_dom(self, v):
        return True

    def gen_values(self, rng, n):
        out = ['', '"', '\\', '\\\\', '\\"', '"\\', 'a\\', '\\n', '\\\n', '\n', '\r\n', 'a"b', '\\\\"', '\\\\\\"', '\x0c', '\x85',
               ' ', ASTRAL, 'é\\é', '\\t\\r\\f\\b', 'n', 't', '\x08', '\\x', '\\\\n']
        # long texts: many escapes, many lines (nothing in the codec may depend on how many there are)
        out += ['"' * 17, '\\' * 20, '"\\' * 12, '{"a": "b", "c": "d", "e": "f", "g": ["h", "i"], "j": "k\\n"}', 'x\n' * 40,
                'line\r\n' * 20 + '"', 'é' * 300 + '"' * 33 + '\\' * 33]
        while len(out) < n:
            k = rng.randrange(6)
            if rng.random() < 0.03:
                out.append(rstr(rng, ['"', '\\', 'a', '\n'], 17, 80))
                continue
            if k == 0:
                out.append(rstr(rng, ['"', '\\'], 0, 7))
            elif k == 1:
                out.append(rstr(rng, ['"', '\\', 'n', '\n', 'a'], 0, 8))
            else:
                out.append(rstr(rng, STR_ALPHA, 0, 12))
        return out

    def gen_lexemes(self, rng, n):
        out = []
        for _ in range(n):
            units = []
            for _ in range(rng.randint(0, 7)):
                if rng.random() < 0.4:
                    units.append('\\' + rng.choice(STR_ALPHA))
                else:
                    units.append(rng.choice([c for c in STR_ALPHA if c not in '"\\']))
            out.append('"' + ''.join(units) + '"')
        return out

    def context(self, raw):
        return f'2000-01-01 * {raw}\n  Assets:A  1 USD\n'


class ICSpec(Spec):
    key, cls_name, alpha, quota = 'ic', 'InlineComment', STR_ALPHA, (5000, 200000)

    def in_dom(self, v):
        return '\r' not in v and '\n' not in v and not v.startswith(' ')

    def gen_values(self, rng, n):
        out = ['', 'a', ' a', 'a ', '  a  ', '\ta', ';', '; a', ' ', '  ', 'a\nb', 'a\rb', '\x0c', '\x85', ' ', ASTRAL, '"', '\\', 'a;b ']
        al = [c for c in STR_ALPHA if c not in '\r\n']
        while len(out) < n:
            if rng.random() < 0.15:
                out.append(rstr(rng, STR_ALPHA, 0, 8))
            else:
                s = rstr(rng, al, 0, 10)
                if rng.random() < 0.7:
                    s = s.lstrip(' ')
                out.append(s)
        return out

    def gen_lexemes(self, rng, n):
        al = [c for c in STR_ALPHA if c not in '\r\n']
        return [';' + rstr(rng, al, 0, 9) for _ in range(n)]

    def context(self, raw):
        return f'2000-01-01 open Assets:A {raw}\n2000-01-02 open Assets:B\n'


class BCSpec(Spec):
    key, cls_name, alpha, quota = 'bc', 'BlockComment', STR_ALPHA, (5000, 200000)
    INDENTS = ['', '', ' ', '  ', '\t', ' \t', '    ']

    def venc(self, v):
        return enc(v[0]) + ' ' + enc(v[1])

    canon = venc

    def jval(self, v):
        return list(v)

    def unj(self, j):
        return tuple(j)

    def veq(self, a, b):
        return tuple(a) == tuple(b)

    def in_dom(self, v):
        indent, value = v
        return re.fullmatch(r'[ \t]*', indent) is not None and re.fullmatch(r'(?:[^\r\n]*\r*\n)*[^\r\n]*', value) is not None

    def bucket(self, v):
        return ('ind' if v[0] else 'top') + ':' + features(v[1])

    def fmt(self, v):
        return self.T._format_value(v[0], v[1])

    def from_value(self, v):
        return self.T.from_value(v[1], indent=v[0])

    def state(self, tok):
        return (tok.raw_text, self.canon((tok.indent, tok.value)))

    def gen_value_text(self, rng):
        k = rng.randrange(10)
        if k == 0:
            return rstr(rng, STR_ALPHA, 0, 10)                      # may contain a lone CR (outside the domain)
        al = [c for c in STR_ALPHA if c not in '\r\n']
        lines = []
        for _ in range(rng.randint(1, 4)):
            r = rng.random()
            lines.append('' if r < 0.2 else rstr(rng, [' ', '\t'], 1, 3) if r < 0.3 else rstr(rng, al, 0, 6))
        s = lines[0]
        for l in lines[1:]:
            s += '\r' * rng.choice([0, 0, 0, 1, 1, 2]) + '\n' + l
        return s

    def gen_values(self, rng, n):
        base = ['', 'a', ' a', '  a', 'a ', '\n', 'a\n', '\na', 'a\nb', 'a\r\nb', 'a\r\r\nb', '\r\n', ' \n a', 'a\n b', ' a\nb', 'a\n\nb', ' ',
                '\t', ';', 'a;b', '\x0ca', 'a\x0cb', 'a\x85b', 'a b', 'a\x1cb', 'a\x0bb', ASTRAL, 'a\rb', '\r', 'a\r', ' \r\n', '\t\n']
        out = [(i, v) for v in base for i in ('', '  ')]
        while len(out) < n:
            ind = rng.choice(self.INDENTS)
            if rng.random() < 0.03:
                ind = rstr(rng, [' ', '\t', 'a', ';', '\n'], 0, 3)   # outside the indent domain
            out.append((ind, self.gen_value_text(rng)))
        return out

    def gen_lexemes(self, rng, n):
        al = [c for c in STR_ALPHA if c not in '\r\n']
        out = []
        for _ in range(n):
            indented = rng.random() < 0.5
            lines = []
            for _ in range(rng.randint(1, 4)):
                ws = rstr(rng, [' ', '\t'], 1, 3) if indented else ''
                lines.append(ws + ';' + rstr(rng, al, 0, 6))
            s = lines[0]
            for l in lines[1:]:
                s += '\r' * rng.choice([0, 0, 1, 2]) + '\n' + l
            out.append(s)
        return out

    def context(self, raw):
        return f'2000-01-01 open Assets:A\n{raw}\n2000-01-02 open Assets:B\n'


class SigilSpec(Spec):
    sigil = '#'

    def in_dom(self, v):
        return re.fullmatch(r'[A-Za-z0-9\-_/.]+', v) is not None

    def gen_values(self, rng, n):
        out = ['a', '-', '_', '/', '.', 'a-b_c/d.e', 'A9', '0']
        while len(out) < n:
            out.append(rstr(rng, TAGCH, 1, 8) if rng.random() < 0.9 else rstr(rng, self.alpha, 0, 5))
        return out

    def gen_lexemes(self, rng, n):
        return [self.sigil + rstr(rng, TAGCH, 1, 8) for _ in range(n)]

    def gen_texts(self, rng, n):
        return super().gen_texts(rng, n) + [self.sigil + chr(c) for c in range(0, 0x180)]

    def context(self, raw):
        return f'2000-01-01 * "x" {raw}\n'


class TagSpec(SigilSpec):
    key, cls_name, alpha, sigil = 'tag', 'Tag', list(TAGCH + '#^: é,'), '#'


class LinkSpec(SigilSpec):
    key, cls_name, alpha, sigil = 'link', 'Link', list(TAGCH + '#^: é,'), '^'


class KeySpec(Spec):
    key, cls_name, alpha = 'key', 'MetaKey', list(KEYCH + ':. é/')

    def in_dom(self, v):
        return re.fullmatch(r'[a-z][a-zA-Z0-9\-_]+', v) is not None

    def gen_values(self, rng, n):
        out = ['aa', 'a-', 'a_', 'zZ9', 'a0']
        while len(out) < n:
            out.append(rng.choice('abz') + rstr(rng, KEYCH, 1, 8) if rng.random() < 0.9 else rstr(rng, self.alpha, 0, 5))
        return out

    def gen_lexemes(self, rng, n):
        return [rng.choice('abz') + rstr(rng, KEYCH, 1, 8) + ':' for _ in range(n)]

    def gen_texts(self, rng, n):
        return super().gen_texts(rng, n) + [chr(c) + 'a:' for c in range(0, 0x180)] + ['a' + chr(c) + ':' for c in range(0, 0x180)]

    def context(self, raw):
        return f'2000-01-01 *\n  {raw} 1\n'


class BoolSpec(Spec):
    key, cls_name, alpha = 'bool', 'Bool', list('TRUEFALS a')

    def venc(self, v):
        return 'T' if v else 'F'

    canon = venc

    def in_dom(self, v):
        return True

    def bucket(self, v):
        return str(v)

    def gen_values(self, rng, n):
        return [True, False]

    def gen_lexemes(self, rng, n):
        return ['TRUE', 'FALSE']

    def gen_texts(self, rng, n):
        return super().gen_texts(rng, min(n, 400))

    def context(self, raw):
        return f'2000-01-01 *\n  aa: {raw}\n'


class FlagSpec(Spec):
    key, cls_name, alpha = 'flag', 'TransactionFlag', list(FLAGS + 'txn a')

    def in_dom(self, v):
        return len(v) == 1 and v in FLAGS

    def gen_values(self, rng, n):
        return list(FLAGS) + ['txn', '', '**', 'a', 't']

    def gen_lexemes(self, rng, n):
        return list(FLAGS) + ['txn']

    def gen_texts(self, rng, n):
        return super().gen_texts(rng, min(n, 600)) + [chr(c) for c in range(0, 0x180)]

    def context(self, raw):
        return f'2000-01-01 {raw} "x"\n'


class DateSpec(Spec):
    key, cls_name, alpha, quota = 'date', 'Date', list('0129-/ a'), (4000, 200000)

    def venc(self, v):
        return f'{v.year} {v.month} {v.day}'

    canon = venc

    def jval(self, v):
        return [v.year, v.month, v.day]

    def unj(self, j):
        return datetime.date(*j)

    def in_dom(self, v):
        return True

    def bucket(self, v):
        return ('y<10' if v.year < 10 else 'y<100' if v.year < 100 else 'y<1000' if v.year < 1000 else 'y4') + \
            ('/m1' if v.month < 10 else '/m2') + ('/d1' if v.day < 10 else '/d2') + ('/feb29' if (v.month, v.day) == (2, 29) else '')

    def gen_values(self, rng, n):
        out = [datetime.date(1, 1, 1), datetime.date(9999, 12, 31), datetime.date(999, 9, 9), datetime.date(1000, 10, 10),
               datetime.date(2000, 2, 29), datetime.date(1900, 2, 28), datetime.date(4, 2, 29), datetime.date(99, 12, 31), datetime.date(9, 1, 31)]
        lo, hi = datetime.date.min.toordinal(), datetime.date.max.toordinal()
        while len(out) < n:
            k = rng.randrange(4)
            if k == 0:
                out.append(datetime.date.fromordinal(rng.randint(lo, lo + 366 * 1000)))
            else:
                out.append(datetime.date.fromordinal(rng.randint(lo, hi)))
        return out

    def gen_lexemes(self, rng, n):
        out = []
        for _ in range(n):
            y = rstr(rng, '0123456789', 4, 6) if rng.random() < 0.4 else f'{rng.randint(0, 9999):04d}'
            if rng.random() < 0.2:
                y = '0' * rng.randint(1, 3) + f'{rng.randint(1, 9999):04d}'      # longer than four digits and still a year datetime accepts
            if rng.random() < 0.7:
                m, d = str(rng.randint(1, 12)), str(rng.randint(1, 31))
                if rng.random() < 0.5:
                    m, d = m.zfill(2), d.zfill(2)
            else:
                m, d = rstr(rng, '0123456789', 1, 2), rstr(rng, '0123456789', 1, 2)
            out.append(y + rng.choice('-/') + m + rng.choice('-/') + d)
        return out

    def parse_exact(self, text):
        return re.fullmatch(r'[0-9/\-]*', text) is not None

    def context(self, raw):
        return f'{raw} open Assets:A\n'


class NumSpec(Spec):
    key, cls_name, alpha, quota = 'num', 'Number', list('0159,. a'), (4000, 200000)

    def venc(self, v):
        t = v.as_tuple()
        return f'{int("".join(map(str, t.digits)))} {t.exponent}'

    canon = venc

    def jval(self, v):
        return str(v)

    def unj(self, j):
        return decimal.Decimal(j)

    def veq(self, a, b):
        return a == b                   # Decimal.__eq__ (numeric), as the property's `==`

    def in_dom(self, v):
        return v.is_finite() and not v.is_signed()

    def bucket(self, v):
        t = v.as_tuple()
        n = len(t.digits)
        e = t.exponent
        return ('zero' if not v else 'nz') + ('/e>0' if e > 0 else '/e=0' if e == 0 else '/-e<n' if -e < n else '/-e=n' if -e == n else '/-e>n') + \
            ('/int>3' if n + e > 3 else '')

    def gen_values(self, rng, n):
        D = decimal.Decimal
        out = [D('0'), D('0.00'), D('0E+2'), D('1E+3'), D('1E-7'), D('1.50'), D('100'), D('1234567.89'), D('0.001'), D('12E+1'), D('999'), D('1000'),
               D((0, (1, 2, 3), -3)), D((0, (1, 2, 3), -4)), D((0, (0,), -1)), D((0, (1,), 40)), D((0, (9,) * 30, -15))]
        while len(out) < n:
            nd = rng.choice([1, 1, 2, 3, 4, 5, 8, 20])
            c = rng.randrange(10 ** nd) if rng.random() < 0.9 else 0
            e = rng.choice([0, 0, -1, -2, -2, -3, -nd, -nd - 1, -nd + 1, 1, 2, 5, rng.randint(-25, 25)])
            out.append(D((0, tuple(map(int, str(c))), e)))
        return out

    def gen_lexemes(self, rng, n):
        out = []
        for _ in range(n):
            if rng.random() < 0.4:
                s = rstr(rng, '0123456789', 1, 3) + ''.join(',' + rstr(rng, '0123456789', 3, 3) for _ in range(rng.randint(1, 3)))
            else:
                s = rstr(rng, '0123456789', 1, 7)
            if rng.random() < 0.5:
                s += '.' + rstr(rng, '0123456789', 0, 4)
            out.append(s)
        return out

    def parse_exact(self, text):
        return re.fullmatch(r'[0-9.,]*', text) is not None

    def context(self, raw):
        return f'2000-01-01 *\n  Assets:A  {raw} USD\n'


class IdSpec(Spec):
    """Account / Currency: value == raw text; domain = the terminal's lexemes"""

    def in_dom(self, v):
        return self.rx.fullmatch(v) is not None

    def gen_values(self, rng, n):
        out = self.gen_lexemes(rng, n * 3 // 4)
        while len(out) < n:
            out.append(rstr(rng, self.alpha, 0, 6))
        return out


class AccSpec(IdSpec):
    key, cls_name, alpha = 'acc', 'Account', list('ABZabz019-:é ' + ASTRAL)

    def gen_lexemes(self, rng, n):
        body = list('ABZabz019-é' + ASTRAL)
        out = ['Assets:A', 'A:0', 'é:é', 'Assets:Foo-Bar:9a']
        while len(out) < n:
            s = rng.choice('ABZé') + rstr(rng, body, 0, 4)
            for _ in range(rng.randint(1, 3)):
                s += ':' + rng.choice('ABZ019é') + rstr(rng, body, 0, 4)
            out.append(s)
        return out

    def gen_texts(self, rng, n):
        return super().gen_texts(rng, n) + [chr(c) + 'a:B' for c in range(0, 0x180)] + ['A:' + chr(c) for c in range(0, 0x180)] + \
            ['A' + chr(c) + ':B' for c in range(0, 0x180)]

    def context(self, raw):
        return f'2000-01-01 open {raw}\n'


class CurSpec(IdSpec):
    key, cls_name, alpha = 'cur', 'Currency', list("ABZ019'._-/a ")

    def gen_lexemes(self, rng, n):
        body = list("ABZ019'._-")
        out = ['USD', 'AB', '/A', '/A1', "A'B", 'A.B-C_D9', '/1A.9', '/-A', 'A1']
        while len(out) < n:
            if rng.random() < 0.6:
                s = rng.choice('ABZ') + rstr(rng, body, 0, 5) + rng.choice('ABZ019')
            else:
                s = '/' + rstr(rng, body, 0, 3) + rng.choice('ABZ')
                if rng.random() < 0.5:
                    s += rstr(rng, body, 0, 3) + rng.choice('ABZ019')
            out.append(s)
        return out

    def gen_texts(self, rng, n):
        return super().gen_texts(rng, n) + ['A' + chr(c) + 'B' for c in range(0, 0x180)] + [chr(c) + 'A' for c in range(0, 0x180)] + \
            ['/' + chr(c) for c in range(0, 0x180)]

    def context(self, raw):
        return f'2000-01-01 commodity {raw}\n'


SPEC_CLASSES = [StrSpec, ICSpec, BCSpec, TagSpec, LinkSpec, KeySpec, BoolSpec, FlagSpec, DateSpec, NumSpec, AccSpec, CurSpec]
SETTER_CLASSES = ['str', 'ic', 'bc', 'tag', 'link', 'key', 'bool', 'flag', 'date', 'num']


class Real:
    def __init__(self):
        from autobean_refactor import parser, models
        self.models = models
        self.parser = parser.Parser()
        self.specs = {c.key: c(models) for c in SPEC_CLASSES}

    def terminal_regex(self, rule):
        return self.parser._lark.parser.lexer_conf.terminals_by_name[rule].pattern.to_regexp()


_REAL = None


def real():
    global _REAL
    if _REAL is None:
        _REAL = Real()
    return _REAL


def exc_tag(e):
    return type(e).__name__


# ------------------------------------------------------------------------------------------------ oracles
# Each oracle returns a list of (route, outcome) failures; empty = the property holds on this input.

def oracle_value(R, sp, v, *, in_context=True, lex=True):
    """from_value(v).value == v; the raw text lexes back as exactly one token of the type with the value."""
    fails = []
    try:
        tok = sp.from_value(v)
    except Exception as e:
        return [('from_value', 'raised:' + exc_tag(e))]
    got = (tok.indent, tok.value) if sp.key == 'bc' else tok.value
    if not sp.veq(got, v):
        fails.append(('from_value', 'value-differs'))
    raw = tok.raw_text
    if lex:
        try:
            t2 = R.parser.parse_token(raw, sp.T)
            got2 = (t2.indent, t2.value) if sp.key == 'bc' else t2.value
            if t2.raw_text != raw:
                fails.append(('lex-back', 'raw-text-differs'))
            elif not sp.veq(got2, v):
                fails.append(('lex-back', 'value-differs'))
        except Exception as e:
            fails.append(('lex-back', 'not-one-token:' + exc_tag(e)))
    if in_context:
        fails += oracle_context(R, sp, raw, v)
    return fails


def oracle_context(R, sp, raw, v):
    doc = sp.context(raw)
    try:
        f = R.parser.parse(doc, R.models.File)
    except Exception as e:
        return [('context', 'file-rejected:' + exc_tag(e))]
    toks = [t for t in f.token_store if type(t) is sp.T]
    if not toks:
        return [('context', 'token-missing')]
    t = toks[0]
    if t.raw_text != raw:
        return [('context', 'raw-text-differs')]
    got = (t.indent, t.value) if sp.key == 'bc' else t.value
    if not sp.veq(got, v):
        return [('context', 'value-differs')]
    return []


def oracle_lexeme(R, sp, lexeme):
    """a lexeme of the terminal whose meaning is a valid value is accepted verbatim, and value/text describe each other"""
    assert sp.rx.fullmatch(lexeme)
    try:
        tok = sp.T.from_raw_text(lexeme)
    except Exception as e:
        if sp.key == 'date' and isinstance(e, ValueError) and not _valid_date_lexeme(lexeme):
            return [], 'invalid-meaning'
        return [('from_raw_text', 'raised:' + exc_tag(e))], 'raised'
    fails = []
    if tok.raw_text != lexeme:
        fails.append(('from_raw_text', 'text-not-verbatim'))
    try:
        t2 = R.parser.parse_token(lexeme, sp.T)
        if sp.state(t2) != sp.state(tok):
            fails.append(('lexeme-parse_token', 'differs'))
    except Exception as e:
        fails.append(('lexeme-parse_token', 'raised:' + exc_tag(e)))
    # the value it means is in the domain, so the value routes apply to it as well (value and text describe each other)
    v = (tok.indent, tok.value) if sp.key == 'bc' else tok.value
    if not sp.in_dom(v):
        fails.append(('from_raw_text', 'value-outside-domain'))
    if sp.key == 'ic' and v != lexeme[1:].lstrip(' '):
        # the meaning of an inline comment lexeme: what follows its ONE marker, without the blanks in front
        fails.append(('from_raw_text', 'value-is-not-the-text-after-the-marker'))
    return fails, 'ok'


def _valid_date_lexeme(lexeme):
    y, m, d = map(int, re.split('[-/]', lexeme))
    try:
        datetime.date(y, m, d)
        return True
    except ValueError:
        return False


def apply_op(sp, tok, op):
    kind, arg = op
    if kind == 'value':
        tok.value = arg[1] if sp.key == 'bc' else arg
    elif kind == 'raw_text':
        tok.raw_text = arg
    elif kind == 'indent':
        tok.indent = arg


def oracle_setters(R, sp, start, ops):
    """start = ('value', v) | ('raw_text', t).  After a rejected assignment nothing changed; after an accepted one
    T.from_raw_text(tok.raw_text) has tok's value (and indent), and a value assignment reads back."""
    try:
        tok = sp.from_value(start[1]) if start[0] == 'value' else sp.T.from_raw_text(start[1])
    except Exception:
        return [], ['start-rejected']
    fails, trace = [], []
    clean = start[0] == 'value' or sp.rx.fullmatch(start[1]) is not None   # every raw text given so far was a lexeme
    for i, op in enumerate(ops):
        if op[0] == 'raw_text' and sp.rx.fullmatch(op[1]) is None:
            clean = False
        before = sp.state(tok)
        try:
            apply_op(sp, tok, op)
            ok = True
        except Exception as e:
            ok = False
            trace.append(op[0] + ':rejected:' + exc_tag(e))
        after = sp.state(tok)
        if not ok:
            if after != before:
                fails.append(('setter-' + op[0], f'rejected-but-changed@{i}'))
            continue
        trace.append(op[0] + ':ok')
        if op[0] == 'value':
            got = tok.value
            want = op[1][1] if sp.key == 'bc' else op[1]
            if not sp.veq(got, want) if sp.key != 'bc' else got != want:
                fails.append(('setter-value', f'read-back-differs@{i}'))
        if op[0] == 'indent' and tok.indent != op[1]:
            fails.append(('setter-indent', f'read-back-differs@{i}'))
        if op[0] == 'raw_text' and tok.raw_text != op[1]:
            fails.append(('setter-raw_text', f'text-not-verbatim@{i}'))
        try:
            t2 = sp.T.from_raw_text(tok.raw_text)
            a = (t2.indent, t2.value) if sp.key == 'bc' else t2.value
            b = (tok.indent, tok.value) if sp.key == 'bc' else tok.value
            if not sp.veq(a, b):
                fails.append(('setter-' + op[0], f'text-and-value-disagree@{i}'))
        except Exception as e:
            fails.append(('setter-' + op[0], f'own-text-unparseable@{i}:' + exc_tag(e)))
        # ... and the real lexer reads that text as exactly one token of the class, with the same meaning
        if op[0] == 'raw_text' or not clean:
            continue    # a raw text is taken verbatim; from lexemes on, what value / indent assignments WRITE must be a lexeme
        try:
            t3 = R.parser.parse_token(tok.raw_text, sp.T)
            a = (t3.indent, t3.value) if sp.key == 'bc' else t3.value
            b = (tok.indent, tok.value) if sp.key == 'bc' else tok.value
            if not sp.veq(a, b):
                fails.append(('setter-' + op[0], f'lexer-and-value-disagree@{i}'))
        except Exception as e:
            fails.append(('setter-' + op[0], f'own-text-is-not-a-lexeme@{i}:' + type(e).__name__))
    return fails, trace


def gen_ops(rng, sp, values, texts, k):
    ops = []
    for _ in range(k):
        r = rng.random()
        if sp.key == 'bc' and r < 0.25:
            ops.append(('indent', rng.choice(BCSpec.INDENTS)))
        elif r < 0.6:
            ops.append(('value', rng.choice(values)))
        else:
            ops.append(('raw_text', rng.choice(texts)))
    return ops


def jops(sp, ops):
    return [[k, sp.jval(a) if k == 'value' else a] for k, a in ops]


def unjops(sp, ops):
    return [(k, sp.unj(a) if k == 'value' else a) for k, a in ops]


# ------------------------------------------------------------------------------------------------ shrinking

def shrink_str(pred, s):
    """greedy character deletion while `pred` still fails"""
    changed = True
    while changed and len(s) > 0:
        changed = False
        for i in range(len(s)):
            t = s[:i] + s[i + 1:]
            try:
                if pred(t):
                    s, changed = t, True
                    break
            except Exception:
                pass
    return s


def shrink_value(R, sp, v, route):
    def bad(x):
        return sp.in_dom(x) and any(r == route for r, _ in oracle_value(R, sp, x))
    try:
        if sp.key in ('str', 'ic', 'tag', 'link', 'key'):
            return shrink_str(bad, v)
        if sp.key == 'bc':
            val = shrink_str(lambda t: bad((v[0], t)), v[1])
            ind = shrink_str(lambda t: bad((t, val)), v[0])
            return (ind, val)
    except Exception:
        pass
    return v


# ------------------------------------------------------------------------------------------------ run

def _exhaustive(maxlen, alpha=ADV9):
    for n in range(maxlen + 1):
        for t in itertools.product(alpha, repeat=n):
            yield ''.join(t)


def _report(ctx, sp, kind, fails, replay, bucket):
    seen = ctx.__dict__.setdefault('_c12_sigs', {})
    for route, outcome in fails:
        o = re.sub(r'@\d+', '', outcome)
        sig = f'C12:{sp.key}:{route}:{o}'
        seen[sig] = seen.get(sig, 0) + 1
        if seen[sig] <= 3:              # keep room for every distinct signature (check.py caps the list at 200)
            ctx.oracle_fail(sig, f'{sp.cls_name} {route}: {outcome} [{bucket}]', replay)
    ctx.extra['oracle_failure_signatures'] = dict(seen)


def _diverge(ctx, stream, detail, replay):
    seen = ctx.__dict__.setdefault('_c12_streams', {})
    seen[stream] = seen.get(stream, 0) + 1
    if seen[stream] <= 5:
        ctx.divergence(stream, detail, replay)
    ctx.extra['divergent_streams'] = dict(seen)


def shrink_setters(R, sp, start, ops):
    """drop ops, then shrink the string arguments, while the sequence still fails"""
    def bad(st, os_):
        try:
            return bool(oracle_setters(R, sp, st, os_)[0])
        except Exception:
            return False
    cur = list(ops)
    j = 0
    while j < len(cur):
        cand = cur[:j] + cur[j + 1:]
        if cand and bad(start, cand):
            cur = cand
        else:
            j += 1
    if sp.key in ('str', 'ic', 'tag', 'link', 'key', 'flag', 'bc'):
        for j, (k, a) in enumerate(cur):
            if k == 'value' and sp.key == 'bc':
                v = shrink_str(lambda t: sp.in_dom((a[0], t)) and bad(start, cur[:j] + [(k, (a[0], t))] + cur[j + 1:]), a[1])
                cur[j] = (k, (a[0], v))
            elif k == 'value':
                cur[j] = (k, shrink_str(lambda t: sp.in_dom(t) and bad(start, cur[:j] + [(k, t)] + cur[j + 1:]), a))
            elif k == 'raw_text':
                cur[j] = (k, shrink_str(lambda t: bad(start, cur[:j] + [(k, t)] + cur[j + 1:]), a))
        if start[0] == 'raw_text':
            start = (start[0], shrink_str(lambda t: bad((start[0], t), cur), start[1]))
        elif sp.key == 'bc':
            start = (start[0], (start[1][0], shrink_str(lambda t: sp.in_dom((start[1][0], t)) and bad((start[0], (start[1][0], t)), cur), start[1][1])))
        else:
            start = (start[0], shrink_str(lambda t: sp.in_dom(t) and bad((start[0], t), cur), start[1]))
    return start, cur


def run(ctx, with_model=True, budget=1.0):
    R = real()
    rng = ctx.rng
    model = with_model and ctx.extra.get('model_available', True)
    lines, expect = [], []        # driver protocol lines and (stream, expected output, replay)

    def ask(stream, line, want, replay):
        lines.append(line)
        expect.append((stream, want, replay))

    # tie: the compiled terminals are the ones the hand models were written for
    for rule, want in TERMINALS.items():
        got = R.terminal_regex(rule)
        ctx.case(None)
        if got != want:
            _diverge(ctx, 'terminal-regex:' + rule, {'model_written_for': want, 'compiled_now': got}, {'kind': 'terminal', 'rule': rule})

    t_ctx = 0
    setter_tab = ctx.extra.setdefault('setter_outcomes', {})
    # tie: source constants of EscapedString the model transcribes
    ES = R.models.EscapedString
    consts = {'escape_map': dict(ES._EscapedString__ESCAPE_MAP), 'escape_pattern': ES._EscapedString__ESCAPE_PATTERN.pattern,
              'unescape_pattern': ES._EscapedString__UNESCAPE_PATTERN.pattern, 'unescape_flags': int(ES._EscapedString__UNESCAPE_PATTERN.flags)}
    if consts != ES_CONSTS:
        _diverge(ctx, 'source-constants:EscapedString', {'model_written_for': repr(ES_CONSTS), 'now': repr(consts)}, {'kind': 'consts'})
    for key, sp in R.specs.items():
        n = int(ctx.scale(*sp.quota) * budget)
        values = sp.gen_values(rng, n)
        if key in ('str', 'ic', 'bc'):
            ex = list(_exhaustive(ctx.scale(3, 4) if budget >= 1 else 2))
            if key == 'bc':
                values += [(i, s) for s in ex for i in (('', ' \t') if len(s) < 4 else ('',))]
            else:
                values += ex
        lexemes = sp.gen_lexemes(rng, max(10, n // 3))
        texts = sp.gen_texts(rng, n)
        if key == 'str':
            # the reading of ESCAPED_STRING ("a backslash takes the next character") against re, exhaustively
            texts += ['"' + s for s in _exhaustive(ctx.scale(6, 8) if budget >= 1 else 4, ['"', '\\', 'a', '\n'])]
            texts += list(_exhaustive(3, ['"', '\\', 'a', '\n']))
        seen = set()
        n_lex = ctx.scale(700, 12000) * budget       # real parse_token / in-context calls are ~1 ms each
        n_ctx = ctx.scale(350, 5000) * budget
        # ---- values: format correspondence, dom correspondence, oracle routes
        for idx, v in enumerate(values):
            b = sp.bucket(v)
            ind = sp.in_dom(v)
            try:
                raw = sp.fmt(v)
            except Exception as e:
                raw = None
            if model:
                if raw is not None and (key != 'num' or ind):
                    ask(f'{key}:format', f'K {key} format {sp.venc(v)}', enc(raw), {'cls': key, 'kind': 'value', 'value': sp.jval(v)})
                if key not in ('bool', 'date', 'num'):
                    ask(f'{key}:dom', f'K {key} dom {sp.venc(v)}', 'T' if ind else 'F', {'cls': key, 'kind': 'value', 'value': sp.jval(v)})
            ctx.count(f'{key}:value:' + ('dom' if ind else 'outside'))
            if not ind:
                ctx.case(None)
                continue
            vk = repr(sp.jval(v))
            heavy = vk not in seen and (idx < 60 or len(seen) < n_lex)
            in_context = heavy and len(seen) < n_ctx
            seen.add(vk)
            t0 = time.time()
            fails = oracle_value(R, sp, v, in_context=in_context, lex=heavy)
            t_ctx += time.time() - t0
            ctx.case((key, 'value', b, 'lex' if heavy else 'fv', 'ctx' if in_context else '', tuple(fails)), {'cls': key, 'value': sp.jval(v), 'raw': raw})
            if fails:
                route = fails[0][0]
                nfail = ctx.__dict__.setdefault('_c12_nshrunk_v', {})
                nfail[key] = nfail.get(key, 0) + 1
                sv = shrink_value(R, sp, v, route) if nfail[key] <= 10 else v
                sf = oracle_value(R, sp, sv) or fails
                _report(ctx, sp, 'value', sf, {'cls': key, 'kind': 'value', 'value': sp.jval(sv)}, sp.bucket(sv))
        # ---- lexemes: accepted verbatim
        for i, l in enumerate(lexemes):
            if not sp.rx.fullmatch(l):
                ctx.notes.append(f'generator produced a non-lexeme for {key}: {l!r}')
                continue
            if i >= n_lex:
                break
            fails, outcome = oracle_lexeme(R, sp, l)
            ctx.count(f'{key}:lexeme:{outcome}')
            ctx.case((key, 'lexeme', features(l), outcome, tuple(fails)))
            if fails:
                nfail = ctx.__dict__.setdefault('_c12_nshrunk_l', {})
                nfail[key] = nfail.get(key, 0) + 1
                if nfail[key] <= 10:
                    route = fails[0][0]
                    l = shrink_str(lambda t: sp.rx.fullmatch(t) is not None and any(r == route for r, _ in oracle_lexeme(R, sp, t)[0]), l)
                    fails = oracle_lexeme(R, sp, l)[0] or fails
                _report(ctx, sp, 'lexeme', fails, {'cls': key, 'kind': 'lexeme', 'lexeme': l}, features(l))
        # ---- texts: parse and lexes correspondence; parse_token agrees with re on a subset
        for i, t in enumerate(texts):
            m = sp.rx.match(t)
            lexout = 'none' if m is None else f'some {enc(m.group(0))} {enc(t[m.end():])}'
            try:
                pout = sp.parse_canon(t)
            except Exception as e:
                pout = '!' + exc_tag(e)
            rep = {'cls': key, 'kind': 'text', 'text': t}
            if model:
                ask(f'{key}:lexes', f'K {key} lexes {enc(t)}', lexout, rep)
                if sp.parse_exact(t):
                    ask(f'{key}:parse', f'K {key} parse {enc(t)}', pout, rep)
            whole = m is not None and m.end() == len(t)
            ctx.case((key, 'text', features(t), 'lexeme' if whole else 'prefix' if m else 'nomatch', pout[:2]))
            if i < n_lex // 2:
                try:
                    tk = R.parser.parse_token(t, sp.T)
                    got = 'ok'
                except Exception as e:
                    got = 'raised'
                want = 'ok' if whole and not pout.startswith('!') else 'raised'
                ctx.count(f'{key}:parse_token:{got}')
                if got != want:
                    _diverge(ctx, f'{key}:parse_token-vs-re', {'text': t, 'parse_token': got, 're+_parse_value': want}, rep)
        # ---- setter sequences
        if key in SETTER_CLASSES:
            dom_values = [v for v in values if sp.in_dom(v)]
            pool = lexemes + texts
            for _ in range(int(ctx.scale(400, 10000) * budget)):
                start = ('value', rng.choice(dom_values)) if rng.random() < 0.5 else ('raw_text', rng.choice(lexemes))
                ops = gen_ops(rng, sp, dom_values, pool, rng.randint(1, 6))
                fails, trace = oracle_setters(R, sp, start, ops)
                for tr in trace:
                    k2 = f'{key}:{tr}'
                    setter_tab[k2] = setter_tab.get(k2, 0) + 1
                ctx.case((key, 'setters', tuple(sorted(set(trace))), tuple(f[0] for f in fails)))
                if fails:
                    nfail = ctx.__dict__.setdefault('_c12_nshrunk', {})
                    nfail[key] = nfail.get(key, 0) + 1
                    cur = list(ops)
                    if nfail[key] <= 10:
                        start, cur = shrink_setters(R, sp, start, ops)
                    fails = oracle_setters(R, sp, start, cur)[0] or fails
                    _report(ctx, sp, 'setters', fails, {'cls': key, 'kind': 'setters', 'start': [start[0], sp.jval(start[1]) if start[0] == 'value' else start[1]],
                                                         'ops': jops(sp, cur)}, 'seq')
    ctx.extra['oracle_heavy_s'] = round(t_ctx, 1)
    # ---- model diff
    if model and lines:
        t0 = time.time()
        outs = ctx.driver.run(lines)
        ctx.extra['driver_lines'] = len(lines)
        ctx.extra['driver_s'] = round(time.time() - t0, 1)
        for (stream, want, rep), line, got in zip(expect, lines, outs):
            ctx.count('model:' + stream)
            if got != want:
                _diverge(ctx, stream, {'line': line, 'real': want, 'model': got}, rep)
    elif with_model:
        ctx.notes.append('Lean model unavailable: correspondence skipped, oracle only')


def search(ctx, hints):
    """oracle only, larger budget"""
    run(ctx, with_model=False, budget=3.0 if not ctx.thorough else 1.5)


def replay(ctx, data):
    rep = data.get('replay') or data.get('first_diverging_replay')
    if not rep:
        return False
    R = real()
    kind = rep.get('kind')
    if kind == 'terminal':
        return R.terminal_regex(rep['rule']) == TERMINALS[rep['rule']]
    if kind == 'consts':
        return True        # not a property-level input
    sp = R.specs[rep['cls']]
    if kind == 'value':
        v = sp.unj(rep['value'])
        return not sp.in_dom(v) or not oracle_value(R, sp, v)
    if kind == 'lexeme':
        return not oracle_lexeme(R, sp, rep['lexeme'])[0]
    if kind == 'setters':
        st = rep['start']
        start = (st[0], sp.unj(st[1]) if st[0] == 'value' else st[1])
        return not oracle_setters(R, sp, start, unjops(sp, rep['ops']))[0]
    if kind == 'text':
        # a correspondence replay: the property-level statement about this text is the lexeme route (if it is one)
        t = rep['text']
        if sp.rx.fullmatch(t):
            return not oracle_lexeme(R, sp, t)[0]
        return True
    return False
