"""C15 - constructed models are well-formed and parse back to the same content."""
import construct, intro
from autobean_refactor import models
from autobean_refactor.models import base, internal
from common import enc_text

ID = 'C15'
PROPERTY_FILE = 'Autobean/Properties/C15.lean'
LEAN_TARGETS = ['Autobean.Properties.C15', 'Autobean.Obligations.Schema']
RULE = ('every from_value constructor of every model class, every subset of optional arguments (2^k, sampled above 64), '
        'in-domain values (strings needing escapes, negative numbers, custom value sequences, empty/multi-element lists), '
        'alone and assembled into files; oracle: structural invariant, whole-store span, the real parser accepts the printed '
        'text as the same type and the re-parse has the same public structure; correspondence: the token list of every '
        'constructed generated model vs the Lean `assemble` run on the recipe and separators extracted from /repo. '
        'distinct non-trivial = distinct (class, set of optional arguments present)')
ASSUMPTIONS = ['re-parse equality relies on the real lexer/parser (outside the model): the theorems cover the model-side premises']
LEVEL_TEXT = ('Lean theorems about the constructor model (own tokens in order, only declared separators in between, gaps of '
              'repeated fields) + decide-obligations that every generated from_children follows the canonical recipe + per-run '
              'diff of the emitted token list against the real constructors; "parses back to the same content" is checked '
              'by the real parser on every explored construction (partial: the parser is outside the model).')


def _tk(t):
    return f'{type(t).__name__}~{enc_text(t.raw_text)}'


def _line_for(m):
    cls = type(m)
    gen = next((k for k in cls.__mro__ if k.__module__.startswith('autobean_refactor.models.generated')), None)
    if gen is None:
        return None
    parts = [f'C {gen.__name__}']
    for name, kind, v in intro.field_values(m):
        if kind == 'rep':
            parts.append(f'{name}=p:' + ';'.join(','.join(_tk(t) for t in it.tokens) for it in v.items))
        elif kind == 'req':
            toks = v.tokens
            parts.append(f'{name}=r:' + ','.join(_tk(t) for t in toks))
        else:
            parts.append(f'{name}=o:' + ('-' if v is None else ','.join(_tk(t) for t in v.tokens)))
    expected = 'ok ' + ' '.join(_tk(t) for t in m.token_store)
    return ' '.join(parts), expected


class _Tap:
    """Collects (line, expected, replay) for the model diff from every constructed model (all nesting levels)."""
    def __init__(self):
        self.items = []

    def add(self, m, replay):
        for path, n in intro.walk(m):
            if isinstance(n, base.RawTokenModel) or isinstance(n, internal.Repeated):
                continue
            if n.token_store is None:
                continue
        r = _line_for(m)
        if r and len(self.items) < 4000:
            self.items.append((r[0], r[1], replay))


def run(ctx):
    tap = _Tap()
    orig = construct.check_one

    def tapped(cls, m, where):
        try:
            tap.add(m, {'cls': cls.__name__, 'text': intro.pr(m)})
        except Exception:
            ctx.count('tap-error')
        return orig(cls, m, where)
    construct.check_one = tapped
    try:
        construct.run(ctx, ctx.scale(64, 256), ctx.scale(2, 20))
        construct.run_children(ctx, ctx.scale(300, 4000))
        construct.run_expr_children(ctx)
    finally:
        construct.check_one = orig
    if ctx.extra.get('model_available', True) and tap.items:
        outs = ctx.driver.run([l for l, _, _ in tap.items])
        n = 0
        for (l, exp, rep), out in zip(tap.items, outs):
            if out.startswith('!unknown-class'):
                continue
            n += 1
            if out != exp:
                ctx.divergence('from_children-token-list', {'line': l[:400], 'model': out[:400], 'real': exp[:400]}, rep)
        ctx.extra['constructions_validated_against_model'] = n


def search(ctx, hints):
    construct.run(ctx, 256, ctx.scale(10, 40))
    construct.run_children(ctx, 3000)
    construct.run_expr_children(ctx)


def replay(ctx, data):
    # constructor arguments are recorded descriptively; re-run the whole (cheap) sweep for that class
    import check
    c = check.Ctx('C15', 'quick', ctx.seed)
    construct.run(c, 64, 2)
    construct.run_children(c, 600)
    construct.run_expr_children(c)
    sig = data.get('signature')
    return not any(f['sig'] == sig for f in c.oracle_fails)
