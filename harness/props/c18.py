"""C18 - children created from values are indented by the documented rule.

Cases: an entry (every directive kind that carries meta) or a posting, with an existing meta layout
(none / uniform N spaces / tabs / mixed, optionally a meta comment first), an `indent_by`, and one insertion route:
  map-new        owner.meta['zz'] = value                      (mapping assignment creating an item)
  raw-append     owner.raw_meta.append(MetaItem.from_value('zz', v, indent=RAW))   (raw node: own indent verbatim)
  raw-insert0    owner.raw_meta.insert(0, <same>)
  lead-comment / trail-comment   owner.leading_comment = 'text' on postings and meta items (owner's indent) and on
                 top-level entries (no indent)
  construct      X.from_value(..., meta={...}, indent_by=...)   (entries: indent_by; postings: indent + indent_by)
The expected indent is computed from the rule as the property states it: the indent shared by the existing meta
items if there are any, else parent indent + indent_by.  Mixed layouts have no shared indent: the rule is not
judged there (outside the quantifier), everything else still is.
"""
from __future__ import annotations
import datetime
import decimal
from autobean_refactor import models
from autobean_refactor.models import base, internal
import intro, edits
from common import enc_text

ID = 'C18'
PROPERTY_FILE = 'Autobean/Properties/C18.lean'
LEAN_TARGETS = ['Autobean.Properties.C18']
RULE = ('entries of every directive kind with meta and postings (indent 2 spaces / 4 spaces / tab), existing meta layout '
        'none / uniform 1,2,4,6 spaces / tabs / mixed (optionally a meta comment first), indent_by in 4 spaces, 2 spaces, tab, '
        '1 space (assigned after parsing or passed to from_value), routes: mapping assignment, raw append / insert, leading and '
        'trailing comment setters on postings, meta items and entries, from_value construction with a meta mapping. Oracle: '
        "created item's indent vs the rule, raw indent verbatim, every pre-existing Indent token / comment indent / text line "
        'unchanged, printed text re-parses with the same nesting (meta keys per entry and per posting). Correspondence: '
        '_get_indent() vs Lean newIndent, BlockComment._format_value / _parse_value indent vs Lean commentFormat / indentOf. '
        'distinct non-trivial = distinct (route, owner class, layout kind, #items, indent_by, posting indent, value kind)')
ASSUMPTIONS = [
    'non-uniform sibling indents are outside the property (no shared indent); the code copies the first item, the docs say the last - '
    'only the correspondence with the Lean model (first) is checked there',
    'private names read: RepeatedMetaItemWrapper._get_indent, BlockComment._format_value',
]

HEADS = {
    'Open': '2000-01-01 open Assets:Foo USD',
    'Close': '2000-01-01 close Assets:Foo',
    'Commodity': '2000-01-01 commodity USD',
    'Pad': '2000-01-01 pad Assets:Foo Assets:Bar',
    'Balance': '2000-01-01 balance Assets:Foo 1 USD',
    'Event': '2000-01-01 event "a" "b"',
    'Query': '2000-01-01 query "a" "b"',
    'Price': '2000-01-01 price USD 1 EUR',
    'Note': '2000-01-01 note Assets:Foo "n"',
    'Document': '2000-01-01 document Assets:Foo "p"',
    'Custom': '2000-01-01 custom "x" 1',
    'Transaction': '2000-01-01 * "p" "n"',
}
INDENT_BYS = ['    ', '  ', '\t', ' ']
POSTING_INDENTS = ['  ', '    ', '\t']
RAW_INDENTS = ['      ', '\t\t', ' ', '   ']
COMMENT_VALUES = ['text', 'two\nlines', '', 'a\n\nb', 'cr\r\nlf']
VALUES = [('str', 'x y'), ('dec', '1.5'), ('date', [2001, 2, 3]), ('bool', True), ('none', None)]


def _value(spec):
    k, v = spec
    if k == 'dec':
        return decimal.Decimal(v)
    if k == 'date':
        return datetime.date(*v)
    return v


def gen_layout(r):
    k = r.choice(['none', 'none', 'uniform', 'uniform', 'uniform', 'tabs', 'mixed'])
    n = r.choice([1, 2, 3])
    if k == 'none':
        return k, []
    if k == 'uniform':
        return k, [' ' * r.choice([1, 2, 4, 6])] * n
    if k == 'tabs':
        return k, [r.choice(['\t', '\t\t'])] * n
    n = r.choice([2, 3])
    while True:
        l = [r.choice([' ', '  ', '    ', '      ', '\t', '\t\t', ' \t']) for _ in range(n)]
        if len(set(l)) > 1:
            return k, l


def gen_case(r):
    kind = r.choice(list(HEADS) + ['Transaction'] * 6)
    lk, layout = gen_layout(r)
    case = {'entry': kind, 'layout_kind': lk, 'layout': layout, 'comment_first': r.random() < 0.15,
            'indent_by': r.choice(INDENT_BYS), 'owner': 'entry', 'value': r.choice(VALUES)}
    if kind == 'Transaction':
        case['posting_indent'] = r.choice(POSTING_INDENTS)
        plk, pl = gen_layout(r)
        case['posting_layout_kind'], case['posting_layout'] = plk, pl
        if r.random() < 0.6:
            case['owner'] = 'posting'
    route = r.choice(['map-new'] * 5 + ['raw-append', 'raw-append', 'raw-insert0', 'lead-comment', 'trail-comment', 'lead-comment', 'construct', 'map-existing'])
    case['route'] = route
    case['touch_first'] = r.random() < 0.4
    if r.random() < 0.2:
        # a standalone comment is the first entry of the owner's meta block, indented on its own terms: the rule is about
        # the meta ITEMS (or, without items, the parent), never about a comment that happens to stand first
        case['comment_entry'] = r.choice([' ', '      ', '\t\t', '   '])
    if case['owner'] == 'posting' and r.random() < 0.3:
        # the posting's own indent is changed after parsing (value setter, or the Indent node replaced): the rule uses
        # the parent indent current at insertion time
        case['reindent'] = [r.choice(['value', 'node']), r.choice(POSTING_INDENTS)]
    if route.startswith('raw'):
        case['raw_indent'] = r.choice(RAW_INDENTS)
    if route.endswith('comment'):
        case['comment'] = r.choice(COMMENT_VALUES)
        c = r.random()
        has_items = bool(case['layout'] if case['owner'] == 'entry' else case.get('posting_layout'))
        if c < 0.45 and has_items:
            case['comment_owner'] = 'meta-item'
        elif case['owner'] == 'posting':
            case['comment_owner'] = 'posting'
        else:
            case['comment_owner'] = 'entry'
    if route == 'map-existing' and not (case['layout'] if case['owner'] == 'entry' else case.get('posting_layout')):
        case['route'] = 'map-new'
    return case


def build_text(case):
    lines = [HEADS[case['entry']]]
    if case['comment_first'] and case['layout']:
        lines.append(case['layout'][-1] + ' ; meta comment')
    for j, ind in enumerate(case['layout']):
        lines.append(f'{ind}k{j}: "v{j}"')
    if case['entry'] == 'Transaction':
        pi = case['posting_indent']
        lines.append(f'{pi}Assets:Foo  1 USD')
        for j, ind in enumerate(case['posting_layout']):
            lines.append(f'{ind}p{j}: "w{j}"')
        lines.append(f'{pi}Assets:Bar')
    return '\n'.join(lines) + '\n'


def skeleton(entry):
    def keys(m):
        return [x.key for x in m.raw_meta]
    out = [type(entry).__name__, keys(entry)]
    if isinstance(entry, models.Transaction):
        out.append([[p.account, keys(p)] for p in entry.raw_postings])
    return out


def indent_tokens(store):
    out = []
    for t in store:
        if isinstance(t, models.Indent):
            out.append((id(t), 'Indent', t.raw_text))
        elif isinstance(t, models.BlockComment):
            out.append((id(t), 'BlockComment', t.indent))
    return out


def is_subsequence(a, b):
    it = iter(b)
    return all(any(x == y for y in it) for x in a)


def construct(case):
    """Route `construct`: from_value with a meta mapping."""
    iby = case['indent_by']
    meta = {'zz': _value(case['value']), 'yy': 'second'}
    d = datetime.date(2000, 1, 1)
    if case['owner'] == 'posting':
        pi = case['posting_indent']
        m = models.Posting.from_value('Assets:Foo', decimal.Decimal(1), 'USD', indent=pi, meta=meta, indent_by=iby)
        return m, pi
    k = case['entry']
    if k == 'Open':
        m = models.Open.from_value(d, 'Assets:Foo', meta=meta, indent_by=iby)
    elif k == 'Close':
        m = models.Close.from_value(d, 'Assets:Foo', meta=meta, indent_by=iby)
    elif k == 'Commodity':
        m = models.Commodity.from_value(d, 'USD', meta=meta, indent_by=iby)
    elif k == 'Note':
        m = models.Note.from_value(d, 'Assets:Foo', 'n', meta=meta, indent_by=iby)
    elif k == 'Event':
        m = models.Event.from_value(d, 'a', 'b', meta=meta, indent_by=iby)
    else:
        m = models.Transaction.from_value(d, None, 'n', (), meta=meta, indent_by=iby)
    return m, None


def run_case(case, lock=None, count=None):
    """Returns a list of (signature, description)."""
    fails = []
    route = case['route']
    iby = case['indent_by']
    if route == 'construct':
        try:
            m, pi = construct(case)
        except TypeError as e:
            return [('C18:harness:construct', repr(e))]
        want = (pi or '') + iby
        got = [x.indent for x in m.raw_meta]
        if got != [want, want]:
            fails.append((f'C18:indent-rule:construct', f'{type(m).__name__}.from_value(meta=..., indent_by={iby!r}' + (f', indent={pi!r}' if pi else '') +
                          f') gives items indented {got!r}, rule: {want!r}'))
        text = intro.pr(m)
        try:
            again = edits.P().parse(text, type(m))
            if [x.key for x in again.raw_meta] != ['zz', 'yy']:
                fails.append(('C18:nesting-changed', f'constructed {type(m).__name__} prints {text!r}, which re-reads with meta keys {[x.key for x in again.raw_meta]!r}'))
        except Exception as e:
            fails.append(('C18:nesting-changed', f'constructed {type(m).__name__} prints {text!r}, which does not parse: {type(e).__name__}'))
        if lock is not None:
            lock.add(f'W newindent - {enc_text(pi) if pi else "-"} {enc_text(iby)}', enc_text(got[0]) if got else '?', case)
        return fails
    text = build_text(case)
    f = edits.P().parse(text, models.File)
    entry = f.raw_directives[0]
    owner = entry.raw_postings[0] if case['owner'] == 'posting' else entry
    if case.get('touch_first'):
        # the mapping view is read BEFORE indent_by is changed: the rule uses the indent_by current at insertion time
        len(owner.meta)
        'zz' in owner.meta
    entry.indent_by = iby
    if isinstance(entry, models.Transaction):
        for p in entry.raw_postings:
            p.indent_by = iby
    if case.get('comment_entry') is not None:
        owner.raw_meta_with_comments.insert(0, models.BlockComment.from_value('entry', indent=case['comment_entry']))
    if case.get('reindent') and case['owner'] == 'posting':
        how, new = case['reindent']
        if how == 'value':
            owner.indent = new
        else:
            owner.raw_indent = models.Indent.from_value(new)
    parent_indent = owner.indent if case['owner'] == 'posting' else None
    siblings = [x.indent for x in owner.raw_meta]
    before_ind = indent_tokens(f.token_store)
    before_lines = intro.pr(f).split('\n')
    if siblings and len(set(siblings)) == 1:
        want = siblings[0]
    elif siblings:
        want = None   # mixed: no shared indent, the rule is not judged
        if count:
            count('rule:mixed-not-judged')
    else:
        want = (parent_indent or '') + iby
    who = f'{case["entry"]}{"/posting" if case["owner"] == "posting" else ""} meta {siblings!r} indent_by {iby!r}' + (f' posting indent {parent_indent!r}' if parent_indent is not None else '')
    created = None
    if route in ('map-new', 'map-existing'):
        if lock is not None:
            real = owner.meta._get_indent()
            lock.add(f'W newindent {",".join(enc_text(s) for s in siblings) or "-"} {enc_text(parent_indent) if parent_indent is not None else "-"} {enc_text(iby)}',
                     enc_text(real), case)
        key = 'zz' if route == 'map-new' else owner.raw_meta[0].key
        owner.meta[key] = _value(case['value'])
        if route == 'map-new':
            created = owner.raw_meta[-1]
            if created.key != 'zz':
                fails.append(('C18:indent-rule:map-new', who + ': the created item is not the last meta item'))
            elif want is not None and created.indent != want:
                fails.append((f'C18:indent-rule:map-new:{case["owner"]}', who + f": meta['zz'] = ... created an item indented {created.indent!r}, rule: {want!r}"))
    elif route in ('raw-append', 'raw-insert0'):
        raw = case['raw_indent']
        item = models.MetaItem.from_value('zz', _value(case['value']), indent=raw)
        if route == 'raw-append':
            owner.raw_meta.append(item)
        else:
            owner.raw_meta.insert(0, item)
        created = item
        if item.indent != raw or item.raw_indent.raw_text != raw:
            fails.append(('C18:raw-indent-changed', who + f': inserted raw item had indent {raw!r}, now {item.indent!r}'))
    else:
        co = case['comment_owner']
        target = owner.raw_meta[0] if co == 'meta-item' else (owner if co == 'posting' else entry)
        attr = 'leading_comment' if route == 'lead-comment' else 'trailing_comment'
        if getattr(target, attr) is not None:
            return []   # not a creation
        setattr(target, attr, case['comment'])
        bc = getattr(target, 'raw_' + attr)
        want_c = target.indent if co in ('meta-item', 'posting') else ''
        lines = bc.raw_text.split('\n')
        if bc.indent != want_c or not all(l.startswith(want_c + ';') for l in lines):
            fails.append((f'C18:indent-rule:{route}:{co}', who + f': {co}.{attr} = {case["comment"]!r} created {bc.raw_text!r}, every line should start with {want_c + ";"!r}'))
        if lock is not None:
            lock.add(f'W commentfmt {enc_text(want_c)} {enc_text(case["comment"])}', enc_text(models.BlockComment._format_value(want_c, case['comment'])), case)
            lock.add(f'W indentof {enc_text(bc.raw_text)}', enc_text(bc.indent), case)
    # no existing line's indentation changes
    after_ind = {i: (k, s) for i, k, s in indent_tokens(f.token_store)}
    for i, k, s in before_ind:
        if i not in after_ind:
            fails.append(('C18:existing-indent-changed', who + f' route {route}: an existing {k} token left the document'))
            break
        if after_ind[i][1] != s:
            fails.append(('C18:existing-indent-changed', who + f' route {route}: the indent of an existing line changed {s!r} -> {after_ind[i][1]!r}'))
            break
    else:
        after_text = intro.pr(f)
        if route != 'map-existing' and not is_subsequence(before_lines[:-1], after_text.split('\n')):
            fails.append(('C18:existing-indent-changed', who + f' route {route}: an existing text line changed: {after_text!r}'))
    # nesting
    after_text = intro.pr(f)
    try:
        again = edits.P().parse(after_text, models.File)
        a, b = skeleton(entry), skeleton(again.raw_directives[0]) if len(again.raw_directives) else None
        if a != b or len(again.raw_directives) != 1:
            fails.append(('C18:nesting-changed', who + f' route {route}: printed {after_text!r} re-reads as {b!r} ({len(again.raw_directives)} directives), the model says {a!r}'))
    except Exception as e:
        fails.append(('C18:nesting-changed', who + f' route {route}: printed {after_text!r} does not parse ({type(e).__name__})'))
    return fails


class Lock:
    def __init__(self, ctx):
        self.ctx = ctx
        self.lines, self.expect, self.replays = [], [], []
        self.on = ctx.extra.get('model_available', True)

    def add(self, line, expect, replay):
        if self.on:
            self.lines.append(line)
            self.expect.append(expect)
            self.replays.append(replay)

    def finish(self):
        if not self.lines:
            return
        outs = self.ctx.driver.run(self.lines)
        for line, exp, got, rep in zip(self.lines, self.expect, outs, self.replays):
            if exp != got:
                self.ctx.divergence('indent:' + line.split(' ', 2)[1], {'line': line[:400], 'real': exp[:200], 'model': got[:200]}, rep)
        self.ctx.extra['lockstep_lines'] = len(self.lines)


def update_comment_grid(ctx):
    """An EXISTING leading / trailing comment of a posting or meta item, indented differently from its owner, is assigned a
    new value through the value property (empty string included): it is updated where it stands - its own indentation and
    every other line's indentation stay."""
    for owner_kind in ('posting', 'meta-item'):
        for side in ('leading', 'trailing'):
            for oi in ('  ', '    ', '\t'):
                for ci in ('  ', '      ', '\t', ' '):
                    if ci == oi:
                        continue
                    ci0 = ci
                    for new, raw_first in [(n_, rf) for n_ in ('', 'x', 'a\nb') for rf in (False, True)]:
                        ci = ci0
                        c_line = f'{ci}; old'
                        o_line = f'{oi}Assets:Foo  1 USD' if owner_kind == 'posting' else f'{oi}kk: 1'
                        body = [c_line, o_line] if side == 'leading' else [o_line, c_line]
                        text = '2000-01-01 *\n' + '\n'.join(body) + '\n' + (f'{oi}Assets:Bar\n' if owner_kind == 'posting' else f'  Assets:Bar\n')
                        case = {'route': 'comment-update', 'owner': owner_kind, 'side': side, 'oi': oi, 'ci': ci, 'new': new, 'text': text}
                        try:
                            f = edits.P().parse(text, models.File)
                        except Exception:
                            ctx.count('comment-update:layout-rejected')
                            continue
                        txn = f.raw_directives[0]
                        target = txn.raw_postings[0] if owner_kind == 'posting' else (txn.raw_meta[0] if len(txn.raw_meta) else None)
                        if target is None or getattr(target, side + '_comment') is None:
                            ctx.count('comment-update:not-attributed-that-way')
                            continue
                        bc0 = getattr(target, 'raw_' + side + '_comment')
                        if raw_first:
                            # the comment's line is first rewritten as raw text with ANOTHER indentation: that is the indentation
                            # the line has from then on, and the one a later value update must keep
                            ci = '\t ' if ci != '\t ' else '   '
                            case = dict(case, raw_first=ci)
                            try:
                                bc0.raw_text = f'{ci}; raw'
                            except Exception as e:
                                ctx.oracle_fail('C18:raises:comment-update', f'raw_text assignment: {type(e).__name__}: {str(e)[:160]}', case)
                                continue
                        before_ind = indent_tokens(f.token_store)
                        ctx.case(('comment-update', owner_kind, side, oi, ci, new, raw_first))
                        try:
                            setattr(target, side + '_comment', new)
                        except Exception as e:
                            ctx.oracle_fail('C18:raises:comment-update', f'{type(e).__name__}: {str(e)[:160]}', case)
                            continue
                        bc = getattr(target, 'raw_' + side + '_comment')
                        after_ind = {i: (k, s) for i, k, s in indent_tokens(f.token_store)}
                        moved = next(((k, s, after_ind.get(i, (k, None))[1]) for i, k, s in before_ind if after_ind.get(i, (k, None))[1] != s), None)
                        if bc is None or bc.indent != ci:
                            ctx.oracle_fail(f'C18:existing-indent-changed:comment-update:{owner_kind}', f'{owner_kind}.{side}_comment = {new!r} on a comment indented {ci!r} '
                                            f'(owner {oi!r}): the comment line is now indented {None if bc is None else bc.indent!r}', case)
                        elif moved:
                            ctx.oracle_fail('C18:existing-indent-changed:comment-update', f'the indent of an existing {moved[0]} changed {moved[1]!r} -> {moved[2]!r}', case)
                        elif bc.value != new:
                            ctx.oracle_fail('C18:comment-update-readback', f'reads back {bc.value!r} after assigning {new!r}', case)


def _run(ctx, n, with_model):
    r = ctx.rng
    lock = Lock(ctx) if with_model else None
    for _ in range(n):
        case = gen_case(r)
        try:
            fails = run_case(case, lock, ctx.count)
        except Exception as e:
            fails = [('C18:raises:' + case['route'], f'{type(e).__name__}: {str(e)[:200]}')]
        items = case['layout'] if case['owner'] == 'entry' else case.get('posting_layout', [])
        lk = case['layout_kind'] if case['owner'] == 'entry' else case.get('posting_layout_kind')
        ctx.case((case['route'], case['entry'], case['owner'], lk, len(items), case['indent_by'], case.get('posting_indent'), case['value'][0],
                  case.get('comment_owner')), sample=case if ctx.evaluations % 397 == 0 else None)
        ctx.count('route:' + case['route'])
        ctx.count('layout:' + str(lk))
        for sig, what in fails:
            ctx.oracle_fail(sig, what, case)
    if lock is not None:
        # the comment formatter on its own
        for _ in range(ctx.scale(300, 3000)):
            ind = r.choice(['', ' ', '  ', '    ', '\t', ' \t'])
            v = ''.join(r.choice('ab ;\n\n\r') for _ in range(r.randrange(0, 8)))
            raw = models.BlockComment._format_value(ind, v)
            rep = {'route': 'commentfmt', 'indent': ind, 'comment': v}
            lock.add(f'W commentfmt {enc_text(ind)} {enc_text(v)}', enc_text(raw), rep)
            lock.add(f'W indentof {enc_text(raw)}', enc_text(models.BlockComment.from_raw_text(raw).indent), rep)
            ctx.case(None)
        lock.finish()


def constructor_grid(ctx):
    """EVERY model class whose from_value takes a meta mapping and an indent_by (all entry kinds and postings, whatever
    other arguments they need), with every indent_by of the grid (and a 7-blank one): the items of the freshly built
    model - which has no sibling to copy from - are indented by parent indent + indent_by, and an item added through the
    mapping afterwards takes the same indent."""
    import inspect, random
    import construct as cons
    r = random.Random('c18-constructors')
    lock = Lock(ctx) if getattr(ctx, 'driver', None) is not None else None
    for rule, cls in sorted(models.TREE_MODELS.items()):
        if not hasattr(cls, 'from_value'):
            continue
        sig = inspect.signature(cls.from_value)
        if 'meta' not in sig.parameters or 'indent_by' not in sig.parameters:
            continue
        for iby in INDENT_BYS + ['       ']:
            for pi in (['  ', '\t'] if 'indent' in sig.parameters else [None]):
                rep = {'route': 'constructor-grid', 'cls': cls.__name__, 'indent_by': iby, 'indent': pi}
                try:
                    args = cons.build(r, cls, {n: False for n in cons.toggles(cls, sig)}, sig)
                    args['meta'] = {'zz': 'v', 'yy': decimal.Decimal(2)}
                    args['indent_by'] = iby
                    if pi is not None:
                        args['indent'] = pi
                    m = cls.from_value(**args)
                except Exception as e:
                    ctx.oracle_fail(f'C18:raises:constructor-grid:{cls.__name__}', f'{type(e).__name__}: {str(e)[:200]}', rep)
                    continue
                ctx.case(('constructor-grid', cls.__name__, iby, pi))
                want = (pi or '') + iby
                got = [x.indent for x in m.raw_meta]
                if lock is not None:     # the model's rule (theorem new_indent_rule) on the same arguments
                    lock.add(f'W newindent - {enc_text(pi) if pi else "-"} {enc_text(iby)}', enc_text(got[0]) if got else '?', rep)
                if got != [want, want]:
                    ctx.oracle_fail('C18:indent-rule:construct', f'{cls.__name__}.from_value(meta=..., indent_by={iby!r}' + (f', indent={pi!r}' if pi else '') +
                                    f') gives items indented {got!r}, rule: {want!r}', rep)
                    continue
                m.meta['ww'] = 'later'
                got = [x.indent for x in m.raw_meta]
                if got != [want] * 3:
                    ctx.oracle_fail('C18:indent-rule:construct-then-map', f'{cls.__name__} built with indent_by={iby!r}: after meta["ww"] = ... the items are indented {got!r}, rule: {want!r}', rep)
    if lock is not None:
        n = ctx.extra.get('lockstep_lines', 0)
        lock.finish()
        ctx.extra['lockstep_lines_constructor_grid'] = len(lock.lines)
        ctx.extra['lockstep_lines'] = n


def run(ctx):
    update_comment_grid(ctx)
    constructor_grid(ctx)
    _run(ctx, ctx.scale(2500, 30000), ctx.extra.get('model_available', True))


def search(ctx, hints):
    _run(ctx, ctx.scale(8000, 40000), False)


def replay(ctx, data):
    case = data.get('replay') or data.get('first_diverging_replay') or data
    if case.get('route') == 'commentfmt':
        raw = models.BlockComment._format_value(case['indent'], case['comment'])
        return all(l.startswith(case['indent'] + ';') for l in raw.split('\n'))
    if case.get('route') in ('comment-update', 'constructor-grid'):
        import check
        c = check.Ctx('C18', 'quick', ctx.seed)
        (update_comment_grid if case['route'] == 'comment-update' else constructor_grid)(c)
        return not c.oracle_fails
    fails = run_case(case)
    for sig, what in fails:
        print(f'  {sig}: {what}')
    return not fails
