"""Folds confirm.txt (scratch-worktree confirmation) and RESULTS.json (what the checks said) into every
seeded/<name>/meta.json and prints the markdown table used in DESIGN.md section 9."""
import json
from pathlib import Path
S = Path(__file__).resolve().parent.parent / 'seeded'
res = json.loads((S / 'RESULTS.json').read_text()) if (S / 'RESULTS.json').exists() else {}
notes = json.loads((S / 'NOTES.json').read_text()) if (S / 'NOTES.json').exists() else {}
rows = []
for d in sorted(p for p in S.iterdir() if p.is_dir()):
    m = json.loads((d / 'meta.json').read_text())
    conf = (d / 'confirm.txt').read_text().strip() if (d / 'confirm.txt').exists() else ''
    m['confirmed_in_scratch_worktree'] = conf
    r = res.get(d.name, {})
    own = r.get('checks', {}).get(m['property'], {})
    viol = own.get('violations', [])
    kind = ('concrete replay' if viol and any('no-failing-input-found' not in v for v in viol)
            else 'no-failing-input-found' if viol else 'not detected by its own check')
    others = sorted(p for p, c in r.get('checks', {}).items() if p != m['property'] and c.get('rc') == 1)
    m['detection'] = {'own_check': kind, 'own_check_summary': own.get('summary', ''), 'other_checks_red': others,
                      'note': notes.get(d.name, '')}
    m['ran_by_verifier'] = [f'harness/confirm_mutant.sh {d.name} full  -> {conf}',
                            f'harness/mutants.py {d.name}  (git -C /repo apply patch.diff; ./check {m["property"]} quick; git -C /repo checkout -- .)  or harness/pmutants.py (same, on a scratch worktree + scratch copy of /verif)']
    (d / 'meta.json').write_text(json.dumps(m, indent=1))
    what = m.get('what', '').split('. ')[0][:150]
    rows.append(f'| {d.name} | {m["property"]} | {what} | {kind}{" + " + ",".join(others) if others else ""} | {notes.get(d.name, "")} |')
print('| change | breaks | what (first sentence) | caught by its own check | note |\n|---|---|---|---|---|')
print('\n'.join(rows))
