"""History-mode correspondence and oracle for the aliasing views of a repeated field (C10).

Real objects: one raw `RepeatedNodeWrapper` of a parsed document plus every view over it (string views,
filtered node views, mapping views of meta).  A history mutates the list through ANY of them.  After every call
  * the real state is dumped (raw item identities + value codes, every live view's `_raw_indexes`) in the Lean
    driver's format and the whole history is replayed on the model `Autobean.Views.World` carrying its own
    state -> line-by-line diff (correspondence); the driver also prints the `PyList` reference result, which is
    compared with a plain Python `list` subjected to the same operation (ties `PyList` to CPython);
  * the oracle evaluates the property on the real objects: every view equals the raw list filtered/converted
    now, every call behaved like the same call on a plain list (ordered first-match pairs for keys), refused
    calls changed nothing.
"""
from __future__ import annotations
import copy
import intro, datetime, decimal, json
from autobean_refactor import parser as _parser_mod, models
from autobean_refactor.models import internal

D = decimal.Decimal
_PARSER = _parser_mod.Parser()

# element-type tags of the model
TAG, LINK, COMMENT, DIRECTIVE, POSTING, META, CURRENCY, CSTR, CNUM, CBOOL, CDATE, CACCOUNT, CAMOUNT = range(13)
CUSTOM_TYS = [CSTR, CNUM, CBOOL, CDATE, CACCOUNT, CAMOUNT]


# ---- the one place that reads private state -------------------------------------------------------------
def raw_indexes(view):
    """`_raw_indexes` of a view, or None when the private name is gone (observable-only comparison then)."""
    r = getattr(view, '_raw_indexes', None)
    return list(r) if isinstance(r, list) else None


# ---- value codes <-> real values ------------------------------------------------------------------------
def _letters(n):
    return chr(97 + (n // 26) % 26) + chr(97 + n % 26)


def _unletters(s):
    return (ord(s[0].lower()) - 97) * 26 + (ord(s[1].lower()) - 97)


def cur_name(n):
    return 'X' + _letters(n).upper()


def key_name(n):
    return 'k' + _letters(n)


def make_raw(ty, val):
    """A fresh free-standing raw model of element type `ty` with value code `val`."""
    if ty == TAG:
        return models.Tag.from_value(f't{val}')
    if ty == LINK:
        return models.Link.from_value(f't{val}')
    if ty == COMMENT:
        return models.BlockComment.from_value(f'c{val}')
    if ty == DIRECTIVE:
        return models.Close.from_value(datetime.date(2000, 1, 1), f'Assets:A{val}')
    if ty == POSTING:
        return models.Posting.from_value(f'Assets:A{val}', D(1), 'USD')
    if ty == META:
        return models.MetaItem.from_value(key_name(val), f'v{val}')
    if ty == CURRENCY:
        return models.Currency.from_value(cur_name(val))
    if ty == CSTR:
        return models.EscapedString.from_value(f's{val - 1000}')
    if ty == CNUM:
        return models.NumberExpr.from_value(D(val - 3000))
    if ty == CBOOL:
        return models.Bool.from_value(bool(val))
    if ty == CDATE:
        return models.Date.from_value(datetime.date(2000, 1, 1) + datetime.timedelta(days=val - 2000))
    if ty == CACCOUNT:
        return models.Account.from_value(f'Assets:A{val - 4000}')
    if ty == CAMOUNT:
        return models.Amount.from_value(D(val - 5000), 'USD')
    raise AssertionError(ty)


def custom_py_value(ty, val):
    """The simplified Python value `Custom.values` accepts for (ty, val)."""
    if ty == CSTR:
        return f's{val - 1000}'
    if ty == CNUM:
        return D(val - 3000)
    if ty == CBOOL:
        return bool(val)
    if ty == CDATE:
        return datetime.date(2000, 1, 1) + datetime.timedelta(days=val - 2000)
    return make_raw(ty, val)


def ty_of(x):
    if isinstance(x, models.Tag):
        return TAG
    if isinstance(x, models.Link):
        return LINK
    if isinstance(x, models.BlockComment):
        return COMMENT
    if isinstance(x, models.Posting):
        return POSTING
    if isinstance(x, models.MetaItem):
        return META
    if isinstance(x, models.Currency):
        return CURRENCY
    if isinstance(x, models.EscapedString):
        return CSTR
    if isinstance(x, models.NumberExpr):
        return CNUM
    if isinstance(x, models.Bool):
        return CBOOL
    if isinstance(x, models.Date):
        return CDATE
    if isinstance(x, models.Account):
        return CACCOUNT
    if isinstance(x, models.Amount):
        return CAMOUNT
    return DIRECTIVE


def val_of(x):
    t = ty_of(x)
    try:
        if t in (TAG, LINK):
            return int(x.value[1:])
        if t == COMMENT:
            return int(x.value.strip()[1:])
        if t == DIRECTIVE:
            return int(str(x.account).rsplit('A', 1)[1])
        if t == POSTING:
            return int(str(x.account).rsplit('A', 1)[1])
        if t == META:
            return _unletters(x.key[1:])
        if t == CURRENCY:
            return _unletters(x.value[1:])
        if t == CSTR:
            return 1000 + int(x.value[1:])
        if t == CNUM:
            return 3000 + int(x.value)
        if t == CBOOL:
            return int(x.value)
        if t == CDATE:
            return 2000 + (x.value - datetime.date(2000, 1, 1)).days
        if t == CACCOUNT:
            return 4000 + int(x.value.rsplit('A', 1)[1])
        if t == CAMOUNT:
            return 5000 + int(x.number)
    except Exception:
        return 999999
    return 999999


def doc_item_text(ty, val):
    if ty == TAG:
        return f'#t{val}'
    if ty == LINK:
        return f'^t{val}'
    if ty == COMMENT:
        return f'; c{val}'
    if ty == DIRECTIVE:
        return f'2000-01-01 close Assets:A{val}'
    if ty == POSTING:
        return f'  Assets:A{val}  1 USD'
    if ty == META:
        return f'  {key_name(val)}: "v{val}"'
    if ty == CURRENCY:
        return cur_name(val)
    if ty == CSTR:
        return f'"s{val - 1000}"'
    if ty == CNUM:
        return str(val - 3000)
    if ty == CBOOL:
        return 'TRUE' if val else 'FALSE'
    if ty == CDATE:
        return str(datetime.date(2000, 1, 1) + datetime.timedelta(days=val - 2000))
    if ty == CACCOUNT:
        return f'Assets:A{val - 4000}'
    raise AssertionError(ty)


class ViewDef:
    def __init__(self, name, tys, upd, get, conv='node', mapping=None):
        self.name, self.tys, self.upd, self.get, self.conv, self.mapping = name, tys, upd, get, conv, mapping


def _conv_custom(x):
    if isinstance(x, (models.EscapedString, models.Date, models.Bool, models.NumberExpr)):
        return x.value
    return x


KINDS = ['taglinks', 'directives', 'postings', 'meta-txn', 'meta-open', 'meta-posting', 'currencies', 'custom']


def _extra(raw, types):
    cls = getattr(internal, 'RepeatedFilteredNodeWrapper', None)
    if cls is None:
        raise AttributeError('RepeatedFilteredNodeWrapper')
    return cls(raw, types)


class Fixture:
    """One parsed document, the raw wrapper under test and the definitions of its views."""

    def __init__(self, setup):
        self.setup = setup
        kind = setup['kind']
        self.kind = kind
        text = setup['text']
        self.root = None
        if kind == 'taglinks':
            m = _PARSER.parse(text, models.Transaction)
            self.raw = m.raw_tags_links
            self.raw_tys = [TAG, LINK]
            self.defs = [
                ViewDef('tags', [TAG], 'a', lambda: m.tags, 'str'),
                ViewDef('links', [LINK], 'a', lambda: m.links, 'str'),
                ViewDef('x-all', [TAG, LINK], 'n', lambda: _extra(m.raw_tags_links, (models.Tag, models.Link))),
            ]
        elif kind == 'directives':
            m = _PARSER.parse(text, models.File)
            self.raw = m.raw_directives_with_comments
            self.raw_tys = [DIRECTIVE, COMMENT]
            self.defs = [
                ViewDef('raw_directives', [DIRECTIVE], 'n', lambda: m.raw_directives),
                ViewDef('x-comments', [COMMENT], 'n', lambda: _extra(m.raw_directives_with_comments, models.BlockComment)),
                ViewDef('directives', [DIRECTIVE], 'n', lambda: m.directives),
            ]
        elif kind == 'postings':
            m = _PARSER.parse(text, models.Transaction)
            self.raw = m.raw_postings_with_comments
            self.raw_tys = [POSTING, COMMENT]
            self.defs = [
                ViewDef('raw_postings', [POSTING], 'n', lambda: m.raw_postings),
                ViewDef('x-all', [POSTING, COMMENT], 'n',
                        lambda: _extra(m.raw_postings_with_comments, (models.Posting, models.BlockComment))),
                ViewDef('postings', [POSTING], 'n', lambda: m.postings),
            ]
        elif kind.startswith('meta-'):
            if kind == 'meta-txn':
                m = _PARSER.parse(text, models.Transaction)
                owner = m
            elif kind == 'meta-open':
                m = _PARSER.parse(text, models.Open)
                owner = m
            else:
                m = _PARSER.parse(text, models.Transaction)
                owner = m.postings[0]
            self.raw = owner.raw_meta_with_comments
            self.raw_tys = [META, COMMENT]
            self.defs = [
                ViewDef('raw_meta', [META], 'n', lambda: owner.raw_meta, 'node', 'raw'),
                ViewDef('meta', [META], 'n', lambda: owner.meta, 'node', 'val'),
                ViewDef('x-comments', [COMMENT], 'n', lambda: _extra(owner.raw_meta_with_comments, models.BlockComment)),
            ]
        elif kind == 'currencies':
            m = _PARSER.parse(text, models.Open)
            self.raw = m.raw_currencies
            self.raw_tys = [CURRENCY]
            self.defs = [
                ViewDef('currencies', [CURRENCY], 'a', lambda: m.currencies, 'str'),
                ViewDef('x-all', [CURRENCY], 'n', lambda: _extra(m.raw_currencies, models.Currency)),
            ]
        elif kind == 'custom':
            m = _PARSER.parse(text, models.Custom)
            self.raw = m.raw_values
            self.raw_tys = [CSTR, CNUM, CBOOL, CDATE, CACCOUNT]
            self.defs = [
                ViewDef('values', CUSTOM_TYS, 's' + ','.join(map(str, [CSTR, CNUM, CBOOL, CDATE])), lambda: m.values, 'custom'),
                ViewDef('x-strings', [CSTR], 'n', lambda: _extra(m.raw_values, models.EscapedString)),
            ]
        else:
            raise AssertionError(kind)
        self.root = m
        self.raw_owner = owner if kind.startswith('meta-') else m
        self.raw_name = next((nm for nm in dir(type(self.raw_owner)) if nm.startswith('raw_') and getattr(self.raw_owner, nm, None) is self.raw), None)
        self.ids = {}          # id(obj) -> small int
        self.keep = []         # keeps every object alive (so id() is never reused)
        self.next_id = 1
        self.pending = []      # (ty or None, val, preassigned id) of values a string/mapping view will create
        self.live = []         # registered views in registration order: (def index, view object)
        self.internal_ok = True
        for pre in setup.get('pre', []):
            obj = self.obj_for(pre['val'])
            self.raw.insert(pre['i'], obj)

    # -- identities --------------------------------------------------------------------------------------
    def fresh_id(self):
        i = self.next_id
        self.next_id += 1
        return i

    def obj_for(self, v):
        """v = [ty, val, id]: a fresh raw object registered under the preassigned id."""
        obj = make_raw(v[0], v[1])
        self.ids[id(obj)] = v[2]
        self.keep.append(obj)
        self.next_id = max(self.next_id, v[2] + 1)
        return obj

    def ident(self, obj):
        k = id(obj)
        if k not in self.ids:
            t, v = ty_of(obj), val_of(obj)
            hit = next((p for p in self.pending if p[1] == v and (p[0] is None or p[0] == t)), None)
            if hit is not None:
                self.pending.remove(hit)
                self.ids[k] = hit[2]
            else:
                self.ids[k] = self.fresh_id()
            self.keep.append(obj)
        return self.ids[k]

    def items(self):
        return list(self.raw)

    def pairs(self):
        """[(id, val)] of the raw list now."""
        out = [(self.ident(x), val_of(x)) for x in self.items()]
        self.pending = []
        return out

    def view(self, k):
        """The k-th defined view, registering it (first touch) when needed."""
        for d, v in self.live:
            if d == k:
                return v
        v = self.defs[k].get()
        if not any(v is w for _, w in self.live):
            self.live.append((k, v))
            return v
        # an alias of an already registered view (directives is raw_directives)
        return v

    def live_index(self, k):
        v = self.view(k)
        return next(i for i, (_, w) in enumerate(self.live) if w is v)

    # -- dumps -------------------------------------------------------------------------------------------
    def dump(self):
        its = self.pairs()
        s_items = ','.join(f'{i}:{v}' for i, v in its) or '-'
        vs = []
        for _, v in self.live:
            r = raw_indexes(v)
            if r is None:
                self.internal_ok = False
                vs.append('?')
            else:
                vs.append(','.join(map(str, r)) or '-')
        return f'items={s_items} views=' + '|'.join(vs)


def enc_int(i):
    return 'N' if i is None else str(i)


def enc_val(v):
    return f'{v[2]}:{v[0]}:{v[1]}'


def enc_vals(vs):
    return ','.join(enc_val(v) for v in vs) or '-'


def exc_tag(e):
    if isinstance(e, IndexError):
        return 'IndexError'
    if isinstance(e, KeyError):
        return 'KeyError'
    if isinstance(e, ValueError):
        s = str(e)
        if 'reuse' in s:
            return 'ValueError:reuse'
        if 'attempt to assign' in s:
            return 'ValueError:size'
        if 'not found in list' in s or 'not in list' in s:
            return 'ValueError:notfound'
        if 'step cannot be zero' in s:
            return 'ValueError:step0'
        return 'ValueError:other:' + s[:40]
    return 'unexpected:' + type(e).__name__


# ---- the plain Python list reference ---------------------------------------------------------------------
def plain_list_op(ref, op, vals):
    """Apply `op` to the plain list `ref` (elements (id, val)); returns (new list or None, tag or None).
    None list = the operation has no plain-list counterpart."""
    lst = list(ref)
    name = op['op']
    try:
        if name == 'setint':
            lst[op['i']] = vals[0]
        elif name == 'setslice':
            lst[op['a']:op['b']:op['c']] = vals
        elif name == 'delint':
            del lst[op['i']]
        elif name == 'delslice':
            del lst[op['a']:op['b']:op['c']]
        elif name == 'insert':
            lst.insert(op['i'], vals[0])
        elif name == 'append':
            lst.append(vals[0])
        elif name == 'extend':
            lst.extend(vals)
        elif name == 'clear':
            lst.clear()
        elif name == 'pop':
            lst.pop(op['i'])
        elif name == 'remove':
            j = next((j for j, x in enumerate(lst) if x[1] == op['key']), None)
            if j is None:
                return lst, 'ValueError:notfound'
            del lst[j]
        elif name == 'discard':
            lst = [x for x in lst if x[1] != op['key']]
        else:
            return None, None
    except Exception as e:
        return list(ref), exc_tag(e)
    return lst, None


def enc_pairs(ps):
    return ','.join(f'{i}:{v}' for i, v in ps) or '-'


def op_line(fx, op):
    """Protocol line of one op (after views were registered as needed)."""
    vals = op.get('vals', [])
    if op['t'] == 'reg':
        d = fx.defs[op['v']]
        return 'V reg ' + (','.join(map(str, d.tys)) or '-') + ' ' + d.upd
    head = 'V raw' if op['t'] == 'raw' else f'V view {fx.live_index(op["v"])}'
    n = op['op']
    if n == 'setint' or n == 'insert':
        return f'{head} {n} {op["i"]} {enc_val(vals[0])}'
    if n == 'setslice':
        return f'{head} setslice {enc_int(op["a"])} {enc_int(op["b"])} {enc_int(op["c"])} {enc_vals(vals)}'
    if n in ('delint', 'pop'):
        return f'{head} {n} {op["i"]}'
    if n == 'delslice':
        return f'{head} delslice {enc_int(op["a"])} {enc_int(op["b"])} {enc_int(op["c"])}'
    if n == 'append':
        return f'{head} append {enc_val(vals[0])}'
    if n == 'extend':
        return f'{head} extend {enc_vals(vals)}'
    if n == 'clear':
        return f'{head} clear'
    if n in ('claim', 'unclaim'):
        # which comments are (un)claimed is C14; the views only see `items[:] = ...; _notify()`
        return f'{head} reassign ' + (','.join(f'{fx.ident(x)}:{ty_of(x)}:{val_of(x)}' for x in fx.items()) or '-')
    if n in ('remove', 'discard', 'delkey'):
        return f'{head} {n} {op["key"]}'
    if n in ('setkeyraw', 'setkeyval'):
        return f'{head} {n} {op["key"]} {enc_val(vals[0])}'
    if n == 'popkey':
        return f'{head} popkey {op["key"]} {1 if op.get("dflt") else 0}'
    raise AssertionError(n)


class Step:
    """Everything one executed op produced."""
    __slots__ = ('lines', 'tag', 'bad', 'via', 'n_before')

    def __init__(self):
        self.lines = []     # (protocol line, expected driver output)
        self.tag = None
        self.bad = []       # (signature, description)
        self.via = 'raw'
        self.n_before = 0


def _resolve_vals(fx, op):
    """Concrete value descriptors [ty, val, id] of the op (a `reuse` entry names an item already in the list)."""
    vals = [list(v) for v in op.get('vals', [])]
    if op.get('reuse') is not None:
        its = fx.items()
        if its:
            x = its[op['reuse'] % len(its)]
            vals.insert(min(op.get('reuse_at', 0), len(vals)), [ty_of(x), val_of(x), fx.ident(x), 'existing', x])
        elif len(vals) >= 1:
            vals.append(list(vals[0]) + ['dup'])
    return vals


def _real_values(fx, vd, vals):
    """The Python values to pass for `vals`: raw objects for the raw wrapper and node views, converted values
    for string/custom views (the view builds the raw object itself: remembered in fx.pending)."""
    out = []
    made = {}
    for v in vals:
        if len(v) > 3 and v[3] == 'existing':
            out.append(v[4])
            continue
        if len(v) > 3 and v[3] == 'dup':
            out.append(out[0])
            continue
        if vd is not None and vd.conv == 'str':
            out.append(f't{v[1]}' if vd.tys[0] in (TAG, LINK) else cur_name(v[1]))
            fx.pending.append((vd.tys[0], v[1], v[2]))
        elif vd is not None and vd.conv == 'custom' and v[0] in (CSTR, CNUM, CBOOL, CDATE):
            out.append(custom_py_value(v[0], v[1]))
            fx.pending.append((v[0], v[1], v[2]))
        else:
            key = v[2]
            if key not in made:
                made[key] = fx.obj_for(v)
            out.append(made[key])
    return out


def apply_op(fx: Fixture, op, rng=None) -> Step:
    """Apply one op descriptor to the real objects; produce protocol lines, expectations and oracle findings."""
    st = Step()
    if op['t'] == 'assign':
        # the whole field is assigned (a deep copy of itself): every view read afterwards shows the new list; the views
        # the fixture held belong to the replaced list and are dropped (model: a fresh start on the new items)
        st.via = 'assign'
        if not fx.raw_name:
            return st
        if op.get('other'):
            # ANOTHER repeated field of the same model is assigned as a whole: the views of THIS field (kept by the fixture)
            # are views of a list nobody replaced - they go on following it
            props = intro.api_props(type(fx.raw_owner))['rep'] if hasattr(intro, 'api_props') else {}
            others = [nm for nm in sorted(props) if nm != fx.raw_name and getattr(fx.raw_owner, nm, None) is not fx.raw
                      and nm.replace('_with_comments', '') != fx.raw_name.replace('_with_comments', '')]
            if not others:
                return st
            nm = others[op.get('k', 0) % len(others)]
            st.via = 'assign-other'
            setattr(fx.raw_owner, nm, copy.deepcopy(getattr(fx.raw_owner, nm)))
            st.bad += check_views(fx)
            return st
        setattr(fx.raw_owner, fx.raw_name, copy.deepcopy(fx.raw))
        fx.raw = getattr(fx.raw_owner, fx.raw_name)
        fx.live = []
        fx.pending = []
        fx.next_id = max(fx.next_id, 100000)     # identities of the copied items: clear of the generator's range
        st.lines.append(('V init ' + (','.join(f'{fx.ident(x)}:{ty_of(x)}:{val_of(x)}' for x in fx.items()) or '-'), 'ok ' + fx.dump() + ' ref=?'))
        for k in range(len(fx.defs)):      # read every view now: each must show the new list
            try:
                fx.view(k)
            except AttributeError:
                pass
        st.bad += check_views(fx)
        fx.live = []
        return st
    if op['t'] == 'move':
        # the model under test is moved into another document (append into a fresh File, or popped out again): every
        # child is re-attached to another token store; the views registered before the move keep describing the same list
        st.via = 'move'
        if isinstance(fx.root, models.File):
            return st
        host = getattr(fx, 'host', None)
        if host is None:
            host = _PARSER.parse('2000-01-01 open Assets:Host\n', models.File)
            try:
                host.raw_directives.append(fx.root)
            except ValueError:
                return st      # a model parsed on its own may carry trivia outside its span and then cannot be moved (C01 finding)
            fx.host = host
        else:
            fx.host.raw_directives.pop(-1)
            fx.host = None
        st.bad += check_views(fx)
        return st
    if op['t'] == 'twin':
        # a deep copy of the raw wrapper (the way a repeated field is copied to another model) is edited: it is another
        # list, so nothing registered on this one may hear of it - no model step, the views are re-checked as they stand
        st.via = 'twin'
        if getattr(fx, 'twin', None) is None:
            fx.twin = copy.deepcopy(fx.raw)
        tw = fx.twin
        if op['op'] == 'pop' and len(tw):
            tw.pop(op['i'] % len(tw))
        else:
            tw.insert(op['i'] % (len(tw) + 1), make_raw(op['vals'][0][0], op['vals'][0][1]))
        st.bad += check_views(fx)
        return st
    if op['t'] == 'reg':
        if any(d == op['v'] for d, _ in fx.live):
            return st
        before = len(fx.live)
        try:
            fx.view(op['v'])
        except AttributeError:
            return st
        if len(fx.live) > before:
            st.lines.append((op_line(fx, op), 'ok ' + fx.dump() + ' ref=?'))
        st.bad += check_views(fx)
        st.via = 'reg'
        return st
    vd = None
    if op['t'] == 'view':
        before = len(fx.live)
        try:
            target = fx.view(op['v'])
        except AttributeError:
            return st
        vd = fx.defs[op['v']]
        if len(fx.live) > before:
            st.lines.append((op_line(fx, {'t': 'reg', 'v': op['v']}), 'ok ' + fx.dump() + ' ref=?'))
        st.via = vd.name
    else:
        target = fx.raw
        if op['op'] in ('claim', 'unclaim') and not hasattr(target, 'claim_interleaving_comments'):
            return st      # a deep copy of a with-comments wrapper is a plain wrapper (no claim methods): nothing to run
    raw_before = fx.items()
    pairs_before = fx.pairs()
    st.n_before = len(raw_before) if vd is None else sum(1 for x in raw_before if ty_of(x) in vd.tys)
    views_before = [(list(v) if fx.defs[d].conv == 'node' else [_cv(fx.defs[d], x) for x in _raw_of(v, fx)]) for d, v in fx.live]
    vals = _resolve_vals(fx, op)
    name = op['op']
    # reference (plain list) on the pre-state
    if vd is None:
        ref_before = pairs_before
    else:
        ref_before = [(fx.ident(x), val_of(x)) for x in raw_before if ty_of(x) in vd.tys]
    ref_vals = [(v[2], v[1]) for v in vals]
    ref_after, ref_tag = plain_list_op(ref_before, op, ref_vals)
    line_op = dict(op)
    line_op['vals'] = vals
    line = op_line(fx, line_op) if name not in ('claim', 'unclaim') else None
    real = _real_values(fx, vd, vals)
    tag = None
    try:
        if name == 'setint':
            target[op['i']] = real[0]
        elif name == 'setslice':
            if op.get('rhs_live') and list(target) == list(real):
                target[op['a']:op['b']:op['c']] = target       # the live view as its own right-hand side
            else:
                target[op['a']:op['b']:op['c']] = real
        elif name == 'delint':
            del target[op['i']]
        elif name == 'delslice':
            del target[op['a']:op['b']:op['c']]
        elif name == 'insert':
            target.insert(op['i'], real[0])
        elif name == 'append':
            target.append(real[0])
        elif name == 'extend':
            if op.get('iadd') and vd is None and fx.raw_name:
                # `model.raw_x += [...]`: extends in place, then assigns the result back through the property
                setattr(fx.raw_owner, fx.raw_name, getattr(fx.raw_owner, fx.raw_name).__iadd__(list(real)))
                fx.raw = getattr(fx.raw_owner, fx.raw_name)
            elif op.get('iadd') and vd is not None and not vd.name.startswith('x-') and getattr(fx.raw_owner, vd.name, None) is target:
                # `model.view += [...]` (the statement, not the method): the view extends itself in place and is then assigned
                # back through its read-only property - list semantics: nothing is raised, the list is extended once
                setattr(fx.raw_owner, vd.name, getattr(fx.raw_owner, vd.name).__iadd__(list(real)))
            else:
                target.extend(iter(real))
        elif name == 'clear':
            target.clear()
        elif name == 'pop':
            target.pop(op['i'])
        elif name == 'claim':
            target.claim_interleaving_comments()
        elif name == 'unclaim':
            target.unclaim_interleaving_comments()
        elif name == 'remove':
            target.remove(_key_value(fx, vd, op, raw_before))
        elif name == 'discard':
            target.discard(_key_value(fx, vd, op, raw_before))
        elif name == 'setkeyraw':
            target[key_name(op['key'])] = real[0]
        elif name == 'setkeyval':
            fx.pending.append((META, op['key'], vals[0][2]))
            target[key_name(op['key'])] = f'v{op["key"]}'
        elif name == 'delkey':
            del target[key_name(op['key'])]
        elif name == 'popkey':
            if op.get('dflt'):
                target.pop(key_name(op['key']), None)
            else:
                target.pop(key_name(op['key']))
        else:
            raise AssertionError(name)
    except (IndexError, KeyError, ValueError) as e:
        tag = exc_tag(e)
    st.tag = tag
    dump = fx.dump()
    if line is None:
        line = op_line(fx, line_op)
    ref_s = '?' if ref_after is None else ('!' + ref_tag if ref_tag else enc_pairs(ref_after))
    st.lines.append((line, ('ok' if tag is None else 'err:' + tag) + ' ' + dump + ' ref=' + ref_s))
    # ---- oracle -------------------------------------------------------------------------------------
    st.bad += check_views(fx)
    raw_after = fx.items()
    pairs_after = [(fx.ident(x), val_of(x)) for x in raw_after]
    if tag is not None:
        # a refused call leaves everything as it was
        if len(raw_after) != len(raw_before) or any(a is not b for a, b in zip(raw_after, raw_before)) \
                or pairs_after != pairs_before:
            st.bad.append((f'C10:refused-changed:{st.via}:{name}', f'{name} raised {tag} but the raw list changed'))
        views_now = [(list(v) if fx.defs[d].conv == 'node' else [_cv(fx.defs[d], x) for x in _raw_of(v, fx)]) for d, v in fx.live]
        for (d, _), a, b in zip(fx.live, views_before, views_now):
            if len(a) != len(b) or any(not _same(fx.defs[d], x, y) for x, y in zip(a, b)):
                st.bad.append((f'C10:refused-changed-view:{st.via}:{name}', f'{name} raised {tag} but view {fx.defs[d].name} changed'))
    # the same call on a plain list
    exp_tag = ref_tag
    legit_extra = None
    if any(len(v) > 3 for v in vals) and name in ('setslice', 'extend') and vd is None:
        legit_extra = 'ValueError:reuse'          # documented: attached or duplicated nodes are refused
    if vd is not None and name == 'setslice' and ref_tag is None and ref_after is not None \
            and len(ref_after) != len(ref_before):
        legit_extra = 'ValueError:size'           # documented: assignment through a view keeps the size
    if ref_after is not None:
        if tag is not None:
            if tag != exp_tag and tag != legit_extra:
                st.bad.append((f'C10:outcome:{st.via}:{name}', f'{name} raised {tag}; a plain list gives {exp_tag or "no error"}'))
        else:
            if exp_tag is not None:
                st.bad.append((f'C10:outcome:{st.via}:{name}', f'{name} succeeded; a plain list raises {exp_tag}'))
            elif legit_extra == 'ValueError:reuse':
                st.bad.append((f'C10:outcome:{st.via}:{name}', f'{name} accepted a reused node'))
            else:
                if vd is None:
                    got = pairs_after
                    want = ref_after
                    if vd is None and [g[0] for g in got] != [w[0] for w in want]:
                        st.bad.append((f'C10:list-semantics:raw:{name}', f'raw ids {[g[0] for g in got]} != plain list {[w[0] for w in want]}'))
                else:
                    got = [(fx.ident(x), val_of(x)) for x in raw_after if ty_of(x) in vd.tys]
                    if vd.conv == 'node':
                        ok = [g[0] for g in got] == [w[0] for w in ref_after]
                    else:
                        ok = [g[1] for g in got] == [w[1] for w in ref_after]
                    if not ok:
                        st.bad.append((f'C10:list-semantics:{vd.name}:{name}', f'view {vd.name}: {got} != plain list {ref_after}'))
                    # elements the view does not show are untouched, in order
                    rest_b = [p for p, x in zip(pairs_before, raw_before) if ty_of(x) not in vd.tys]
                    rest_a = [p for p, x in zip(pairs_after, raw_after) if ty_of(x) not in vd.tys]
                    if rest_a != rest_b:
                        st.bad.append((f'C10:other-elements:{vd.name}:{name}', f'elements outside view {vd.name} changed: {rest_b} -> {rest_a}'))
    elif name in ('claim', 'unclaim') and tag is None:
        keep_b = [p for p, x in zip(pairs_before, raw_before) if ty_of(x) != COMMENT]
        keep_a = [p for p, x in zip(pairs_after, raw_after) if ty_of(x) != COMMENT]
        if keep_a != keep_b:
            st.bad.append((f'C10:claim-moved-elements:{name}', f'{name} changed the non-comment elements: {keep_b} -> {keep_a}'))
    elif vd is not None and vd.mapping:
        st.bad += check_key_op(fx, vd, op, vals, tag, raw_before, pairs_before, raw_after, pairs_after)
    return st


def _raw_of(view, fx):
    r = raw_indexes(view)
    its = fx.items()
    if r is None:
        return []
    return [its[i] for i in r if 0 <= i < len(its)]


def _cv(vd, x):
    if vd.conv == 'str':
        return x.value
    if vd.conv == 'custom':
        return _conv_custom(x)
    return x


def _same(vd, a, b):
    if vd.conv == 'node':
        return a is b
    if isinstance(a, models.base.RawModel) or isinstance(b, models.base.RawModel):
        return a is b
    return type(a) is type(b) and a == b


def _key_value(fx, vd, op, raw_before):
    """The argument of remove/discard for value code op['key']."""
    k = op['key']
    if vd.conv == 'str':
        return f't{k}' if vd.tys[0] in (TAG, LINK) else cur_name(k)
    hit = next((x for x in raw_before if ty_of(x) in vd.tys and val_of(x) == k), None)
    if vd.conv == 'custom':
        if hit is not None:
            return _conv_custom(hit)
        return custom_py_value(op.get('kty', CSTR), k)
    if hit is not None and not op.get('fresh_arg'):
        return hit
    return make_raw(op.get('kty', vd.tys[0]), k)


def check_views(fx):
    """Oracle: every live view equals the raw list filtered/converted now; len/index/slice/key reads agree."""
    bad = []
    its = fx.items()
    for d, v in fx.live:
        vd = fx.defs[d]
        want = [_cv(vd, x) for x in its if ty_of(x) in vd.tys]
        try:
            got = list(iter(v))
            if vd.conv == 'node':
                pass
            if len(got) != len(want) or any(not _same(vd, a, b) for a, b in zip(got, want)):
                bad.append((f'C10:view-ne-filter:{vd.name}', f'view {vd.name} shows {_show(fx, vd, got)}; raw filtered is {_show(fx, vd, want)}'))
                continue
            if len(v) != len(want):
                bad.append((f'C10:len:{vd.name}', f'len({vd.name})={len(v)} != {len(want)}'))
            n = len(want)
            for i in range(-n - 1, n + 1):
                try:
                    g = ('ok', v[i])
                except IndexError:
                    g = ('IndexError', None)
                try:
                    w = ('ok', want[i])
                except IndexError:
                    w = ('IndexError', None)
                if g[0] != w[0] or (g[0] == 'ok' and not _same(vd, g[1], w[1])):
                    bad.append((f'C10:getitem:{vd.name}', f'{vd.name}[{i}] differs from the filtered list'))
                    break
            for sl in ((None, None, -1), (1, None, 2), (-2, None, None), (None, -1, None), (n + 1, 0, -2)):
                g = v[sl[0]:sl[1]:sl[2]]
                w = want[sl[0]:sl[1]:sl[2]]
                if len(g) != len(w) or any(not _same(vd, a, b) for a, b in zip(g, w)):
                    bad.append((f'C10:getslice:{vd.name}', f'{vd.name}[{sl}] differs from the filtered list'))
                    break
            if vd.mapping:
                pairs = [(x.key, x) for x in its if ty_of(x) in vd.tys]
                keys = [k for k, _ in pairs]
                if list(v.keys()) != keys:
                    bad.append((f'C10:keys:{vd.name}', f'keys {list(v.keys())} != {keys}'))
                for k in set(keys) | {'kzz'}:
                    first = next((x for kk, x in pairs if kk == k), None)
                    if (k in v) != (first is not None):
                        bad.append((f'C10:contains:{vd.name}', f'{k!r} in {vd.name} wrong'))
                    try:
                        g = v[k]
                        gk = 'ok'
                    except KeyError:
                        g, gk = None, 'KeyError'
                    if first is None:
                        if gk != 'KeyError':
                            bad.append((f'C10:getkey:{vd.name}', f'{vd.name}[{k!r}] should raise KeyError'))
                    elif gk != 'ok':
                        bad.append((f'C10:getkey:{vd.name}', f'{vd.name}[{k!r}] raised KeyError'))
                    elif vd.mapping == 'raw' and g is not first:
                        bad.append((f'C10:getkey:{vd.name}', f'{vd.name}[{k!r}] is not the first match'))
                    elif vd.mapping == 'val' and not (g == first.value):
                        bad.append((f'C10:getkey:{vd.name}', f'{vd.name}[{k!r}] is not the value of the first match'))
                its2 = list(v.items())
                if vd.mapping == 'raw':
                    okk = len(its2) == len(pairs) and all(a[0] == b[0] and a[1] is b[1] for a, b in zip(its2, pairs))
                else:
                    okk = len(its2) == len(pairs) and all(a[0] == b[0] and a[1] == b[1].value for a, b in zip(its2, pairs))
                if not okk:
                    bad.append((f'C10:items:{vd.name}', f'items() of {vd.name} differ from the ordered pairs'))
        except Exception as e:
            bad.append((f'C10:view-read-raises:{vd.name}', f'reading view {vd.name}: {type(e).__name__}: {e}'))
    return bad


def _show(fx, vd, xs):
    if vd.conv == 'node':
        return [fx.ident(x) for x in xs]
    return [x if not isinstance(x, models.base.RawModel) else f'<{fx.ident(x)}>' for x in xs]


def check_key_op(fx, vd, op, vals, tag, raw_before, pairs_before, raw_after, pairs_after):
    """Ordered first-match pairs reference for the key operations of the mapping views."""
    bad = []
    name = op['op']
    key = op['key']
    ref = list(pairs_before)                    # the whole raw list as (id, val); keys are vals of META items
    tys_before = [ty_of(x) for x in raw_before]
    pos = next((j for j, (p, t) in enumerate(zip(ref, tys_before)) if t == META and p[1] == key), None)
    exp_tag = None
    if name == 'setkeyraw':
        if pos is None:
            ref.append((vals[0][2], vals[0][1]))
        else:
            ref[pos] = (vals[0][2], vals[0][1])
    elif name == 'setkeyval':
        if pos is None:
            ref.append((vals[0][2], key))
    elif name == 'delkey':
        if pos is None:
            exp_tag = 'KeyError'
        else:
            del ref[pos]
    elif name == 'popkey':
        if pos is None:
            exp_tag = None if op.get('dflt') else 'KeyError'
        else:
            del ref[pos]
    if tag != exp_tag:
        bad.append((f'C10:outcome:{vd.name}:{name}', f'{name} gave {tag or "no error"}; ordered-dict semantics give {exp_tag or "no error"}'))
    elif [p[0] for p in pairs_after] != [p[0] for p in ref]:
        bad.append((f'C10:dict-semantics:{vd.name}:{name}', f'after {name}: raw ids {[p[0] for p in pairs_after]} != reference {[p[0] for p in ref]}'))
    return bad


# ---- generators --------------------------------------------------------------------------------------------
def gen_setup(rng, kind=None, n=None):
    kind = kind or rng.choice(KINDS)
    if n is None:
        n = rng.choice([0, 1, 2, 3, 3, 4, 5, 6])
    vals = rng.sample(range(1, 40), n)
    pre = []
    if kind == 'taglinks':
        tys = [rng.choice([TAG, LINK]) for _ in range(n)]
        text = '2000-01-01 *' + ''.join(' ' + doc_item_text(t, v) for t, v in zip(tys, vals))
    elif kind == 'directives':
        tys = [rng.choice([DIRECTIVE, DIRECTIVE, COMMENT]) for _ in range(n)]
        text = '\n\n'.join(doc_item_text(t, v) for t, v in zip(tys, vals)) + ('\n' if n else '')
    elif kind == 'postings':
        text = '2000-01-01 *' + ''.join('\n' + doc_item_text(POSTING, v) for v in vals)
    elif kind == 'meta-txn':
        text = '2000-01-01 *' + ''.join('\n' + doc_item_text(META, v) for v in vals)
    elif kind == 'meta-open':
        text = '2000-01-01 open Assets:A' + ''.join('\n' + doc_item_text(META, v) for v in vals)
    elif kind == 'meta-posting':
        text = '2000-01-01 *\n  Assets:A1  1 USD' + ''.join('\n  ' + doc_item_text(META, v) for v in vals)
    elif kind == 'currencies':
        text = '2000-01-01 open Assets:A' + (' ' + ', '.join(doc_item_text(CURRENCY, v) for v in vals) if n else '')
    elif kind == 'custom':
        tys = [rng.choice([CSTR, CNUM, CBOOL, CDATE, CACCOUNT]) for _ in range(n)]
        cv = [(t, {CSTR: 1000 + v, CNUM: 3002 + v, CBOOL: v % 2, CDATE: 2000 + v, CACCOUNT: 4000 + v}[t]) for t, v in zip(tys, vals)]
        # a number directly after a number would be re-read as one expression: keep them apart
        out = []
        for t, v in cv:
            if out and out[-1][0] == CNUM and t == CNUM:
                t, v = CSTR, v - 2002
            out.append((t, v))
        text = '2000-01-01 custom "x"' + ''.join(' ' + doc_item_text(t, v) for t, v in out)
    setup = {'kind': kind, 'text': text, 'pre': pre}
    if kind in ('postings', 'meta-txn', 'meta-open', 'meta-posting') and rng.random() < 0.7:
        # standalone comments between the elements (added through the raw wrapper before any view exists)
        m = n
        nid = 100
        for _ in range(rng.choice([1, 1, 2, 3])):
            pre.append({'i': rng.randrange(0, m + 1), 'val': [COMMENT, rng.randrange(40, 50), nid]})
            nid += 1
            m += 1
    return setup


INT_OPS = ('setint', 'delint', 'pop', 'insert')
STEPS = [None, None, 1, 2, 3, -1, -2]


def idx_class(i, n):
    if i is None:
        return 'None'
    if i >= n or i < -n:
        return 'oob'
    return 'neg' if i < 0 else ('zero' if i == 0 else 'pos')


def gen_op(rng, fx: Fixture, ids, allow_errors=True):
    """One op descriptor against the current real state. `ids` = callable giving fresh value ids."""
    nd = len(fx.defs)
    registered = [d for d, _ in fx.live]
    r = rng.random()
    unreg = [k for k in range(nd) if k not in registered]
    if unreg and r < 0.08:
        return {'t': 'reg', 'v': rng.choice(unreg)}
    if registered and not isinstance(fx.root, models.File) and rng.random() < 0.05:
        return {'t': 'move'}
    if registered and rng.random() < 0.04:
        return {'t': 'assign'}
    if registered and rng.random() < 0.04:
        return {'t': 'assign', 'other': True, 'k': rng.randrange(4)}
    if registered and rng.random() < 0.06:
        ty = rng.choice(fx.raw_tys)
        v = rng.randrange(50, 58)
        if ty == CBOOL:
            v = rng.randrange(2)
        elif ty in CUSTOM_TYS:
            v = {CSTR: 1000, CNUM: 3000, CDATE: 2000, CACCOUNT: 4000, CAMOUNT: 5000}[ty] + v
        return {'t': 'twin', 'op': rng.choice(['insert', 'insert', 'pop']), 'i': rng.randrange(0, 6), 'vals': [[ty, v, ids()]]}
    if r < 0.42 or not registered:
        t, vd, k = 'raw', None, None
        if not registered and rng.random() < 0.5:
            k = rng.randrange(nd)
            t, vd = 'view', fx.defs[k]
    else:
        k = rng.choice(registered if rng.random() < 0.85 else list(range(nd)))
        t, vd = 'view', fx.defs[k]
    its = fx.items()
    n = len(its) if vd is None else sum(1 for x in its if ty_of(x) in vd.tys)
    tys = fx.raw_tys if vd is None else [x for x in vd.tys if x != CAMOUNT]

    def fresh_vals(m, distinct=True):
        out = []
        used = set()
        if (vd is None or vd.conv == 'node') and rng.random() < 0.3:
            distinct = False    # distinct objects that compare equal (same text): positions must follow identity, not ==
        for _ in range(m):
            ty = rng.choice(tys)
            for _ in range(20):
                v = rng.randrange(50, 58) if distinct else rng.randrange(50, 52)
                if ty == CBOOL:
                    v = rng.randrange(2)
                elif ty in CUSTOM_TYS:
                    v = {CSTR: 1000, CNUM: 3000, CDATE: 2000, CACCOUNT: 4000, CAMOUNT: 5000}[ty] + v
                if not distinct or (ty, v) not in used:
                    break
            if distinct and (ty, v) in used:
                continue        # (two equal fresh bools could not be told apart in the dump)
            used.add((ty, v))
            out.append([ty, v, ids()])
        return out

    def rint():
        return rng.randrange(-n - 2, n + 3)

    def rbound():
        return None if rng.random() < 0.2 else rint()

    op = {'t': t}
    if k is not None:
        op['v'] = k
    names = ['setint', 'setslice', 'setslice', 'delint', 'delslice', 'insert', 'insert', 'append', 'extend', 'pop']
    if rng.random() < 0.04:
        names = ['clear']
    if vd is None and COMMENT in fx.raw_tys and rng.random() < 0.12:
        names = ['claim', 'unclaim']
    if vd is not None:
        names += ['remove', 'discard']
        if vd.mapping:
            names += ['setkeyraw' if vd.mapping == 'raw' else 'setkeyval', 'delkey', 'popkey', 'popkey']
    name = rng.choice(names)
    op['op'] = name
    present = [val_of(x) for x in its if vd is not None and ty_of(x) in vd.tys]
    if name in ('setint', 'insert'):
        op['i'] = rint()
        op['vals'] = fresh_vals(1)
    elif name in ('delint', 'pop'):
        op['i'] = rint() if rng.random() < 0.8 or name == 'delint' else -1
    elif name in ('setslice', 'delslice'):
        op['a'], op['b'], op['c'] = rbound(), rbound(), rng.choice(STEPS)
        if allow_errors and rng.random() < 0.01:
            op['c'] = 0
        if name == 'setslice':
            ln = len(range(n)[op['a']:op['b']:op['c']]) if op['c'] != 0 else 0
            if op['c'] in (None, 1) and vd is None:
                m = rng.choice([ln, 0, 1, 2, 3])
            else:
                m = ln if rng.random() < 0.75 else rng.choice([0, 1, 2, 3])
            op['vals'] = fresh_vals(min(m, 6))
            if vd is not None and vd.conv == 'str' and 2 <= n <= 6 and rng.random() < 0.12:
                # the right-hand side is the live view itself: `v[::-1] = v` reverses v, as for a plain list (the batch is
                # taken before anything is written)
                cur = [x for x in its if ty_of(x) in vd.tys]
                op['a'], op['b'], op['c'] = None, None, rng.choice([-1, -1, None, 1])
                op['vals'] = [[ty_of(x), val_of(x), ids()] for x in cur]
                op['rhs_live'] = True
            if vd is None and allow_errors and rng.random() < 0.06:
                op['reuse'] = rng.randrange(0, 8)
                op['reuse_at'] = rng.randrange(0, 3)
    elif name == 'append':
        op['vals'] = fresh_vals(1)
    elif name == 'extend':
        op['vals'] = fresh_vals(rng.choice([0, 1, 2, 3]))
        if rng.random() < 0.4:
            op['iadd'] = True
        if vd is None and allow_errors and rng.random() < 0.06:
            op['reuse'] = rng.randrange(0, 8)
            op['reuse_at'] = rng.randrange(0, 3)
    elif name in ('remove', 'discard'):
        # node views compare structurally: equal value codes mean equal nodes only for unique codes
        uniq_ok = [v for v in present if vd.conv != 'node' or sum(1 for x in its if val_of(x) == v) == 1]
        if uniq_ok and rng.random() < 0.75:
            op['key'] = rng.choice(uniq_ok)
        else:
            op['key'] = rng.randrange(60, 64) if not (vd.conv == 'custom') else 1000 + rng.randrange(60, 64)
            op['kty'] = CSTR if vd.conv == 'custom' else tys[0]
    elif name in ('setkeyraw', 'setkeyval', 'delkey', 'popkey'):
        if present and rng.random() < 0.7:
            op['key'] = rng.choice(present)
        else:
            op['key'] = rng.randrange(50, 58)
        if name == 'setkeyraw':
            v = fresh_vals(1)[0]
            if rng.random() < 0.6:
                v[1] = op['key']
            op['vals'] = [[META, v[1], v[2]]]
        elif name == 'setkeyval':
            op['vals'] = [[META, op['key'], ids()]]
        elif name == 'popkey':
            op['dflt'] = rng.random() < 0.4
    return op


def op_sig(fx, op, st):
    name = op.get('op', 'reg')
    n = st.n_before
    if name in INT_OPS:
        ic = idx_class(op.get('i'), n)
    elif name in ('setslice', 'delslice'):
        c = op['c']
        ic = idx_class(op['a'], n) + '/' + idx_class(op['b'], n) + '/' + ('None' if c is None else ('1' if c == 1 else ('pos' if c > 0 else ('neg' if c < 0 else '0'))))
    elif 'key' in op:
        ic = 'key'
    else:
        ic = '-'
    return (fx.kind, st.via, name, ic, min(n, 4), st.tag or 'ok')


class Ids:
    def __init__(self, start=1000):
        self.n = start

    def __call__(self):
        self.n += 1
        return self.n


def run_one(setup, ops_or_gen, on_step=None):
    """Run a history.  `ops_or_gen(fx)` yields op descriptors lazily (or is a list).
    Returns (fixture, [(line, expected)], [(sig, what)], executed ops)."""
    fx = Fixture(setup)
    lines = [('V init ' + (','.join(f'{fx.ident(x)}:{ty_of(x)}:{val_of(x)}' for x in fx.items()) or '-'),
              'ok ' + fx.dump() + ' ref=?')]
    bad = []
    done = []
    it = ops_or_gen(fx) if callable(ops_or_gen) else iter(ops_or_gen)
    for op in it:
        done.append(op)
        try:
            st = apply_op(fx, op)
        except Exception as e:
            bad.append((f'C10:unexpected-{type(e).__name__}:{op.get("op", "reg")}', f'{type(e).__name__}: {e}'))
            break
        lines += st.lines
        if on_step:
            on_step(fx, op, st)
        if st.bad:
            bad += st.bad
            break
    return fx, lines, bad, done


def clean_op(op):
    return json.loads(json.dumps(op))


def replay_history(data):
    """Re-run a recorded history (document text + op list) with the oracle only; returns [(sig, what)]."""
    try:
        _, _, bad, _ = run_one(data['setup'], [dict(o) for o in data['ops']])
    except Exception as e:
        return [(f'C10:unexpected-{type(e).__name__}:setup', repr(e))]
    return bad


def shrink(setup, ops, sig):
    """Greedy delta-debugging over the op list keeping the same failure signature."""
    ops = list(ops)

    def fails(cand):
        try:
            b = replay_history({'setup': setup, 'ops': cand})
        except Exception:
            return False
        return any(s == sig for s, _ in b)
    i = 0
    budget = 200
    while i < len(ops) and budget > 0:
        cand = ops[:i] + ops[i + 1:]
        budget -= 1
        if fails(cand):
            ops = cand
        else:
            i += 1
    return ops


def run_histories(ctx, nhist, nops, with_model=True, kinds=None):
    batches = []
    ids_seen = 0
    for h in range(nhist):
        rng = ctx.rng
        setup = gen_setup(rng, kind=(kinds[h % len(kinds)] if kinds else KINDS[h % len(KINDS)]))
        ids = Ids()

        def gen(fx):
            # touch some views first so that they are registered
            for k in range(len(fx.defs)):
                if rng.random() < 0.6:
                    yield {'t': 'reg', 'v': k}
            for _ in range(nops):
                yield clean_op(gen_op(rng, fx, ids))

        def on_step(fx, op, st):
            ctx.count(f'op:{st.via if st.via in ("raw", "reg") else "view"}:{op.get("op", "reg")}' + (':' + st.tag.split(':other')[0] if st.tag else ''))
            ctx.count('kind:' + fx.kind)
            sig = op_sig(fx, op, st)
            trivial = op['t'] == 'reg'
            ctx.case(None if trivial else sig,
                     sample={'kind': fx.kind, 'text': setup['text'], 'op': op, 'outcome': st.tag or 'ok'} if ctx.evaluations % 1499 == 0 else None)
        try:
            fx, lines, bad, done = run_one(setup, gen, on_step)
        except Exception as e:
            ctx.oracle_fail(f'C10:unexpected-{type(e).__name__}:setup', repr(e), {'setup': setup, 'ops': []})
            continue
        if not fx.internal_ok:
            ctx.extra['internal_view'] = 'unavailable'
        if bad:
            sig, what = bad[0]
            small = shrink(setup, done, sig)
            ctx.oracle_fail(sig, what, {'setup': setup, 'ops': small})
        batches.append(({'setup': setup, 'ops': done}, lines, fx.internal_ok))
    if with_model and ctx.extra.get('model_available', True):
        diff_with_model(ctx, batches)


def _strip_views(s):
    # observable-only comparison: drop the views= part
    import re
    return re.sub(r' views=\S*', ' views=*', s)


def diff_with_model(ctx, batches):
    all_lines = []
    index = []
    for bi, (rep, lines, _) in enumerate(batches):
        for li, (l, e) in enumerate(lines):
            all_lines.append(l)
            index.append((bi, li))
    outs = ctx.driver.run(all_lines)
    seen = set()
    for (bi, li), out in zip(index, outs):
        if bi in seen:
            continue
        line, exp = batches[bi][1][li]
        a, b = out.rstrip(), exp.rstrip()
        if not batches[bi][2]:
            a, b = _strip_views(a), _strip_views(b)
        if a != b:
            seen.add(bi)
            ctx.divergence('views-history', {'line': line, 'model': out[:600], 'real': exp[:600], 'step': li}, batches[bi][0])
    ctx.extra['traces_validated_against_model'] = ctx.extra.get('traces_validated_against_model', 0) + len(batches)
    ctx.extra['model_lines_compared'] = ctx.extra.get('model_lines_compared', 0) + len(all_lines)


# ---- exhaustive slice space (thorough) -------------------------------------------------------------------
def run_exhaustive(ctx, with_model=True, lens=range(0, 5), bounds=None, steps=(None, 1, 2, 3, -1, -2, -3),
                   nvals=range(0, 4), kinds=('taglinks', 'directives')):
    if bounds is None:
        bounds = [None] + list(range(-6, 7))
    batches = []
    total = 0
    for kind in kinds:
        for n in lens:
            # a fixed mixed-type document of n items
            rng = __import__('random').Random(f'exh:{kind}:{n}')
            setup = gen_setup(rng, kind=kind, n=n)
            probe = Fixture(setup)
            targets = [('raw', None)] + [('view', k) for k in range(len(probe.defs)) if not probe.defs[k].name.startswith('x-') and probe.defs[k].name not in ('directives', 'postings')]
            for t, k in targets:
                for a in bounds:
                    for b in bounds:
                        for c in steps:
                            for opname, m in [('delslice', 0)] + [('setslice', m) for m in nvals]:
                                tys = probe.raw_tys if t == 'raw' else probe.defs[k].tys
                                vals = [[tys[j % len(tys)], 50 + j, 1000 + j] for j in range(m)]
                                op = {'t': t, 'op': opname, 'a': a, 'b': b, 'c': c}
                                if k is not None:
                                    op['v'] = k
                                if opname == 'setslice':
                                    op['vals'] = vals
                                pre = [{'t': 'reg', 'v': j} for j in range(len(probe.defs))]

                                def on_step(fx, op, st):
                                    if op['t'] != 'reg':
                                        ctx.case(op_sig(fx, op, st))
                                        ctx.count(f'exh:{fx.kind}:{st.via}:{op["op"]}:{st.tag or "ok"}')
                                fx, lines, bad, done = run_one(setup, pre + [op], on_step)
                                total += 1
                                if bad:
                                    sig, what = bad[0]
                                    ctx.oracle_fail(sig, what, {'setup': setup, 'ops': done})
                                batches.append(({'setup': setup, 'ops': done}, lines, fx.internal_ok))
                                if with_model and len(batches) >= 20000:
                                    if ctx.extra.get('model_available', True):
                                        diff_with_model(ctx, batches)
                                    batches = []
    if with_model and batches and ctx.extra.get('model_available', True):
        diff_with_model(ctx, batches)
    ctx.extra['exhaustive_cases'] = ctx.extra.get('exhaustive_cases', 0) + total


def run_claim_probes(ctx, with_model=True):
    """Deterministic histories: all views registered and read, comments unclaimed, views read again, comments claimed
    again (the raw list changes under the registered views without a positional splice), then one edit through a
    view.  Fixtures with standalone comments in every comment-bearing field kind."""
    import random
    batches = []
    for seed in range(12):
        rng = random.Random(f'claimprobe:{seed}')
        for kind in ('directives', 'postings', 'meta-txn', 'meta-open', 'meta-posting'):
            setup = gen_setup(rng, kind, n=rng.choice([2, 3, 4]))
            if kind == 'directives' and ';' not in setup['text']:
                setup['text'] = '; lead\n\n' + setup['text'] + '\n; tail\n'
            if kind != 'directives' and not setup['pre']:
                setup['pre'].append({'i': 1, 'val': [COMMENT, 41, 100]})
            probe = Fixture(setup)
            ops = [{'t': 'reg', 'v': j} for j in range(len(probe.defs))]
            ops += [{'t': 'raw', 'op': 'unclaim'}, {'t': 'raw', 'op': 'claim'}, {'t': 'raw', 'op': 'unclaim'}, {'t': 'raw', 'op': 'claim'}]
            ops += [{'t': 'view', 'v': 0, 'op': 'pop', 'i': -1}]
            fx, lines, bad, done = run_one(setup, ops)
            ctx.case(('claim-probe', kind, seed, bool(bad)))
            ctx.count('claim-probe:' + kind)
            if bad:
                sig, what = bad[0]
                ctx.oracle_fail(sig, what, {'setup': setup, 'ops': [clean_op(o) for o in done]})
            batches.append(({'setup': setup, 'ops': [clean_op(o) for o in done]}, lines, fx.internal_ok))
    if with_model and ctx.extra.get('model_available', True):
        diff_with_model(ctx, batches)
