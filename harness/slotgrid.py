"""Deterministic slot grid (C03/C05/C06): in fixture documents rich in sibling values (FALSE / NULL / empty strings /
zero-width neighbours), every optional field of every model is toggled (removed then re-created, or created then
removed) and every required field replaced, with the given oracles evaluated after each step."""
from __future__ import annotations
import random
from autobean_refactor import models
from autobean_refactor.models import base
import edits, intro, session

FIXTURES = [
    'option "a" "b"\n'
    'plugin "p" "cfg" ; c\n'
    'plugin "q"\n'
    'pushmeta kk: FALSE\n'
    'pushmeta jj:\n'
    '2000-01-01 open Assets:A USD, EUR "STRICT" ; c\n'
    '  aa: FALSE\n'
    '  bb: TRUE ; note\n'
    '  cc: ""\n'
    '  dd:\n'
    '  ee: NULL\n'
    '2000-01-02 balance Assets:A 1 ~ 0.1 USD\n'
    '2000-01-02 balance Assets:A 2 USD ; c\n'
    '2000-01-03 * "payee" "narr" #t ^l ; c\n'
    '  kk: FALSE\n'
    '  ! Assets:A  1 USD {2 EUR, 2000-01-01} @ 3 GBP ; c\n'
    '    mm: FALSE\n'
    '  Assets:B\n'
    '  Assets:C  5 USD @@\n'
    '  Assets:D  {{}}\n'
    '2000-01-04 custom "x" TRUE FALSE\n'
    '2000-01-04 custom "y" "s" FALSE ; c\n'
    '2000-01-05 price USD 1 EUR\n'
    '2000-01-06 note Assets:A "n" #t\n'
    '2000-01-07 * \n'
    '  Assets:A  1 # 2 USD\n'.replace('  Assets:A  1 # 2 USD', '  Assets:A  1 USD {1 # 2 USD}') +
    '  Assets:B  {# 3 EUR}\n',
    # the same kinds of slots with NOTHING between neighbours wherever the grammar allows it (glued layouts), CRLF line ends
    '2000-01-03 * "payee" "narr" #t ^l;c\r\n'
    '  kk: FALSE;c\r\n'
    '  !Assets:A  1 USD{2 EUR,2000-01-01}@3 GBP;c\r\n'
    '    mm: "x";c\r\n'
    '  *Assets:B  -10.00 USD{{}}@@\r\n'
    '  Assets:C  5 USD {12.00# 3.00 USD}\r\n'
    '  Assets:D  5 USD {12.00#3.00 USD,"l",*}\r\n'
    '2000-01-02 balance Assets:A 1~0.1 USD;c\r\n'
    '2000-01-01 open Assets:A USD,EUR "STRICT";c\r\n'
    '2000-01-04 custom "y" "s" FALSE;c\r\n'
    '2000-01-06 note Assets:A "n" #t;c\r\n'
    'plugin "p" "cfg";c\r\n',
    # falsy values in optional slots: zero numbers, empty strings, FALSE, NULL - next to absent siblings
    'pushmeta zz: 0\n'
    'pushmeta nn: NULL\n'
    '2000-01-03 * "" ""\n'
    '  rate: 0\n'
    '  none: NULL\n'
    '  flag: FALSE\n'
    '  Assets:A  0\n'
    '  Assets:B  0.00 USD @ 0\n'
    '  Assets:C  1 USD {0 # 5 USD} @@ 0.00\n'
    '  Assets:D  5-5 USD {0.00 USD}\n'
    '    zero: 0.0\n'
    '2000-01-02 balance Assets:A 0 ~ 0 USD\n'
    '2000-01-04 custom "" 0 FALSE\n',
]


def ops_for(root, rng):
    """Yield (op, undo-op) pairs for every optional / required public slot of every model."""
    for path, m in list(intro.walk_api(root)):
        if isinstance(m, (base.RawTokenModel, models.NumberAddExpr, models.NumberMulExpr)):
            continue
        api = intro.api_props(type(m))
        fields = {name: (kind, tys) for name, kind, tys, _ in intro.class_fields(type(m))}
        for raw, f in api['opt'].items():
            if not raw.startswith('raw_') or f == '_dedent_mark':
                continue
            if isinstance(m, models.Transaction) and f in ('_string0', '_string1', '_string2'):
                continue
            kind, tys = fields[f]
            cur = getattr(m, raw)
            indent = m.raw_indent.value if hasattr(m, 'raw_indent') else ''
            ty = type(cur) if cur is not None else tys[0]
            donor = edits.gen_value_for(rng, ty, indent=indent)
            if donor is None:
                continue
            base_op = {'k': 'setattr', 'kind': 'opt-set', 'path': list(path), 'attr': raw, 'parent': list(path), 'field': f}
            if cur is not None:
                yield [{**base_op, 'val': {'t': 'none'}}, {**base_op, 'val': donor}]
            else:
                yield [{**base_op, 'val': donor}, {**base_op, 'val': {'t': 'none'}}]


def run(ctx, oracles, prefix=''):
    rng = random.Random('slotgrid')
    for text in FIXTURES:
        root = edits.P().parse(text, models.File)
        for pair in ops_for(root, rng):
            fails, outcomes = session.run_history(text, True, pair, list(oracles))
            ctx.case(('slotgrid', tuple(pair[0]['path'][-3:]), pair[0]['attr'], pair[0]['val']['t'] == 'none', tuple(o[0] for o in outcomes)))
            ctx.count('slotgrid:' + pair[0]['attr'])
            if fails:
                sig, what = fails[0]
                ctx.oracle_fail(prefix + sig, what + f' [slot grid {pair[0]["path"]} {pair[0]["attr"]}]',
                                {'text': text, 'auto_claim': True, 'ops': pair, 'oracles': list(oracles)})
