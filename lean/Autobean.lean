-- Root of the `Autobean` library: models, proofs, property theorems, obligations.
import Autobean.Model.Pos
import Autobean.Model.Store
