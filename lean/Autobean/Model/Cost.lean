/-
Model of `autobean_refactor/models/cost_spec.py` (`CostSpec`) together with the parts of
`internal/properties.py` (`unordered_node_property`) and `internal/value_properties.py`
(`optional_decimal/string/date_property`) it is built from.

A cost is `{ … }` (`UnitCost`) or `{{ … }}` (`TotalCost`) around an *unordered* list of components.
Values are opaque ids (`Nat`): the model says which value sits where, never what it looks like.
Python `raise ValueError(...)` is `Except.error "ValueError:cost"`.

Abstraction used for "in place" updates: `amount.raw_number = value`, `compound.raw_number_per = value`,
`number_expr.value = v` … change one child of the first component of some type; on this model that is
the replacement of that component, at its index, by the updated one (`urepl`).
-/
namespace Autobean.Cost

abbrev V := Nat   -- number value ids
abbrev Cu := Nat  -- currency value ids
abbrev Dt := Nat  -- date value ids
abbrev St := Nat  -- label (string) value ids

/-- One cost component (`CostComponent = Amount | CompoundAmount | NumberExpr | Currency | Date |
EscapedString | Asterisk`). -/
inductive Comp where
  | compound (per tot : Option V) (cur : Cu)
  | amount (n : V) (c : Cu)
  | number (n : V)
  | currency (c : Cu)
  | date (d : Dt)
  | label (s : St)
  | asterisk
deriving DecidableEq, Repr, Inhabited

/-- The Python type of a component (what `isinstance(item, inner_type)` tests). -/
inductive Kind where
  | compound | amount | number | currency | date | label | asterisk
deriving DecidableEq, Repr, Inhabited

def Comp.kind : Comp → Kind
  | .compound .. => .compound
  | .amount .. => .amount
  | .number .. => .number
  | .currency .. => .currency
  | .date .. => .date
  | .label .. => .label
  | .asterisk => .asterisk

/-- `CostSpec`: `total` = the `raw_cost` is a `TotalCost` (double braces); `comps` = `raw_cost.raw_components`. -/
structure Cost where
  total : Bool
  comps : List Comp
deriving DecidableEq, Repr, Inhabited

/-! ### `unordered_node_property` -/

/-- `unordered_node_property._get`: first item of the type. -/
def ufind (k : Kind) : List Comp → Option Comp
  | [] => none
  | x :: xs => if x.kind = k then some x else ufind k xs

/-- `wrapper.pop(i)` for `i` = index of the first item of the type. -/
def upop (k : Kind) : List Comp → List Comp
  | [] => []
  | x :: xs => if x.kind = k then xs else x :: upop k xs

/-- `wrapper[i] = y` for `i` = index of the first item of the type (also: in-place update of that item). -/
def urepl (k : Kind) (y : Comp) : List Comp → List Comp
  | [] => []
  | x :: xs => if x.kind = k then y :: xs else x :: urepl k y xs

/-- `unordered_node_property.__set__` (`value`, when present, has type `k`). -/
def uset (k : Kind) (prepend : Bool) (value : Option Comp) (l : List Comp) : List Comp :=
  match ufind k l, value with
  | none, some y => if prepend then y :: l else l ++ [y]     -- insert(0, value) / append(value)
  | some _, none => upop k l                                  -- wrapper.pop(i)
  | some _, some y => urepl k y l                             -- wrapper[i] = value
  | none, none => l

/-! Typed views of the seven `raw_*_comp` properties (`prepend=True` for the first four). -/

def findCompound (l : List Comp) : Option (Option V × Option V × Cu) :=
  match ufind .compound l with
  | some (.compound p t c) => some (p, t, c)
  | _ => none

def findAmount (l : List Comp) : Option (V × Cu) :=
  match ufind .amount l with
  | some (.amount n c) => some (n, c)
  | _ => none

def findNumber (l : List Comp) : Option V :=
  match ufind .number l with
  | some (.number n) => some n
  | _ => none

def findCurrency (l : List Comp) : Option Cu :=
  match ufind .currency l with
  | some (.currency c) => some c
  | _ => none

def findDate (l : List Comp) : Option Dt :=
  match ufind .date l with
  | some (.date d) => some d
  | _ => none

def findLabel (l : List Comp) : Option St :=
  match ufind .label l with
  | some (.label s) => some s
  | _ => none

def hasAsterisk (l : List Comp) : Bool := (ufind .asterisk l).isSome

def setCompoundComp (v : Option Comp) := uset .compound true v
def setAmountComp (v : Option Comp) := uset .amount true v
def setNumberComp (v : Option Comp) := uset .number true v
def setCurrencyComp (v : Option Comp) := uset .currency true v
def setDateComp (v : Option Comp) := uset .date false v
def setLabelComp (v : Option Comp) := uset .label false v
def setAsteriskComp (v : Option Comp) := uset .asterisk false v

/-! ### Getters (`raw_number_per`, `raw_number_total`, `raw_currency`, `raw_date`, `raw_label`, `merge`),
read through the value-level properties. -/

/-- `CostSpec.number_per`. -/
def per (c : Cost) : Option V :=
  match findCompound c.comps with
  | some (p, _, _) => p
  | none =>
    if c.total then none                       -- not isinstance(raw_cost, UnitCost)
    else match findAmount c.comps with
      | some (n, _) => some n
      | none => findNumber c.comps

/-- `CostSpec.number_total`. -/
def tot (c : Cost) : Option V :=
  match findCompound c.comps with
  | some (_, t, _) => t
  | none =>
    if !c.total then none                      -- not isinstance(raw_cost, TotalCost)
    else match findAmount c.comps with
      | some (n, _) => some n
      | none => findNumber c.comps

/-- `CostSpec.currency`. -/
def cur (c : Cost) : Option Cu :=
  match findCompound c.comps with
  | some (_, _, cu) => some cu
  | none =>
    match findAmount c.comps with
    | some (_, cu) => some cu
    | none => findCurrency c.comps

def date (c : Cost) : Option Dt := findDate c.comps
def label (c : Cost) : Option St := findLabel c.comps
def merge (c : Cost) : Bool := hasAsterisk c.comps

/-! ### Raw setters of `cost_spec.py`, branch by branch, in statement order. -/

def errCost : String := "ValueError:cost"

/-- `CostSpec.__raw_number_per` (setter of `raw_number_per`). -/
def setPer (value : Option V) (c : Cost) : Except String Cost :=
  match findCompound c.comps with
  | some (_, t, cu) =>                                   -- CompoundAmount: compound_amount.raw_number_per = value
    .ok { c with comps := urepl .compound (.compound value t cu) c.comps }
  | none =>
    if !c.total then                                     -- isinstance(raw_cost, UnitCost)
      match findAmount c.comps with
      | some (_, cu) =>
        match value with
        | some v =>                                      -- Amount(per): amount.raw_number = value
          .ok { c with comps := urepl .amount (.amount v cu) c.comps }
        | none =>                                        -- Amount(per) - Number(per) -> Currency
          let l1 := setCurrencyComp (some (.currency cu)) c.comps
          .ok { c with comps := setAmountComp none l1 }
      | none =>
        match findCurrency c.comps, value with
        | some cu, some v =>                             -- Currency + Number(per) -> Amount(per)
          let l1 := setAmountComp (some (.amount v cu)) c.comps
          .ok { c with comps := setCurrencyComp none l1 }
        | _, _ =>                                        -- Number(per)
          .ok { c with comps := setNumberComp (value.map .number) c.comps }
    else                                                 -- isinstance(raw_cost, TotalCost) and value
      match value with
      | none => .ok c
      | some v =>
        match findAmount c.comps with
        | some (n, cu) =>                                -- Amount(total) + Number(per) -> CompoundAmount
          let l1 := setCompoundComp (some (.compound (some v) (some n) cu)) c.comps
          .ok { total := false, comps := setAmountComp none l1 }      -- _into_unit_cost
        | none =>
          match findCurrency c.comps with
          | some cu =>                                   -- Currency(total) + Number(per) -> Amount(per)
            let l1 := setAmountComp (some (.amount v cu)) c.comps
            .ok { total := false, comps := setCurrencyComp none l1 }
          | none =>
            match findNumber c.comps with
            | some _ => .error errCost                   -- Number(total) + Number(per) -> error
            | none =>                                    -- /(total) + Number(per) -> Number(per)
              .ok { total := false, comps := setNumberComp (some (.number v)) c.comps }

/-- `CostSpec.__raw_number_total` (setter of `raw_number_total`). -/
def setTotal (value : Option V) (c : Cost) : Except String Cost :=
  match findCompound c.comps with
  | some (p, _, cu) =>                                   -- CompoundAmount: compound_amount.raw_number_total = value
    .ok { c with comps := urepl .compound (.compound p value cu) c.comps }
  | none =>
    if c.total then                                      -- isinstance(raw_cost, TotalCost)
      match findAmount c.comps with
      | some (_, cu) =>
        match value with
        | some v =>                                      -- Amount(total): amount.raw_number = value
          .ok { c with comps := urepl .amount (.amount v cu) c.comps }
        | none =>                                        -- Amount(total) - Number(total) -> Currency
          let l1 := setCurrencyComp (some (.currency cu)) c.comps
          .ok { c with comps := setAmountComp none l1 }
      | none =>
        match findCurrency c.comps, value with
        | some cu, some v =>                             -- Currency + Number(total) -> Amount(total)
          let l1 := setAmountComp (some (.amount v cu)) c.comps
          .ok { c with comps := setCurrencyComp none l1 }
        | _, _ =>                                        -- Number(total)
          .ok { c with comps := setNumberComp (value.map .number) c.comps }
    else                                                 -- isinstance(raw_cost, UnitCost) and value
      match value with
      | none => .ok c
      | some v =>
        match findAmount c.comps with
        | some (n, cu) =>                                -- Amount(per) + Number(total) -> CompoundAmount (stays UnitCost)
          let l1 := setCompoundComp (some (.compound (some n) (some v) cu)) c.comps
          .ok { c with comps := setAmountComp none l1 }
        | none =>
          match findCurrency c.comps with
          | some cu =>                                   -- Currency(per) + Number(total) -> Amount(total)
            let l1 := setAmountComp (some (.amount v cu)) c.comps
            .ok { total := true, comps := setCurrencyComp none l1 }   -- _into_total_cost
          | none =>
            match findNumber c.comps with
            | some _ => .error errCost                   -- Number(per) + Number(total) -> error
            | none =>                                    -- /(per) + Number(total) -> Number(total)
              .ok { total := true, comps := setNumberComp (some (.number v)) c.comps }

/-- `CostSpec.__raw_currency` (setter of `raw_currency`). -/
def setCur (value : Option Cu) (c : Cost) : Except String Cost :=
  match findCompound c.comps with
  | some (p, t, _) =>
    match value with
    | some v =>                                          -- CompoundAmount: compound_amount.raw_currency = value
      .ok { c with comps := urepl .compound (.compound p t v) c.comps }
    | none =>                                            -- CompoundAmount - Currency
      let r : Except String Cost :=
        match p, t, c.total with
        | some n, none, false => .ok { c with comps := setNumberComp (some (.number n)) c.comps }
        | some n, none, true => .ok { total := false, comps := setNumberComp (some (.number n)) c.comps }
        | none, some n, true => .ok { c with comps := setNumberComp (some (.number n)) c.comps }
        | none, some n, false => .ok { total := true, comps := setNumberComp (some (.number n)) c.comps }
        | some _, some _, _ => .error errCost
        | none, none, _ => .ok c                         -- no `case` matches
      match r with
      | .ok c1 => .ok { c1 with comps := setCompoundComp none c1.comps }
      | .error e => .error e
  | none =>
    match findAmount c.comps with
    | some (n, _) =>
      match value with
      | some v =>                                        -- Amount: amount.raw_currency = value
        .ok { c with comps := urepl .amount (.amount n v) c.comps }
      | none =>                                          -- Amount - Currency -> Number
        let l1 := setNumberComp (some (.number n)) c.comps
        .ok { c with comps := setAmountComp none l1 }
    | none =>
      match findNumber c.comps, value with
      | some n, some v =>                                -- Number + Currency -> Amount
        let l1 := setAmountComp (some (.amount n v)) c.comps
        .ok { c with comps := setNumberComp none l1 }
      | _, _ =>                                          -- Currency
        .ok { c with comps := setCurrencyComp (value.map .currency) c.comps }

/-- `raw_date = raw_date_comp`, `raw_label = raw_label_comp`, `raw_asterisk = raw_asterisk_comp`. -/
def setDateRaw (value : Option Dt) (c : Cost) : Cost := { c with comps := setDateComp (value.map .date) c.comps }
def setLabelRaw (value : Option St) (c : Cost) : Cost := { c with comps := setLabelComp (value.map .label) c.comps }
def setAsteriskRaw (value : Bool) (c : Cost) : Cost :=
  { c with comps := setAsteriskComp (if value then some .asterisk else none) c.comps }

/-! ### Value-level properties: `optional_decimal/string/date_property.__set__`:
`current is not None and value is not None` → `current.value = value` (in place), else the raw setter
with `inner_type.from_value(value)` / `None`. -/

/-- `current.value = v` for `current = raw_number_per` (the node the getter returned). -/
def updPer (v : V) (c : Cost) : Cost :=
  match findCompound c.comps with
  | some (_, t, cu) => { c with comps := urepl .compound (.compound (some v) t cu) c.comps }
  | none =>
    match findAmount c.comps with
    | some (_, cu) => { c with comps := urepl .amount (.amount v cu) c.comps }
    | none => { c with comps := urepl .number (.number v) c.comps }

def updTotal (v : V) (c : Cost) : Cost :=
  match findCompound c.comps with
  | some (p, _, cu) => { c with comps := urepl .compound (.compound p (some v) cu) c.comps }
  | none =>
    match findAmount c.comps with
    | some (_, cu) => { c with comps := urepl .amount (.amount v cu) c.comps }
    | none => { c with comps := urepl .number (.number v) c.comps }

def updCur (v : Cu) (c : Cost) : Cost :=
  match findCompound c.comps with
  | some (p, t, _) => { c with comps := urepl .compound (.compound p t v) c.comps }
  | none =>
    match findAmount c.comps with
    | some (n, _) => { c with comps := urepl .amount (.amount n v) c.comps }
    | none => { c with comps := urepl .currency (.currency v) c.comps }

/-- `CostSpec.number_per = value`. -/
def setPerV (value : Option V) (c : Cost) : Except String Cost :=
  match per c, value with
  | some _, some v => .ok (updPer v c)
  | _, _ => setPer value c

/-- `CostSpec.number_total = value`. -/
def setTotalV (value : Option V) (c : Cost) : Except String Cost :=
  match tot c, value with
  | some _, some v => .ok (updTotal v c)
  | _, _ => setTotal value c

/-- `CostSpec.currency = value`. -/
def setCurV (value : Option Cu) (c : Cost) : Except String Cost :=
  match cur c, value with
  | some _, some v => .ok (updCur v c)
  | _, _ => setCur value c

/-- `CostSpec.date = value`. -/
def setDateV (value : Option Dt) (c : Cost) : Cost :=
  match date c, value with
  | some _, some v => { c with comps := urepl .date (.date v) c.comps }
  | _, _ => setDateRaw value c

/-- `CostSpec.label = value`. -/
def setLabelV (value : Option St) (c : Cost) : Cost :=
  match label c, value with
  | some _, some v => { c with comps := urepl .label (.label v) c.comps }
  | _, _ => setLabelRaw value c

/-- `CostSpec.merge = value`. -/
def setMerge (value : Bool) (c : Cost) : Cost :=
  let current := merge c
  if current && !value then setAsteriskRaw false c
  else if !current && value then setAsteriskRaw true c
  else c

/-! ### Assignments -/

/-- One assignment `cost.<property> = value`. -/
inductive Assign where
  | per (v : Option V)
  | tot (v : Option V)
  | cur (v : Option Cu)
  | date (v : Option Dt)
  | label (v : Option St)
  | merge (b : Bool)
deriving DecidableEq, Repr, Inhabited

/-- Assignment through the raw property (`raw_number_per = NumberExpr | None`, …, `raw_asterisk`). -/
def Assign.applyRaw : Assign → Cost → Except String Cost
  | .per v, c => setPer v c
  | .tot v, c => setTotal v c
  | .cur v, c => setCur v c
  | .date v, c => .ok (setDateRaw v c)
  | .label v, c => .ok (setLabelRaw v c)
  | .merge b, c => .ok (setAsteriskRaw b c)

/-- Assignment through the value-level property (`number_per = Decimal | None`, …, `merge = bool`). -/
def Assign.applyVal : Assign → Cost → Except String Cost
  | .per v, c => setPerV v c
  | .tot v, c => setTotalV v c
  | .cur v, c => setCurV v c
  | .date v, c => .ok (setDateV v c)
  | .label v, c => .ok (setLabelV v c)
  | .merge b, c => .ok (setMerge b c)

/-- An operation of a history: which property level, which assignment. -/
structure Op where
  raw : Bool
  a : Assign
deriving DecidableEq, Repr, Inhabited

def Op.apply (o : Op) (c : Cost) : Except String Cost :=
  if o.raw then o.a.applyRaw c else o.a.applyVal c

/-! ### Specification: a record of optionals -/

structure Rec where
  per : Option V
  tot : Option V
  cur : Option Cu
  date : Option Dt
  label : Option St
  merge : Bool
deriving DecidableEq, Repr, Inhabited

/-- The only forbidden combination: both numbers without a currency
(`'Cannot set both number_per and number_total without a currency.'` /
`'Cannot remove currency from compound amount with both numbers.'`). -/
def Rec.bad (r : Rec) : Bool := r.per.isSome && r.tot.isSome && r.cur.isNone

def Rec.Ok (r : Rec) : Prop := r.bad = false

instance (r : Rec) : Decidable r.Ok := inferInstanceAs (Decidable (_ = _))

/-- Plain field update. -/
def Rec.set : Assign → Rec → Rec
  | .per v, r => { r with per := v }
  | .tot v, r => { r with tot := v }
  | .cur v, r => { r with cur := v }
  | .date v, r => { r with date := v }
  | .label v, r => { r with label := v }
  | .merge b, r => { r with merge := b }

/-- An assignment is rejected iff the updated record would be the forbidden combination. -/
def Rec.rejects (a : Assign) (r : Rec) : Bool := (Rec.set a r).bad

/-- What the six getters of a `CostSpec` read. -/
def view (c : Cost) : Rec :=
  { per := per c, tot := tot c, cur := cur c, date := date c, label := label c, merge := merge c }

/-! ### The invariant of the documented forms -/

def cnt (k : Kind) (l : List Comp) : Nat := l.countP (fun x => x.kind = k)

/-- At most one main component (compound amount / amount / number / currency), at most one date, one label,
one asterisk: what parsing `{}`, `{{}}`, `{N}`, `{C}`, `{N C}`, `{[N] # [N] C}` with optional date, label
and `*` in any order produces. -/
def Canon (c : Cost) : Prop :=
  cnt .compound c.comps + cnt .amount c.comps + cnt .number c.comps + cnt .currency c.comps ≤ 1 ∧
  cnt .date c.comps ≤ 1 ∧ cnt .label c.comps ≤ 1 ∧ cnt .asterisk c.comps ≤ 1

instance (c : Cost) : Decidable (Canon c) := inferInstanceAs (Decidable (_ ∧ _ ∧ _ ∧ _))

/-! ### Histories -/

/-- One step of the concrete run: a refused assignment leaves the cost unchanged. Returns (accepted?, state). -/
def stepC (o : Op) (c : Cost) : Bool × Cost :=
  match o.apply c with
  | .ok c' => (true, c')
  | .error _ => (false, c)

/-- One step of the record run. -/
def stepR (o : Op) (r : Rec) : Bool × Rec :=
  if Rec.rejects o.a r then (false, r) else (true, Rec.set o.a r)

/-- The trace of a history: outcome and state after every step. -/
def runC : List Op → Cost → List (Bool × Cost)
  | [], _ => []
  | o :: os, c => let s := stepC o c; s :: runC os s.2

def runR : List Op → Rec → List (Bool × Rec)
  | [], _ => []
  | o :: os, r => let s := stepR o r; s :: runR os s.2

/-! ### `CostSpec.from_value` -/

def fromValue (r : Rec) : Except String Cost :=
  let main : Except String (Bool × List Comp) :=
    match r.per, r.tot with
    | some p, some t =>
      match r.cur with
      | none => .error errCost
      | some cu => .ok (false, [.compound (some p) (some t) cu])
    | some p, none =>
      match r.cur with
      | none => .ok (false, [.number p])
      | some cu => .ok (false, [.amount p cu])
    | none, some t =>
      match r.cur with
      | none => .ok (true, [.number t])
      | some cu => .ok (true, [.amount t cu])
    | none, none =>
      match r.cur with
      | some cu => .ok (false, [.currency cu])
      | none => .ok (false, [])
  match main with
  | .error e => .error e
  | .ok (total, comps) =>
    let comps := match r.date with | some d => comps ++ [.date d] | none => comps
    let comps := match r.label with | some s => comps ++ [.label s] | none => comps
    let comps := if r.merge then comps ++ [.asterisk] else comps
    .ok { total := total, comps := comps }

/-! ### The documented start forms -/

/-- Main component of a start form. -/
def Comp.isMain : Comp → Bool
  | .compound .. | .amount .. | .number .. | .currency .. => true
  | _ => false

/-- `{main?, date?, label?, *?}` in this order; other orders are permutations of it. -/
def mkForm (main : Option Comp) (d : Option Dt) (s : Option St) (m : Bool) : List Comp :=
  main.toList ++ (d.map Comp.date).toList ++ (s.map Comp.label).toList ++ (if m then [.asterisk] else [])

end Autobean.Cost
