/-
Model of `_disambiguate_values` (autobean_refactor/models/custom.py): the helper behind `Custom.from_children` /
`Custom.from_value` that keeps a sign-leading number (or amount) from being swallowed by the number expression in
front of it.  Values of a custom entry are juxtaposed, so `10 -2` is ONE expression; the helper writes `10 (-2)`.

A value is abstracted to what the helper and the reader look at: its kind (number expression / amount / anything
else) and whether the first token of its number is a unary sign.
-/
namespace Autobean.CustomVals

inductive Kind where
  | num      -- NumberExpr
  | amount   -- Amount (number expression followed by a currency)
  | other    -- string, date, bool, account
deriving DecidableEq, Repr

structure CVal where
  kind : Kind
  sign : Bool      -- the first token of its number is a unary sign (`-2`, `+ 3 USD`); false for `other`
deriving DecidableEq, Repr

/-- One iteration of the loop: `prev` is a NumberExpr, the value has a number, that number starts with a unary sign
⇒ `number.wrap_with_parenthesis()` (its first token becomes `(`).  Returns the value as yielded and whether it was
wrapped. -/
def step (prevIsNum : Bool) (v : CVal) : CVal × Bool :=
  if prevIsNum && (v.kind != .other) && v.sign then ({ v with sign := false }, true) else (v, false)

/-- The loop (`prev = value` after every yield; `prev = None` at the start). -/
def disambFrom : Bool → List CVal → List (CVal × Bool)
  | _, [] => []
  | p, v :: vs => let r := step p v; r :: disambFrom (decide (r.1.kind = .num)) vs

def disamb (vs : List CVal) : List (CVal × Bool) := disambFrom false vs

/-- The reader: a number expression directly followed by a value whose number starts with a sign reads as ONE
expression (`a -b` is `a - b`). -/
def merges (a b : CVal) : Bool := decide (a.kind = .num) && (b.kind != .other) && b.sign

/-- How many adjacent pairs the reader merges (every merge loses one value: the result of `num sign-num` is a num,
of `num sign-amount` an amount, so the pairwise count is exact). -/
def mergeCount : List CVal → Nat
  | a :: b :: rest => (if merges a b then 1 else 0) + mergeCount (b :: rest)
  | _ => 0

/-- The number of values the printed sequence reads back as. -/
def readCount (vs : List CVal) : Nat := vs.length - mergeCount vs

end Autobean.CustomVals
