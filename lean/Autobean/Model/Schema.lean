/-
Schema of a generated model class as the translator (extract/extract.py) reads it from
`models/generated/*.py`, and the decidable well-formedness predicates the property theorems rely on.
`Autobean/Generated/Schema.lean` is regenerated from the source on every run; `Autobean/Obligations/*.lean`
discharges these predicates for the regenerated tables by kernel evaluation.

Field kinds: 0 required, 1 optional-left, 2 optional-right, 3 repeated.
-/
namespace Autobean.Schema

structure FieldDecl where
  name : String
  kind : Nat
  seps : List (String × String)              -- (token class, DEFAULT text)
  sepsBefore : Option (List (String × String))
deriving DecidableEq, Repr

structure ChainPart where
  field : String
  border : String
  guarded : Bool
deriving DecidableEq, Repr

structure ClassSchema where
  name : String
  rule : String
  hasIndentBy : Bool
  fields : List FieldDecl
  pivots : List (String × List ChainPart)
  firstToken : List ChainPart
  lastToken : List ChainPart
  cloneFields : List String
  cloneIndentBy : Bool
  reattachFields : List String
  reattachStore : Bool
  eqFields : List String
  eqIsinstance : String
  fromChildren : List String
  fromChildrenReattach : List String
  autoClaim : List String
  iterChildren : List String
  props : List (String × String × List String)
  pivotDecorators : List (String × List String)
deriving Repr

def fieldNames (c : ClassSchema) : List String := c.fields.map (·.name)

/-- The chain the template generates (`ModelDescriptor.pivot_token`): walk the given fields; a required
field ends the chain (plain), an optional one is guarded (`f and f.border`), a repeated one is plain and the
walk continues. -/
def canonicalChain (border : String) : List FieldDecl → List ChainPart
  | [] => []
  | f :: fs =>
    if f.kind = 0 then [⟨f.name, border, false⟩]
    else if f.kind = 3 then ⟨f.name, border, false⟩ :: canonicalChain border fs
    else ⟨f.name, border, true⟩ :: canonicalChain border fs

/-- A chain always yields a token: it ends in a required or contains a repeated field (both never `None`). -/
def chainTotal (fields : List FieldDecl) (ch : List ChainPart) : Bool :=
  ch.any fun p => !p.guarded && (fields.any fun f => f.name = p.field && (f.kind = 0 || f.kind = 3))

def fieldsAfter (c : ClassSchema) (n : String) : List FieldDecl :=
  (c.fields.dropWhile (·.name ≠ n)).drop 1

def fieldsBeforeRev (c : ClassSchema) (n : String) : List FieldDecl :=
  (c.fields.takeWhile (·.name ≠ n)).reverse

def pivotName (f : String) : String := f ++ "_pivot"

/-- Every optional field has a pivot property whose chain is the canonical one: for an optional-left field
the preceding fields right-to-left (`last_token`), for an optional-right field the following fields
left-to-right (`first_token`). -/
def pivotsCanonical (c : ClassSchema) : Bool :=
  c.fields.all fun f =>
    if f.kind = 1 then
      c.pivots.lookup (pivotName f.name) == some (canonicalChain "last_token" (fieldsBeforeRev c f.name))
    else if f.kind = 2 then
      c.pivots.lookup (pivotName f.name) == some (canonicalChain "first_token" (fieldsAfter c f.name))
    else true

def firstLastCanonical (c : ClassSchema) : Bool :=
  c.firstToken == canonicalChain "first_token" c.fields &&
  c.lastToken == canonicalChain "last_token" c.fields.reverse &&
  chainTotal c.fields c.firstToken && chainTotal c.fields c.lastToken

def pivotsTotal (c : ClassSchema) : Bool :=
  c.pivots.all fun p => chainTotal c.fields p.2

/-- `clone` passes every field in declaration order (and `indent_by` when the class has it). -/
def cloneComplete (c : ClassSchema) : Bool :=
  c.cloneFields == fieldNames c && c.cloneIndentBy == c.hasIndentBy

/-- `_reattach` rebinds the store and re-attaches every field. -/
def reattachComplete (c : ClassSchema) : Bool :=
  c.reattachStore && c.reattachFields == fieldNames c

/-- `_eq` tests `isinstance(other, <this class>)` and compares every field (and `indent_by`). -/
def eqComplete (c : ClassSchema) : Bool :=
  c.eqIsinstance == c.name &&
  c.eqFields == fieldNames c ++ (if c.hasIndentBy then ["indent_by"] else [])

def stripUnderscore (s : String) : String := if s.startsWith "_" then (s.drop 1).toString else s

/-- A field is public when a raw property is wired to it (labels, end-of-line and dedent marks, brackets are
private). -/
def isPublic (c : ClassSchema) (f : FieldDecl) : Bool := c.props.any fun p => p.2.2.head? == some f.name

/-- `auto_claim_comments`: own leading, own trailing (when the class has surrounding comments), then the
public fields last-to-first (repeated fields through their wrapper property, so that interleaving comments
are claimed too). -/
def autoClaimCanonical (c : ClassSchema) : Bool :=
  let hasSurround := c.fields.any (·.name = "_leading_comment")
  let pre := if hasSurround then ["self:claim_leading_comment", "self:claim_trailing_comment"] else []
  let rest := c.autoClaim.drop pre.length
  let pub := (c.fields.filter (isPublic c)).reverse
  c.autoClaim.take pre.length == pre &&
  rest.length == pub.length &&
  (rest.zip pub).all fun (a, f) =>
    if f.kind = 3 then (c.props.any fun p => "prop:" ++ p.1 == a && p.2.2.head? == some f.name)
    else a == "field:" ++ f.name

/-- Separators may be empty only for the deliberate adjacencies (C06): parentheses, braces, unary operator,
the end-of-line mark, the dedent mark. -/
def emptySepAllowed : List (String × String) :=
  [("NumberUnaryExpr", "_operand"), ("NumberParenExpr", "_inner_expr"), ("NumberParenExpr", "_right_paren"),
   ("UnitCost", "_right_brace"), ("TotalCost", "_dbl_right_brace")]

def sepText (s : List (String × String)) : String := String.join (s.map (·.2))

/-- Optional and repeated fields have non-empty separators unless they are zero-width marks
(`_dedent_mark`) — so that two significant tokens never become adjacent through an insertion. -/
def separatorsNonEmpty (c : ClassSchema) : Bool :=
  c.fields.all fun f =>
    if f.kind = 0 then true
    else if f.name = "_dedent_mark" then true
    else sepText f.seps != ""

/-- The token sequence of `from_children` mentions every field once, in declaration order (literal
separators in between are allowed), and every field is re-attached. -/
def fromChildrenCanonical (c : ClassSchema) : Bool :=
  let mentioned := c.fromChildren.filterMap fun s =>
    if s.startsWith "F:" then some ((s.drop 2).toString)
    else if s.startsWith "D:" then some ("_" ++ (s.drop 2).toString)
    else none
  let opt := c.fields.filter (·.kind ≠ 0) |>.map (·.name)
  -- optional / repeated fields go through `detach_with_separators` in declaration order
  (c.fromChildren.filterMap fun s => if s.startsWith "F:" then some ((s.drop 2).toString) else none) == opt &&
  mentioned.length == c.fields.length &&
  c.fromChildrenReattach == fieldNames c

/-- Pivots are recomputed from the current fields on every use: each `_x_pivot` is a plain
`custom_property`, never a cached one (an insertion point cached across edits of the earlier siblings is
stale — the slot theorems evaluate the chain on the current state). -/
def pivotsNotCached (c : ClassSchema) : Bool :=
  c.pivotDecorators.length == c.pivots.length &&
  c.pivotDecorators.all fun p => p.2 == ["custom_property"]

def ClassSchema.WF (c : ClassSchema) : Bool :=
  pivotsCanonical c && firstLastCanonical c && pivotsTotal c && cloneComplete c && reattachComplete c &&
  eqComplete c && autoClaimCanonical c && separatorsNonEmpty c && pivotsNotCached c

end Autobean.Schema
