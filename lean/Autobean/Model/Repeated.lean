/-
`properties.py` `RepeatedNodeWrapper` at the TOKEN level, over the abstract store of `Model/Seq.lean`.

A repeated region is described by the id of its placeholder token and the list of item spans
(`first_token` / `last_token` ids of `self._repeated.items`).  Every definition below is the transcription
of one Python method and computes its reference tokens with `prev` / `next` exactly as the Python does
with `get_prev` / `get_next`:

  _prev_last      -> `prevLast`
  _insert_tokens  -> `insStep` (one loop iteration, the three branches) / `insLoop` / `insertTokens`
  _del_tokens     -> `delTokens` (both branches)
  __setitem__     -> `setItemInt`, `setSlice` (step 1: delete then insert, incl. the collapsed reversed
                     range; other steps: `setExtLoop`)
  __delitem__     -> `delItemInt`, `delSlice`
  insert / append / extend / clear / pop / drop_many -> same names
  indexes.py range_from_index / slice_from_range -> `pyIndex`, `sliceIndices`, `rangeElems`

`copy.deepcopy(self._separators)` allocates new token objects: `copySeps seps ctr` gives them the ids
`ctr, ctr+1, …` (a counter threaded through the state, in allocation order).
A value is the list of its detached tokens (`value.detach()`); its span is (head id, last id).
Python raising is `Except.error` with the harness tag (`IndexError`, `ValueError:size`, `AssertionError`,
`ValueError:not-in-store`).
-/
import Autobean.Model.Seq

namespace Autobean.Rep
open Autobean.Seq

structure Span where
  first : Nat
  last : Nat
deriving DecidableEq, Repr

/-- The wrapper's constants: `self._separators`, `self._separators_before` (already defaulted to
`separators` when the field declares none) and the placeholder token. -/
structure Cfg where
  seps : List Tk
  sepsBefore : List Tk
  ph : Nat
deriving Repr

/-- The mutable state: the store, `self._repeated.items` and the allocation counter. -/
structure St where
  store : List Tk
  items : List Span
  ctr : Nat
deriving Repr

/-- `copy.deepcopy(separators)`: same kinds and texts, new identities `c, c+1, …`. -/
def copySeps : List Tk → Nat → List Tk
  | [], _ => []
  | t :: ts, c => { t with id := c } :: copySeps ts (c + 1)

/-- Span of a free-standing value from its token list. -/
def spanOf (v : List Tk) : Span :=
  ⟨(v.head?.map (·.id)).getD 0, (v.getLast?.map (·.id)).getD 0⟩

/-! ### Python indexing (`indexes.py`, CPython list/slice/range semantics) -/

/-- `range(n)[i]` / `list[i]` for an int index: `none` = IndexError. -/
def pyIndex (i : Int) (n : Nat) : Option Nat :=
  if 0 ≤ i then (if i < n then some i.toNat else none)
  else (if 0 ≤ i + n then some (i + n).toNat else none)

/-- One bound of `slice.indices(len)` (`PySlice_AdjustIndices`). -/
def adjustBound (v : Int) (len : Nat) (neg : Bool) : Int :=
  if v < 0 then
    (if v + len < 0 then (if neg then -1 else 0) else v + len)
  else if v ≥ len then (if neg then (len : Int) - 1 else len)
  else v

/-- `slice(start, stop, step).indices(len)`; `range(len)[slice]` is `range` of the result. -/
def sliceIndices (start stop step : Option Int) (len : Nat) : R (Int × Int × Int) :=
  let k := step.getD 1
  if k = 0 then .error "ValueError:other"
  else
    let neg := decide (k < 0)
    let s := match start with
      | none => if neg then (len : Int) - 1 else 0
      | some v => adjustBound v len neg
    let e := match stop with
      | none => if neg then -1 else (len : Int)
      | some v => adjustBound v len neg
    .ok (s, e, k)

/-- `len(range(s, e, k))`. -/
def rangeLen (s e k : Int) : Nat :=
  if k > 0 then (if s < e then ((e - s - 1) / k + 1).toNat else 0)
  else if k < 0 then (if e < s then ((s - e - 1) / (-k) + 1).toNat else 0)
  else 0

/-- `list(range(s, e, k))` (elements are list positions, hence naturals). -/
def rangeElems (s e k : Int) : List Nat :=
  (List.range (rangeLen s e k)).map fun (j : Nat) => (s + (j : Int) * k).toNat

/-! ### `_prev_last`, `_insert_tokens`, `_del_tokens` -/

/-- `items[index - 1].last_token if index > 0 else placeholder`. -/
def prevLast (c : Cfg) (items : List Span) (index : Nat) : R Nat :=
  if index > 0 then
    match items[index - 1]? with
    | some it => .ok it.last
    | none => .error "IndexError"
  else .ok c.ph

/-- Loop state of `_insert_tokens`: `tokens`, `ref`, `separators_before_last`, allocation counter. -/
structure InsSt where
  tokens : List Tk
  ref : Nat
  sbl : Option Nat
  ctr : Nat
deriving Repr

/-- One iteration of the `for i, value in enumerate(values)` loop of `_insert_tokens`. -/
def insStep (c : Cfg) (store : List Tk) (items : List Span) (index length i : Nat)
    (st : InsSt) (v : List Tk) : R InsSt :=
  if index ≠ 0 ∨ (i ≠ 0 ∧ length = 0) then
    -- tokens.extend(deepcopy(separators)); tokens.extend(value.detach())
    .ok { st with tokens := st.tokens ++ (copySeps c.seps st.ctr ++ v), ctr := st.ctr + c.seps.length }
  else if length ≠ 0 then
    -- tokens.extend(value.detach()); tokens.extend(deepcopy(separators)); ref = separators_before_last
    let sbl : R Nat := match st.sbl with
      | some x => .ok x
      | none =>
        match items[0]? with
        | none => .error "IndexError"
        | some it =>
          match prev it.first store with
          | .error e => .error e
          | .ok none => .error "AssertionError"
          | .ok (some p) => .ok p
    match sbl with
    | .error e => .error e
    | .ok x =>
      .ok { tokens := st.tokens ++ (v ++ copySeps c.seps st.ctr), ref := x, sbl := some x,
            ctr := st.ctr + c.seps.length }
  else
    -- tokens.extend(deepcopy(separators_before)); tokens.extend(value.detach())
    .ok { st with tokens := st.tokens ++ (copySeps c.sepsBefore st.ctr ++ v),
                  ctr := st.ctr + c.sepsBefore.length }

def insLoop (c : Cfg) (store : List Tk) (items : List Span) (index length : Nat) :
    Nat → InsSt → List (List Tk) → R InsSt
  | _, st, [] => .ok st
  | i, st, v :: vs =>
    match insStep c store items index length i st v with
    | .error e => .error e
    | .ok st' => insLoop c store items index length (i + 1) st' vs

/-- `_insert_tokens(index, values, length, separators_before_last)`; returns the store and counter. -/
def insertTokens (c : Cfg) (store : List Tk) (items : List Span) (ctr : Nat) (index : Nat)
    (values : List (List Tk)) (length : Option Nat) (sbl : Option Nat) : R (List Tk × Nat) :=
  match prevLast c items index with
  | .error e => .error e
  | .ok ref =>
    let len := length.getD items.length
    match insLoop c store items index len 0 ⟨[], ref, sbl, ctr⟩ values with
    | .error e => .error e
    | .ok r =>
      match insertAfter (some r.ref) r.tokens store with
      | .error e => .error e
      | .ok store' => .ok (store', r.ctr)

/-- `_del_tokens(start, stop)`. -/
def delTokens (c : Cfg) (store : List Tk) (items : List Span) (start stop : Nat) : R (List Tk) :=
  if stop ≤ start then .ok store
  else if start = 0 ∧ stop < items.length then
    match items[start]?, items[stop]? with
    | some it0, some itS =>
      match prev itS.first store with
      | .error e => .error e
      | .ok none => .error "AssertionError"
      | .ok (some t) => removeRange it0.first t store
    | _, _ => .error "IndexError"
  else
    match prevLast c items start with
    | .error e => .error e
    | .ok pl =>
      match next pl store with
      | .error e => .error e
      | .ok none => .error "AssertionError"
      | .ok (some t) =>
        match items[stop - 1]? with
        | none => .error "IndexError"
        | some itL => removeRange t itL.last store

/-! ### The public methods -/

/-- `self[index] = value` for an int index. -/
def setItemInt (_c : Cfg) (st : St) (index : Int) (v : List Tk) : R St :=
  match pyIndex index st.items.length with
  | none => .error "IndexError"
  | some k =>
    match st.items[k]? with
    | none => .error "IndexError"
    | some item =>
      match spliceRange item.first item.last v st.store with
      | .error e => .error e
      | .ok store' => .ok { st with store := store', items := st.items.set k (spanOf v) }

/-- `separators_before_last = get_prev(items[0].first_token) if items else None`. -/
def sepsBeforeLast (st : St) : R (Option Nat) :=
  match st.items[0]? with
  | none => .ok none
  | some it => prev it.first st.store

/-- The extended-slice loop: `for i, value in zip(r, values)`. -/
def setExtLoop (c : Cfg) (sbl : Option Nat) : St → List (Nat × List Tk) → R St
  | st, [] => .ok st
  | st, (i, v) :: rest =>
    match delTokens c st.store st.items i (i + 1) with
    | .error e => .error e
    | .ok store1 =>
      match insertTokens c store1 st.items st.ctr i [v] (some (st.items.length - 1)) sbl with
      | .error e => .error e
      | .ok (store2, ctr2) =>
        setExtLoop c sbl { store := store2, items := st.items.set i (spanOf v), ctr := ctr2 } rest

/-- `self[start:stop:step] = values`. -/
def setSlice (c : Cfg) (st : St) (start stop step : Option Int) (values : List (List Tk)) : R St :=
  let n := st.items.length
  match sliceIndices start stop step n with
  | .error e => .error e
  | .ok (s0, e0, k) =>
    -- if r.step == 1 and r.stop < r.start: r = range(r.start, r.start)
    let e1 := if k = 1 ∧ e0 < s0 then s0 else e0
    match sepsBeforeLast st with
    | .error e => .error e
    | .ok sbl =>
      if k = 1 then
        let s := s0.toNat
        let e := e1.toNat
        match delTokens c st.store st.items s e with
        | .error er => .error er
        | .ok store1 =>
          match insertTokens c store1 st.items st.ctr s values (some (n - (e - s))) sbl with
          | .error er => .error er
          | .ok (store2, ctr2) =>
            .ok { store := store2, items := st.items.take s ++ values.map spanOf ++ st.items.drop e,
                  ctr := ctr2 }
      else
        let r := rangeElems s0 e1 k
        if r.length ≠ values.length then .error "ValueError:size"
        else setExtLoop c sbl st (r.zip values)

/-- Descending sort (`sorted(indexes, reverse=True)`). -/
def insertDesc (x : Nat) : List Nat → List Nat
  | [] => [x]
  | y :: ys => if y ≤ x then x :: y :: ys else y :: insertDesc x ys

def sortDesc (l : List Nat) : List Nat := l.foldr insertDesc []

/-- `itertools.groupby(indexes, key=lambda i: i + next(count))` on a descending list: maximal runs
`hi, hi-1, …, lo`, returned as `(hi, lo)`. -/
def runsDesc : List Nat → List (Nat × Nat)
  | [] => []
  | x :: xs =>
    match runsDesc xs with
    | (hi, lo) :: rest => if hi + 1 = x then (x, lo) :: rest else (x, x) :: (hi, lo) :: rest
    | [] => [(x, x)]

def dropLoop (c : Cfg) (items : List Span) : List Tk → List (Nat × Nat) → R (List Tk)
  | store, [] => .ok store
  | store, (hi, lo) :: rest =>
    match delTokens c store items lo (hi + 1) with
    | .error e => .error e
    | .ok store' => dropLoop c items store' rest

def keepNotIn (idxs : List Nat) : Nat → List Span → List Span
  | _, [] => []
  | i, x :: xs => if idxs.contains i then keepNotIn idxs (i + 1) xs else x :: keepNotIn idxs (i + 1) xs

/-- `drop_many(indexes)`. -/
def dropMany (c : Cfg) (st : St) (idxs : List Nat) : R St :=
  match dropLoop c st.items st.store (runsDesc (sortDesc idxs)) with
  | .error e => .error e
  | .ok store' => .ok { st with store := store', items := keepNotIn idxs 0 st.items }

/-- `set(...)` as far as `drop_many` needs it: every value once. -/
def dedup (l : List Nat) : List Nat := l.foldr (fun x acc => if acc.contains x then acc else x :: acc) []

/-- The loop at the head of the public `drop_many` (since the repair 72f20a3): every index is range-checked and
normalised (`index + length if index < 0`) before anything is deleted; the first one out of range raises. -/
def normIdxs (n : Nat) : List Int → Option (List Nat)
  | [] => some []
  | i :: is =>
    match pyIndex i n, normIdxs n is with
    | some k, some ks => some (k :: ks)
    | _, _ => none

/-- `drop_many(indexes)` as callers see it: any indexes (negative, repeated, in any order). -/
def dropManyPub (c : Cfg) (st : St) (idxs : List Int) : R St :=
  match normIdxs st.items.length idxs with
  | none => .error "IndexError"
  | some ks => dropMany c st (dedup ks)

/-- `del self[i]` for an int index: `self[slice(i, i+1, 1)] = []`. -/
def delItemInt (c : Cfg) (st : St) (index : Int) : R St :=
  match pyIndex index st.items.length with
  | none => .error "IndexError"
  | some i => setSlice c st (some (i : Int)) (some ((i : Int) + 1)) (some 1) []

/-- `del self[start:stop:step]`. -/
def delSlice (c : Cfg) (st : St) (start stop step : Option Int) : R St :=
  match sliceIndices start stop step st.items.length with
  | .error e => .error e
  | .ok (s, e, k) =>
    if k = 1 then
      -- slice_from_range: stop = r.stop if r.stop != -1 else None
      setSlice c st (some s) (if e = -1 then none else some e) (some 1) []
    else dropMany c st (rangeElems s e k)

/-- `insert(index, value)`. -/
def insert (c : Cfg) (st : St) (index : Int) (v : List Tk) : R St :=
  let n := st.items.length
  let i1 : Int := if index < 0 then max (index + n) 0 else index
  let i := (min i1 n).toNat
  match insertTokens c st.store st.items st.ctr i [v] none none with
  | .error e => .error e
  | .ok (store', ctr') =>
    .ok { store := store', items := st.items.take i ++ spanOf v :: st.items.drop i, ctr := ctr' }

/-- `extend(values)`. -/
def extend (c : Cfg) (st : St) (values : List (List Tk)) : R St :=
  let i := st.items.length
  match insertTokens c st.store st.items st.ctr i values none none with
  | .error e => .error e
  | .ok (store', ctr') => .ok { store := store', items := st.items ++ values.map spanOf, ctr := ctr' }

/-- `append(value)`. -/
def append (c : Cfg) (st : St) (v : List Tk) : R St :=
  let i := st.items.length
  match insertTokens c st.store st.items st.ctr i [v] none none with
  | .error e => .error e
  | .ok (store', ctr') => .ok { store := store', items := st.items ++ [spanOf v], ctr := ctr' }

/-- `clear()`. -/
def clear (c : Cfg) (st : St) : R St :=
  match delTokens c st.store st.items 0 st.items.length with
  | .error e => .error e
  | .ok store' => .ok { st with store := store', items := [] }

/-- `pop(index)`: the new state and the span of the popped item. -/
def pop (c : Cfg) (st : St) (index : Int) : R (St × Span) :=
  match pyIndex index st.items.length with
  | none => .error "IndexError"
  | some i =>
    match st.items[i]? with
    | none => .error "IndexError"
    | some item =>
      match delTokens c st.store st.items i (i + 1) with
      | .error e => .error e
      | .ok store' => .ok ({ st with store := store', items := st.items.eraseIdx i }, item)

end Autobean.Rep
