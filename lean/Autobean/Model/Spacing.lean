/-
Model of `autobean_refactor/models/internal/spacing_accessors.py` (C17).  Core Lean only; total; executable.

The store is a plain `List Tk` (C07 licenses that abstraction).  A model is given by the ids of its first
and last token.  Everything is written once in *scan direction* (the direction in which
`_find_spacing` walks with `succ`): forwards for `spacing_after`, backwards for `spacing_before`, the
`before` side being the `after` side of the reversed prefix.
-/
namespace Autobean.Spacing

abbrev Str := List Char

/-- Token classes as far as `spacing_accessors.py` distinguishes them (`isinstance(token, Newline | Whitespace)`). -/
inductive Kind where
  | newline     -- models.Newline     (`_NEWLINE`)
  | whitespace  -- models.Whitespace  (`WHITESPACE`)
  | other       -- every other token class (incl. the zero-width Eol / DedentMark / Placeholder, Indent, comments)
deriving DecidableEq, Repr

structure Tk where
  id : Nat
  kind : Kind
  text : Str
deriving DecidableEq, Repr

/-- `not token.raw_text` -/
def Tk.isEmpty (t : Tk) : Bool := t.text.isEmpty

/-- `isinstance(token, Newline | Whitespace)` -/
def Tk.isBlankKind (t : Tk) : Bool :=
  match t.kind with
  | .other => false
  | _ => true

/-- `if token.raw_text:` -/
def Tk.nonEmpty (t : Tk) : Bool := !t.isEmpty

/-- `_tokens_to_text` / printing a store: concatenation of the raw texts. -/
def textOf (l : List Tk) : Str := (l.map (·.text)).flatten

/-- the non-empty tokens of a list (`if token.raw_text: tokens.append(token)`) -/
def ne (l : List Tk) : List Tk := l.filter Tk.nonEmpty

/--
`_find_spacing(token, succ)` where `l` is `token, succ(token), succ(succ(token)), …`:
first loop `while token is not None and not token.raw_text` = `dropWhile isEmpty`;
second loop `while isinstance(token, Newline | Whitespace)` = `takeWhile isBlankKind`, appending only the
tokens with non-empty text.
-/
def findSpacing (l : List Tk) : List Tk :=
  ne ((l.dropWhile Tk.isEmpty).takeWhile Tk.isBlankKind)

/-- Position of the first token with the given id: `(tokens before, the token, tokens after)`. -/
def splitAtId : List Tk → Nat → Option (List Tk × Tk × List Tk)
  | [], _ => none
  | t :: ts, i =>
    if t.id = i then some ([], t, ts)
    else match splitAtId ts i with
      | some (p, x, q) => some (t :: p, x, q)
      | none => none

/-- `raw_spacing_after` getter: `_find_spacing(store.get_next(self.last_token), store.get_next)`. -/
def spacingAfter (store : List Tk) (last : Nat) : List Tk :=
  match splitAtId store last with
  | some (_, _, post) => findSpacing post
  | none => []

/-- `raw_spacing_before` getter: `reversed(_find_spacing(store.get_prev(self.first_token), store.get_prev))`. -/
def spacingBefore (store : List Tk) (first : Nat) : List Tk :=
  match splitAtId store first with
  | some (pre, _, _) => (findSpacing pre.reverse).reverse
  | none => []

/--
The setter in scan direction.  `l` = the tokens after the model (scan order), `new` = the replacement (scan
order).  `current_tokens` non-empty: `store.splice(tokens, current_tokens[0], current_tokens[-1])` — everything
from the first to the last non-empty blank token of the run is replaced (zero-width blank tokens in between go
too; zero-width tokens skipped before the run and the zero-width blank tokens after its last non-empty token
stay).  `current_tokens` empty: `insert_after(self.last_token, tokens)` / `insert_before(self.first_token, tokens)`,
i.e. adjacent to the model, before any zero-width token.
-/
def scanSet (l : List Tk) (new : List Tk) : List Tk :=
  let z := l.takeWhile Tk.isEmpty
  let r0 := l.dropWhile Tk.isEmpty
  let r := r0.takeWhile Tk.isBlankKind
  let rest := r0.dropWhile Tk.isBlankKind
  if (ne r).isEmpty then new ++ l
  else
    let e := (r.reverse.takeWhile Tk.isEmpty).reverse
    z ++ new ++ e ++ rest

/-- `raw_spacing_after` setter. -/
def setAfter (store : List Tk) (last : Nat) (new : List Tk) : List Tk :=
  match splitAtId store last with
  | some (pre, t, post) => pre ++ t :: scanSet post new
  | none => store

/-- `raw_spacing_before` setter. -/
def setBefore (store : List Tk) (first : Nat) (new : List Tk) : List Tk :=
  match splitAtId store first with
  | some (pre, t, post) => (scanSet pre.reverse new.reverse).reverse ++ t :: post
  | none => store

inductive Side where
  | before
  | after
deriving DecidableEq, Repr

/-- Both getters; the model is given by the ids of its first and last token. -/
def getSpacing (store : List Tk) (first last : Nat) : Side → List Tk
  | .before => spacingBefore store first
  | .after => spacingAfter store last

/-- Both setters. -/
def setSpacing (store : List Tk) (first last : Nat) (side : Side) (new : List Tk) : List Tk :=
  match side with
  | .before => setBefore store first new
  | .after => setAfter store last new

/-! ### `_text_to_tokens`: `re.findall(r'([ \t]+)|(\r*\n)', text)`

`findall` scans left to right; at each position it tries `[ \t]+` (greedy, maximal), then `\r*\n` (all the
`\r`s, which must be followed by `\n`; giving back `\r`s never helps); if neither matches the character is
skipped.  A run of `\r`s not followed by `\n` therefore yields nothing.  The scanner below is that procedure as
a one-pass state machine (structural recursion on the text). -/

def isWsChar (c : Char) : Bool := c = ' ' || c = '\t'

inductive Mode where
  | clean                 -- no match in progress
  | ws (acc : Str)        -- inside `[ \t]+`, `acc` = the characters so far, reversed
  | cr (acc : Str)        -- inside the `\r*` of `\r*\n`, `acc` = the `\r`s so far (reversed)

/-- What a character does when no match is in progress: new mode and the pieces emitted at once. -/
def startPiece (c : Char) : Mode × List (Kind × Str) :=
  if isWsChar c then (.ws [c], [])
  else if c = '\r' then (.cr [c], [])
  else if c = '\n' then (.clean, [(.newline, [c])])
  else (.clean, [])

def scanPieces : Mode → Str → List (Kind × Str)
  | .clean, [] => []
  | .ws acc, [] => [(.whitespace, acc.reverse)]
  | .cr _, [] => []
  | .clean, c :: cs => (startPiece c).2 ++ scanPieces (startPiece c).1 cs
  | .ws acc, c :: cs =>
    if isWsChar c then scanPieces (.ws (c :: acc)) cs
    else (.whitespace, acc.reverse) :: ((startPiece c).2 ++ scanPieces (startPiece c).1 cs)
  | .cr acc, c :: cs =>
    if c = '\r' then scanPieces (.cr (c :: acc)) cs
    else if c = '\n' then (.newline, (c :: acc).reverse) :: scanPieces .clean cs
    else (startPiece c).2 ++ scanPieces (startPiece c).1 cs

/-- Fresh tokens `Whitespace.from_raw_text(..)` / `Newline.from_raw_text(..)` with ids `fresh, fresh+1, …`. -/
def mkTokens (fresh : Nat) : List (Kind × Str) → List Tk
  | [] => []
  | (k, s) :: ps => ⟨fresh, k, s⟩ :: mkTokens (fresh + 1) ps

/-- `tuple(_text_to_tokens(value))` -/
def textToTokens (fresh : Nat) (s : Str) : List Tk := mkTokens fresh (scanPieces .clean s)

/-- `spacing_before`/`spacing_after` string getters. -/
def getText (store : List Tk) (first last : Nat) (side : Side) : Str := textOf (getSpacing store first last side)

/-- `spacing_before`/`spacing_after` string setters. -/
def setText (store : List Tk) (first last : Nat) (side : Side) (fresh : Nat) (s : Str) : List Tk :=
  setSpacing store first last side (textToTokens fresh s)

/-- The strings of `([ \t]+|\r*\n)*`, decidably: only blanks, tabs, CR, LF, and every CR is followed by CR or LF. -/
def spacingLang : Str → Bool
  | [] => true
  | c :: cs =>
    (isWsChar c || c = '\n' ||
      (c = '\r' && (match cs with
        | d :: _ => d = '\r' || d = '\n'
        | [] => false))) && spacingLang cs

/-- `[ \t\r\n]` -/
def isBlankChar (c : Char) : Bool := c = ' ' || c = '\t' || c = '\r' || c = '\n'

end Autobean.Spacing
