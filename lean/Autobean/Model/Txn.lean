/-
Model of the payee/narration group of `autobean_refactor/models/transaction.py`.

The generated `Transaction` has three optional string slots `string0`, `string1`, `string2`
(grammar: `[NEVER] _optional_string _optional_string`, so `string0` is never filled by the parser).
`raw_payee` is `raw_string1`, `raw_narration` is `raw_string2`.  Strings are opaque ids; `emptyS` is `""`.
-/
namespace Autobean.Txn

abbrev S := Nat

/-- The id of the empty string `EscapedString.from_value('')`. -/
def emptyS : S := 0

structure Txn where
  s0 : Option S
  s1 : Option S
  s2 : Option S
deriving DecidableEq, Repr, Inhabited

/-- `Transaction.from_parsed_children`: a single string is the narration. -/
def fromParsed (string0 string1 string2 : Option S) : Txn :=
  if string1.isSome && string2.isNone then ⟨string0, string0, string1⟩
  else ⟨string0, string1, string2⟩

def payee (t : Txn) : Option S := t.s1       -- raw_payee = raw_string1, payee = its value
def narration (t : Txn) : Option S := t.s2   -- raw_narration = raw_string2

/-- `Transaction.__raw_narration`. -/
def setNarrRaw (value : Option S) (t : Txn) : Txn :=
  let value := if value.isNone && (payee t).isSome then some emptyS else value
  { t with s2 := value }                       -- self.raw_string2 = value

/-- `Transaction.__raw_payee`. -/
def setPayeeRaw (value : Option S) (t : Txn) : Txn :=
  let t1 := if value.isSome && (narration t).isNone then setNarrRaw (some emptyS) t else t
  { t1 with s1 := value }                      -- self.raw_string1 = value

/-- `payee = optional_string_property(raw_payee, EscapedString)`. -/
def setPayeeV (value : Option S) (t : Txn) : Txn :=
  match payee t, value with
  | some _, some v => { t with s1 := some v }  -- current.value = value
  | _, _ => setPayeeRaw value t

/-- `narration = optional_string_property(raw_narration, EscapedString)`. -/
def setNarrV (value : Option S) (t : Txn) : Txn :=
  match narration t, value with
  | some _, some v => { t with s2 := some v }
  | _, _ => setNarrRaw value t

inductive Assign where
  | payee (v : Option S)
  | narration (v : Option S)
deriving DecidableEq, Repr, Inhabited

structure Op where
  raw : Bool
  a : Assign
deriving DecidableEq, Repr, Inhabited

def Op.apply : Op → Txn → Txn
  | ⟨true, .payee v⟩, t => setPayeeRaw v t
  | ⟨false, .payee v⟩, t => setPayeeV v t
  | ⟨true, .narration v⟩, t => setNarrRaw v t
  | ⟨false, .narration v⟩, t => setNarrV v t

/-! ### Specification -/

structure Rec where
  payee : Option S
  narration : Option S
deriving DecidableEq, Repr, Inhabited

/-- payee ⇒ narration. -/
def Rec.Ok (r : Rec) : Prop := r.payee.isSome → r.narration.isSome

/-- Field update with the documented dependency: a payee needs a narration (created empty);
a narration cannot be cleared while there is a payee (it becomes empty instead). -/
def Rec.set : Assign → Rec → Rec
  | .payee v, r =>
    { payee := v, narration := if v.isSome && r.narration.isNone then some emptyS else r.narration }
  | .narration v, r =>
    { r with narration := if v.isNone && r.payee.isSome then some emptyS else v }

def view (t : Txn) : Rec := ⟨payee t, narration t⟩

/-- What the parser produces and the setters keep: `string0` empty, payee ⇒ narration. -/
def Canon (t : Txn) : Prop := t.s0 = none ∧ (t.s1.isSome → t.s2.isSome)

instance (t : Txn) : Decidable (Canon t) := inferInstanceAs (Decidable (_ ∧ _))

def runC : List Op → Txn → List Txn
  | [], _ => []
  | o :: os, t => let t' := o.apply t; t' :: runC os t'

def runR : List Op → Rec → List Rec
  | [], _ => []
  | o :: os, r => let r' := Rec.set o.a r; r' :: runR os r'

/-! ### Print and re-parse of the header strings -/

/-- The strings in printing order. -/
def printed (t : Txn) : List S := t.s0.toList ++ t.s1.toList ++ t.s2.toList

/-- The grammar `[NEVER] _optional_string _optional_string` (LALR fills the first optional first)
followed by `from_parsed_children`. Three strings do not parse. -/
def parse : List S → Option Txn
  | [] => some (fromParsed none none none)
  | [a] => some (fromParsed none (some a) none)
  | [a, b] => some (fromParsed none (some a) (some b))
  | _ => none

end Autobean.Txn
