/-
The `optional_string/decimal/date_property` pattern of `internal/value_properties.py` over an abstract
model whose optional child slots are numbered: a slot holds a node (identity + value) or nothing.

    current = inner_property.__get__(instance)
    if current is not None and value is not None:  current.value = value
    else:  inner_property.__set__(instance, inner_type.from_value(value) if value is not None else None)
-/
namespace Autobean.OptSlot

structure Node where
  id : Nat
  val : Nat
deriving DecidableEq, Repr

structure Obj where
  slots : Nat → Option Node
  next : Nat            -- next fresh node identity

/-- `optional_*_property._get`. -/
def getV (m : Obj) (i : Nat) : Option Nat := (m.slots i).map (·.val)

/-- `optional_*_property.__set__`. -/
def setV (i : Nat) (value : Option Nat) (m : Obj) : Obj :=
  match m.slots i, value with
  | some n, some v => { m with slots := fun j => if j = i then some { n with val := v } else m.slots j }
  | _, some v => { slots := fun j => if j = i then some ⟨m.next, v⟩ else m.slots j, next := m.next + 1 }
  | _, none => { m with slots := fun j => if j = i then none else m.slots j }

end Autobean.OptSlot
