/-
Model of `autobean_refactor/token_store.py` (class `TokenStore`, `_StoreBlock`, `_StoreHandle`,
`_build_blocks`), written as a transcription: one definition per Python function, same
statement order, same reads of *stored* fields.

Faithfulness notes
* A block object has an identity (`ref`) and a *stored* `index` field (`idx`) which the Python reads
  (`block.index`, `handle.block.index`) instead of the block's actual position in `_blocks`.
  The two are kept apart here so that a stale stored index is representable (that was the defect
  repaired by the `fix:` commit "re-index blocks after a multi-block splice").
* A token's `store_handle` is `(block object, index)`; here `Handle = (store id, block ref, j)`.
* Python raising (`IndexError`, `ValueError`) is `Except.error` with a short tag.
* The four module constants are the parameter `LF`.
-/
import Autobean.Model.Pos

namespace Autobean

structure Handle where
  sid : Nat
  ref : Nat
  j : Nat
deriving DecidableEq, Repr

structure Tok where
  id : Nat
  text : List Char
  size : Pos
  h : Option Handle
deriving DecidableEq, Repr

structure Block where
  ref : Nat
  idx : Nat
  toks : List Tok
  size : Pos
  lni : Int
deriving DecidableEq, Repr

/-- `_LOAD_FACTOR`, `_DOUBLE_LOAD_FACTOR`, `_HALF_LOAD_FACTOR`, `_ONE_HALF_LOAD_FACTOR`. -/
structure LF where
  lf : Nat
  dbl : Nat
  half : Nat
  onehalf : Nat
deriving DecidableEq, Repr

/-- The relations the source defines the constants by. -/
def LF.WF (c : LF) : Prop :=
  2 ≤ c.lf ∧ c.dbl = 2 * c.lf ∧ c.half = c.lf / 2 ∧ c.onehalf = c.lf + c.half

instance (c : LF) : Decidable c.WF := by unfold LF.WF; exact inferInstance

def LF.ofLoadFactor (n : Nat) : LF := ⟨n, 2 * n, n / 2, n + n / 2⟩

structure Store where
  sid : Nat
  blocks : List Block
  len : Nat
  nextRef : Nat
deriving Repr

/-! ### Block helpers -/

/-- Assign `store_handle = (block, k), (block, k+1), …`. -/
def setHandlesFrom (sid ref : Nat) : Nat → List Tok → List Tok
  | _, [] => []
  | k, t :: ts => { t with h := some ⟨sid, ref, k⟩ } :: setHandlesFrom sid ref (k + 1) ts

def clearHandles (ts : List Tok) : List Tok := ts.map fun t => { t with h := none }

def sizeOfToks (ts : List Tok) : Pos := sumPos (ts.map (·.size))

/-- Last index (counted from `k`) of a token whose size has a line break; `acc` when none. -/
def lniFrom : Nat → Int → List Tok → Int
  | _, acc, [] => acc
  | k, acc, t :: ts => lniFrom (k + 1) (if t.size.line = 0 then acc else (k : Int)) ts

/-- `_StoreBlock.from_tokens` and `_StoreBlock.rebuild` compute the same three things. -/
def Block.build (sid ref idx : Nat) (ts : List Tok) : Block :=
  { ref := ref, idx := idx, toks := setHandlesFrom sid ref 0 ts,
    size := sizeOfToks ts, lni := lniFrom 0 (-1) ts }

def Block.rebuild (sid : Nat) (b : Block) : Block := Block.build sid b.ref b.idx b.toks

/-- `_build_blocks(store, start_index, tokens)`. New block objects get refs `ref, ref+1, …`. -/
def buildBlocks (c : LF) (sid ref idx : Nat) (ts : List Tok) : List Block :=
  if h0 : ts.length = 0 then []
  else if hlf : c.lf = 0 then [Block.build sid ref idx ts]  -- the Python loop would not terminate
  else if ts.length > c.onehalf then
    Block.build sid ref idx (ts.take c.lf) :: buildBlocks c sid (ref + 1) (idx + 1) (ts.drop c.lf)
  else if ts.length > c.lf then
    [Block.build sid ref idx (ts.take (ts.length / 2)),
     Block.build sid (ref + 1) (idx + 1) (ts.drop (ts.length / 2))]
  else [Block.build sid ref idx ts]
termination_by ts.length
decreasing_by simp [List.length_drop]; omega

/-- `_update_block_indexes(i)`: blocks at positions `≥ i` get `index := position`. `p` is the
position of the head of the list. -/
def reindexFrom (i : Nat) : Nat → List Block → List Block
  | _, [] => []
  | p, b :: bs => (if i ≤ p then { b with idx := p } else b) :: reindexFrom i (p + 1) bs

def setAt (bs : List Block) (p : Nat) (b : Block) : List Block := bs.set p b

abbrev R := Except String

def getBlock (bs : List Block) (p : Nat) : R Block :=
  match bs[p]? with
  | some b => pure b
  | none => throw "IndexError"

/-! ### Rebalancing -/

/-- `_split_block(block)`; reads the stored `block.index`. -/
def splitBlock (c : LF) (s : Store) (b : Block) : R Store := do
  let new := buildBlocks c s.sid s.nextRef b.idx b.toks
  match new.getLast? with
  | none => throw "IndexError"
  | some last =>
    let bs := s.blocks.take b.idx ++ new ++ s.blocks.drop (b.idx + 1)
    pure { s with blocks := reindexFrom (last.idx + 1) 0 bs, nextRef := s.nextRef + new.length }

/-- `_merge_blocks(a, b)` with `a` the object at actual position `pa`, `b` at `pb`. -/
def mergeBlocks (c : LF) (s : Store) (pa pb : Nat) : R Store := do
  let a ← getBlock s.blocks pa
  let b ← getBlock s.blocks pb
  let all := a.toks ++ b.toks
  if all.length < c.dbl then
    let a' := Block.rebuild s.sid { a with toks := all }
    let bs := setAt s.blocks pa a'
    if b.idx < bs.length then
      pure { s with blocks := reindexFrom b.idx 0 (bs.eraseIdx b.idx) }
    else throw "IndexError"
  else
    let l := all.length / 2
    let a' := Block.rebuild s.sid { a with toks := all.take l }
    let b' := Block.rebuild s.sid { b with toks := all.drop l }
    pure { s with blocks := setAt (setAt s.blocks pa a') pb b' }

/-- `_update_block(block)` with `block` the object at actual position `p`. -/
def updateBlock (c : LF) (s : Store) (p : Nat) : R Store := do
  let b ← getBlock s.blocks p
  let length := b.toks.length
  if length ≥ c.dbl then
    splitBlock c s b
  else if length ≤ c.half ∧ s.blocks.length > 1 then
    if b.idx ≠ 0 then
      let _ ← getBlock s.blocks (b.idx - 1)
      mergeBlocks c s (b.idx - 1) p
    else
      let _ ← getBlock s.blocks (b.idx + 1)
      mergeBlocks c s p (b.idx + 1)
  else
    let bs := setAt s.blocks p (Block.rebuild s.sid b)
    let nbi := b.idx + 1
    match bs[nbi]? with
    | some nb => if nb.idx ≠ nbi then pure { s with blocks := reindexFrom nbi 0 bs } else pure { s with blocks := bs }
    | none => pure { s with blocks := bs }

/-! ### Handles -/

/-- The stored `index` of the block object `ref` (what `handle.block.index` reads). -/
def blockIdxOfRef (bs : List Block) (ref : Nat) : Option Nat :=
  (bs.find? (·.ref = ref)).map (·.idx)

def blockOfRef (bs : List Block) (ref : Nat) : Option Block := bs.find? (·.ref = ref)

/-- Find a token object by identity: actual (block position, index, token). -/
def findTokIn (id : Nat) : Nat → List Tok → Option (Nat × Tok)
  | _, [] => none
  | j, t :: ts => if t.id = id then some (j, t) else findTokIn id (j + 1) ts

def findTok (id : Nat) : Nat → List Block → Option (Nat × Nat × Tok)
  | _, [] => none
  | p, b :: bs =>
    match findTokIn id 0 b.toks with
    | some (j, t) => some (p, j, t)
    | none => findTok id (p + 1) bs

/-- `_check_store_handle(token)` for a token of this store, then `(handle.block.index, handle.index)`. -/
def handlePos (s : Store) (id : Nat) : R (Nat × Nat) :=
  match findTok id 0 s.blocks with
  | none => throw "ValueError:not-in-store"
  | some (_, _, t) =>
    match t.h with
    | none => throw "ValueError:not-in-store"
    | some hd =>
      match blockIdxOfRef s.blocks hd.ref with
      | some i => pure (i, hd.j)
      | none => throw "stale-handle"

def posLe (a b : Nat × Nat) : Bool := a.1 < b.1 || (a.1 == b.1 && a.2 ≤ b.2)
def posLt (a b : Nat × Nat) : Bool := a.1 < b.1 || (a.1 == b.1 && a.2 < b.2)

/-- The "already in a store" test of `_splice` for one inserted token. -/
def spliceAccepts (s : Store) (start stop : Nat × Nat) (t : Tok) : R Bool :=
  match t.h with
  | none => pure true
  | some hd =>
    if hd.sid ≠ s.sid then pure false
    else match blockIdxOfRef s.blocks hd.ref with
      | none => throw "stale-handle"
      | some i => pure (posLe start (i, hd.j) && posLt (i, hd.j) stop)

def sumLines (ts : List Tok) : Nat := (ts.map (·.size.line)).sum

/-! ### `_splice` -/

structure SpliceOut where
  store : Store
  removed : List Tok

def spliceCore (c : LF) (s : Store) (tokens : List Tok) (start stop : Nat × Nat) : R SpliceOut := do
  let (si, sj) := start
  let (ei, ej) := stop
  for t in tokens do
    if !(← spliceAccepts s start stop t) then throw "ValueError:already-in-store"
  if si = ei then
    let block ← getBlock s.blocks si
    if ej > block.toks.length then throw "IndexError"
    let lenRemoved : Int := (ej : Int) - (sj : Int)
    let removedToks := (block.toks.drop sj).take (ej - sj)
    let linesRemoved := sumLines removedToks
    let newToks := block.toks.take sj ++ tokens ++ block.toks.drop (max sj ej)
    let s' ←
      if newToks.length < c.dbl ∧ (newToks.length > c.half ∨ s.blocks.length = 1) ∧ block.lni ≥ (ej : Int) then
        let linesDiff : Int := (sumLines tokens : Int) - (linesRemoved : Int)
        let toks' := newToks.take sj ++ setHandlesFrom s.sid block.ref sj (newToks.drop sj)
        let b' : Block :=
          { block with
            toks := toks',
            lni := block.lni + ((tokens.length : Int) - lenRemoved),
            size := ⟨((block.size.line : Int) + linesDiff).toNat, block.size.col⟩ }
        pure { s with blocks := setAt s.blocks si b' }
      else
        updateBlock c { s with blocks := setAt s.blocks si { block with toks := newToks } } si
    let len' : Int := (s.len : Int) + ((tokens.length : Int) - lenRemoved)
    pure { store := { s' with len := len'.toNat }, removed := clearHandles removedToks }
  else
    let sb ← getBlock s.blocks si
    let eb ← getBlock s.blocks ei
    if ei < si then throw "IndexError"
    if ej > eb.toks.length then throw "IndexError"
    let middle := (s.blocks.drop (si + 1)).take (ei - si - 1)
    let removedToks := sb.toks.drop sj ++ middle.flatMap (·.toks) ++ eb.toks.take ej
    let newBlock : Block :=
      { ref := s.nextRef, idx := si, toks := sb.toks.take sj ++ tokens ++ eb.toks.drop ej,
        size := Pos.zero, lni := -1 }
    let bs := s.blocks.take si ++ [newBlock] ++ s.blocks.drop (ei + 1)
    let s1 : Store := { s with blocks := reindexFrom (si + 1) 0 bs, nextRef := s.nextRef + 1 }
    let s2 ← updateBlock c s1 si
    let len' : Int := (s.len : Int) + ((tokens.length : Int) - (removedToks.length : Int))
    pure { store := { s2 with len := len'.toNat }, removed := clearHandles removedToks }

/-! ### Public mutators (tokens addressed by identity) -/

def Store.empty (sid : Nat) : Store :=
  { sid := sid, blocks := [{ ref := 0, idx := 0, toks := [], size := Pos.zero, lni := -1 }], len := 0, nextRef := 1 }

/-- `TokenStore.from_tokens`. -/
def Store.fromTokens (c : LF) (sid : Nat) (ts : List Tok) : R Store :=
  if ts.any (·.h.isSome) then throw "ValueError:already-in-store"
  else if ts.isEmpty then pure (Store.empty sid)
  else
    let bs := buildBlocks c sid 1 0 ts
    pure { sid := sid, blocks := bs, len := ts.length, nextRef := 1 + bs.length }

/-- `splice(tokens, ref, del_end)`. -/
def Store.splice (c : LF) (s : Store) (tokens : List Tok) (ref delEnd : Option Nat) : R SpliceOut := do
  let start ← match ref with
    | none => pure (0, 0)
    | some r => handlePos s r
  let stop ← match delEnd with
    | none => pure start
    | some e => do let (i, j) ← handlePos s e; pure (i, j + 1)
  spliceCore c s tokens start stop

/-- `insert_after(ref, tokens)`. -/
def Store.insertAfter (c : LF) (s : Store) (ref : Option Nat) (tokens : List Tok) : R SpliceOut := do
  let start ← match ref with
    | none => pure (0, 0)
    | some r => do let (i, j) ← handlePos s r; pure (i, j + 1)
  spliceCore c s tokens start start

def Store.insertBefore (c : LF) (s : Store) (ref : Option Nat) (tokens : List Tok) : R SpliceOut :=
  s.splice c tokens ref none

def Store.replace (c : LF) (s : Store) (tok : Nat) (repl : Tok) : R SpliceOut :=
  s.splice c [repl] (some tok) (some tok)

/-- `remove(start, end=None)`; `end or start`. -/
def Store.remove (c : LF) (s : Store) (start : Nat) (stop : Option Nat) : R SpliceOut :=
  s.splice c [] (some start) (some (stop.getD start))

/-! ### `update` (called by `Token._update_raw_text` before the token's own fields change) -/

def modifyTokAt (bs : List Block) (p j : Nat) (f : Tok → Tok) : List Block :=
  bs.modify p fun b => { b with toks := b.toks.modify j f }

def sumColsFrom (ts : List Tok) : Nat := (ts.map (·.size.col)).sum

/-- Backward scan of the "remove new line" branch: from `i-1` down to `0`, add columns until a
token with a line break (inclusive); returns `(added columns, new last_newline_index)`. -/
def scanBack : List Tok → Nat × Int
  | [] => (0, -1)
  | ts =>
    -- `ts` is `tokens[0:i]`; walk it from the right
    let rec go : List Tok → Nat → Nat → Nat × Int
      | [], _, acc => (acc, -1)
      | t :: rest, k, acc =>
        if t.size.line ≠ 0 then (acc + t.size.col, (k : Int)) else go rest (k - 1) (acc + t.size.col)
    go ts.reverse (ts.length - 1) 0

/-- `Token._update_raw_text(value)` for a token in this store: `store.update(token, value, size)`
then the token's own `_raw_text` and `size`. -/
def Store.updateText (s : Store) (id : Nat) (text : List Char) : R Store := do
  match findTok id 0 s.blocks with
  | none => throw "ValueError:not-in-store"
  | some (p, j, t) =>
    let size := tokSize text
    let setTok (bs : List Block) : List Block :=
      modifyTokAt bs p j fun t => { t with text := text, size := size }
    match t.h with
    | none => throw "ValueError:not-in-store"
    | some hd =>
      -- the handle's block object, at its actual position
      match s.blocks.findIdx? (·.ref = hd.ref) with
      | none => throw "stale-handle"
      | some q =>
        let b ← getBlock s.blocks q
        let line' := ((b.size.line : Int) + (size.line : Int) - (t.size.line : Int)).toNat
        let b1 : Block := { b with size := ⟨line', b.size.col⟩ }
        if (hd.j : Int) < b.lni then
          pure { s with blocks := setTok (setAt s.blocks q b1) }
        else if size.line ≠ 0 ∧ t.size.line = 0 then
          let col := size.col + sumColsFrom (b.toks.drop (hd.j + 1))
          let b2 : Block := { b1 with lni := (hd.j : Int), size := ⟨line', col⟩ }
          pure { s with blocks := setTok (setAt s.blocks q b2) }
        else if t.size.line ≠ 0 ∧ size.line = 0 then
          let (added, lni') := scanBack (b.toks.take hd.j)
          let col := ((b.size.col : Int) + (size.col : Int) - (t.size.col : Int) + (added : Int)).toNat
          let b2 : Block := { b1 with lni := lni', size := ⟨line', col⟩ }
          pure { s with blocks := setTok (setAt s.blocks q b2) }
        else
          let col := ((b.size.col : Int) + (size.col : Int) - (t.size.col : Int)).toNat
          let b2 : Block := { b1 with size := ⟨line', col⟩ }
          pure { s with blocks := setTok (setAt s.blocks q b2) }

/-! ### Queries -/

def Store.toList (s : Store) : List Tok := s.blocks.flatMap (·.toks)

def Store.ids (s : Store) : List Nat := s.toList.map (·.id)

/-- `get_index`. -/
def Store.getIndex (s : Store) (id : Nat) : R Nat := do
  let (i, j) ← handlePos s id
  pure (j + ((s.blocks.take i).map (·.toks.length)).sum)

/-- `get_position`. -/
def Store.getPosition (s : Store) (id : Nat) : R Pos := do
  match findTok id 0 s.blocks with
  | none => throw "ValueError:not-in-store"
  | some (_, _, t) =>
    match t.h with
    | none => throw "ValueError:not-in-store"
    | some hd =>
      match blockOfRef s.blocks hd.ref with
      | none => throw "stale-handle"
      | some b =>
        let p0 := sumPos ((s.blocks.take b.idx).map (·.size))
        pure ((b.toks.take hd.j).foldl (fun p t => p + t.size) p0)

def handleBlock (s : Store) (id : Nat) : R (Block × Nat) :=
  match findTok id 0 s.blocks with
  | none => throw "ValueError:not-in-store"
  | some (_, _, t) =>
    match t.h with
    | none => throw "ValueError:not-in-store"
    | some hd =>
      match blockOfRef s.blocks hd.ref with
      | none => throw "stale-handle"
      | some b => pure (b, hd.j)

/-- `get_prev`. -/
def Store.getPrev (s : Store) (id : Nat) : R (Option Nat) := do
  let (b, j) ← handleBlock s id
  if j ≠ 0 then
    match b.toks[j - 1]? with
    | some t => pure (some t.id)
    | none => throw "IndexError"
  else if b.idx ≠ 0 then
    let pb ← getBlock s.blocks (b.idx - 1)
    pure (pb.toks.getLast?.map (·.id))
  else pure none

/-- `get_next`. -/
def Store.getNext (s : Store) (id : Nat) : R (Option Nat) := do
  let (b, j) ← handleBlock s id
  if j + 1 < b.toks.length then
    match b.toks[j + 1]? with
    | some t => pure (some t.id)
    | none => throw "IndexError"
  else if b.idx + 1 < s.blocks.length then
    let nb ← getBlock s.blocks (b.idx + 1)
    match nb.toks.head? with
    | some t => pure (some t.id)
    | none => throw "IndexError"
  else pure none

/-- `get_first`. -/
def Store.getFirst (s : Store) : Option Nat :=
  match s.blocks with
  | [] => none
  | b :: _ => b.toks.head?.map (·.id)

/-- `get_last`: `self._blocks and self._blocks[0].tokens and self._blocks[-1].tokens[-1] or None`. -/
def Store.getLast (s : Store) : R (Option Nat) :=
  match s.blocks with
  | [] => pure none
  | b :: _ =>
    if b.toks.isEmpty then pure none
    else match s.blocks.getLast? with
      | none => pure none
      | some lb =>
        match lb.toks.getLast? with
        | some t => pure (some t.id)
        | none => throw "IndexError"

/-- `iter(start, end)`. -/
def Store.iter (s : Store) (a b : Nat) : R (List Nat) := do
  let (ba, ja) ← handleBlock s a
  let (bb, jb) ← handleBlock s b
  if ba.ref = bb.ref then
    pure (((ba.toks.drop ja).take (jb + 1 - ja)).map (·.id))
  else
    let mid := (s.blocks.drop (ba.idx + 1)).take (bb.idx - (ba.idx + 1))
    pure ((ba.toks.drop ja ++ mid.flatMap (·.toks) ++ bb.toks.take (jb + 1)).map (·.id))

/-- `Token._update_raw_text(value)` for a token that is in no store (`store_handle is None`): only the
token's own `_raw_text` and `size` change; the size is always the size of the new text. -/
def Tok.updateFree (t : Tok) (text : List Char) : Tok := { t with text := text, size := tokSize text }

end Autobean
