/-
The ABSTRACT token store (DESIGN.md §3.2): a plain list of tokens with distinct ids.  Everything above
`token_store.py` (slots, repeated fields, views, comments) is modelled against this list; C07 is what
licenses the abstraction for the real blocked store.

Operations are addressed by token id and mirror the public `TokenStore` API on a plain list:

  insert_after(ref, xs)   -> `insertAfter ref xs`
  insert_before(ref, xs)  -> `insertBefore ref xs`     (`splice(xs, ref)`)
  splice(xs, first, last) -> `spliceRange first last xs` (replace the inclusive range)
  remove(first, last)     -> `removeRange first last`
  get_prev / get_next     -> `prev` / `next`
  get_index               -> `idxOf`

Python raising is `Except.error` with the tag the harness uses (`edits.exc_tag`):
`ValueError:not-in-store` for a reference token that is not in the store.  The refusal of *inserted*
tokens that already live in a store is a C19/C07 matter and is not repeated here: above this layer values
arrive as free-standing token lists (a value that is attached elsewhere is refused by `detach()` before any
store call, see `Driver/RepeatedD.lean`).
-/
namespace Autobean

structure Tk where
  id : Nat
  kind : Nat
  text : List Char
deriving DecidableEq, Repr

namespace Seq

abbrev R := Except String

def notInStore : String := "ValueError:not-in-store"

def ids (s : List Tk) : List Nat := s.map (·.id)

/-- ids distinct. -/
def Distinct (s : List Tk) : Prop := (ids s).Nodup

/-- Cut the list at the first token with id `r`: `(before, token, after)`. -/
def splitId (r : Nat) : List Tk → Option (List Tk × Tk × List Tk)
  | [] => none
  | t :: ts =>
    if t.id = r then some ([], t, ts)
    else match splitId r ts with
      | none => none
      | some (a, x, b) => some (t :: a, x, b)

/-- `get_index`. -/
def idxOf (r : Nat) : List Tk → Option Nat
  | [] => none
  | t :: ts => if t.id = r then some 0 else (idxOf r ts).map (· + 1)

/-- `insert_after(ref, xs)`; `ref = None` inserts at the very beginning. -/
def insertAfter (ref : Option Nat) (xs s : List Tk) : R (List Tk) :=
  match ref with
  | none => .ok (xs ++ s)
  | some r =>
    match splitId r s with
    | none => .error notInStore
    | some (a, t, b) => .ok (a ++ t :: (xs ++ b))

/-- `insert_before(ref, xs)` = `splice(xs, ref)`; `ref = None` inserts at the very beginning. -/
def insertBefore (ref : Option Nat) (xs s : List Tk) : R (List Tk) :=
  match ref with
  | none => .ok (xs ++ s)
  | some r =>
    match splitId r s with
    | none => .error notInStore
    | some (a, t, b) => .ok (a ++ (xs ++ t :: b))

/-- `splice(xs, first, last)`: replace the inclusive range `first … last` by `xs`.
`last` must not precede `first` (tag `range`; never reached by the code modelled above this layer). -/
def spliceRange (first last : Nat) (xs s : List Tk) : R (List Tk) :=
  match splitId first s with
  | none => .error notInStore
  | some (a, f, rest) =>
    match splitId last (f :: rest) with
    | none => if (splitId last a).isSome then .error "range" else .error notInStore
    | some (_, _, b) => .ok (a ++ (xs ++ b))

/-- `remove(first, last)`. -/
def removeRange (first last : Nat) (s : List Tk) : R (List Tk) := spliceRange first last [] s

/-- `get_prev(token)`: id of the token before, `none` for the first token. -/
def prev (r : Nat) (s : List Tk) : R (Option Nat) :=
  match splitId r s with
  | none => .error notInStore
  | some (a, _, _) => .ok (a.getLast?.map (·.id))

/-- `get_next(token)`. -/
def next (r : Nat) (s : List Tk) : R (Option Nat) :=
  match splitId r s with
  | none => .error notInStore
  | some (_, _, b) => .ok (b.head?.map (·.id))

/-- The tokens of the inclusive range (`TokenStore.iter`). -/
def iterRange (first last : Nat) (s : List Tk) : R (List Tk) :=
  match splitId first s with
  | none => .error notInStore
  | some (_, f, rest) =>
    match splitId last (f :: rest) with
    | none => .error notInStore
    | some (m, l, _) => .ok (m ++ [l])

end Seq
end Autobean
