/-
Refusing operations, written in the STATEMENT ORDER of the Python so that "the state at the raise" is
representable (C19).  `M σ α` is a state monad in which a raise keeps the state reached so far (no rollback):
that is exactly what a Python exception does to the objects already mutated.

Transcribed sites
* `RepeatedNodeWrapper.__setitem__(slice)` / `extend`  (properties.py)  — `_check_reusable` first, then delete,
  detach, insert;
* `RepeatedValueWrapper.__setitem__` (value_properties.py) — size check, `_check_reusable`, then the loop of
  single assignments;
* token `raw_text` / `value` setters (base_token_models.py, block_comment.py) — parse / format first, then store;
* `RawModel.detach` (base.py) — refuses a node that is not the whole of its store;
* `unclaim_interleaving_comments` (interleaving_comments.py) — collect, check "not found", then clear flags;
* `Transaction.raw_payee` setter (transaction.py) — assign `raw_string1` (may raise), then create the empty narration;
* `CostSpec.raw_number_per` / `raw_number_total` setters, the branches that change the brace kind (cost_spec.py) —
  build the new component (may raise), flip `{}`/`{{}}`, store; and the bare-number branch: store (may raise), flip;
* `claim_interleaving_comments(comments)` (interleaving_comments.py `_CommentClaimer.claim`) — the three searches
  (pure), raise if a named comment was not met, only then shift placeholders, set flags, replace `items`.
-/
namespace Autobean.Refuse

/-- State survives a raise. -/
def M (σ α : Type) := σ → Except String α × σ

instance {σ : Type} : Monad (M σ) where
  pure a := fun s => (.ok a, s)
  bind m f := fun s =>
    match m s with
    | (.ok a, s') => f a s'
    | (.error e, s') => (.error e, s')

theorem bind_ok {σ α β : Type} {m : M σ α} {f : α → M σ β} {s s' : σ} {a : α} (h : m s = (.ok a, s')) :
    (m >>= f) s = f a s' := by
  show (match m s with | (.ok a, s') => f a s' | (.error e, s') => (.error e, s')) = _
  rw [h]

theorem bind_err {σ α β : Type} {m : M σ α} {f : α → M σ β} {s s' : σ} {e : String} (h : m s = (.error e, s')) :
    (m >>= f) s = (.error e, s') := by
  show (match m s with | (.ok a, s') => f a s' | (.error e, s') => (.error e, s')) = _
  rw [h]

def raiseE {σ α : Type} (e : String) : M σ α := fun s => (.error e, s)
def modifyS {σ : Type} (f : σ → σ) : M σ Unit := fun s => (.ok (), f s)
def getS {σ : Type} : M σ σ := fun s => (.ok s, s)
/-- `if c: <mutation>` (never raises). -/
def whenS {σ : Type} (c : Prop) [Decidable c] (f : σ → σ) : M σ Unit := fun s => (.ok (), if c then f s else s)

/-- A value offered to an editing call: its identity and whether it currently lives inside a document. -/
structure Donor where
  id : Nat
  attached : Bool
deriving DecidableEq, Repr

/-- `_check_reusable(values)`: no value is attached elsewhere and none occurs twice in the batch. -/
def reusable : List Nat → List Donor → Bool
  | _, [] => true
  | seen, d :: ds => !d.attached && !seen.contains d.id && reusable (d.id :: seen) ds

def checkReusable {σ : Type} (vals : List Donor) : M σ Unit :=
  if reusable [] vals then pure () else raiseE "ValueError:reuse"

/-- `value.detach()`: an attached value raises. -/
def detach {σ : Type} (d : Donor) : M σ Unit :=
  if d.attached then raiseE "ValueError:reuse" else pure ()

def detachAll {σ : Type} : List Donor → M σ Unit
  | [] => pure ()
  | d :: ds => do detach d; detachAll ds

/-- The repaired `__setitem__(slice)`: validate the whole batch, then delete, detach, insert.
`del` and `ins` are the (abstract) effects on the document. -/
def setSlice {σ : Type} (del : σ → σ) (ins : List Donor → σ → σ) (vals : List Donor) : M σ Unit := do
  checkReusable vals
  modifyS del
  detachAll vals
  modifyS (ins vals)

/-- The order before the repair (for the witness below): delete first, detach while inserting. -/
def setSliceOld {σ : Type} (del : σ → σ) (ins : List Donor → σ → σ) (vals : List Donor) : M σ Unit := do
  modifyS del
  detachAll vals
  modifyS (ins vals)

/-- `RepeatedValueWrapper.__setitem__`: size check, batch validation, then one assignment per element. -/
def viewSetSliceLoop {σ : Type} (assign : Nat → Donor → σ → σ) : Nat → List Donor → M σ Unit
  | _, [] => pure ()
  | i, d :: ds => do detach d; modifyS (assign i d); viewSetSliceLoop assign (i + 1) ds

def viewSetSlice {σ : Type} (selected : Nat) (assign : Nat → Donor → σ → σ) (vals : List Donor) : M σ Unit :=
  if selected ≠ vals.length then raiseE "ValueError:size"
  else do
    checkReusable vals
    viewSetSliceLoop assign 0 vals

/-- A token: its text and the value it denotes. `parse` may refuse a text. -/
structure TokState (V : Type) where
  text : List Char
  value : V

/-- The repaired `raw_text` setter: parse first, then `_update_raw_text`, then `_value`. -/
def setRawText {V : Type} (parse : List Char → Option V) (s : List Char) : M (TokState V) Unit :=
  match parse s with
  | none => raiseE "ValueError:parse"
  | some v => modifyS fun _ => ⟨s, v⟩

/-- The order before the repair: text replaced, then parse. -/
def setRawTextOld {V : Type} (parse : List Char → Option V) (s : List Char) : M (TokState V) Unit := do
  modifyS fun t => { t with text := s }
  match parse s with
  | none => raiseE "ValueError:parse"
  | some v => modifyS fun t => { t with value := v }

/-- `RawModel.detach` on a node spanning `first..last` of a store given as an id list. -/
def detachNode (store : List Nat) (first last : Nat) : Except String (List Nat) :=
  if store.head? = some first ∧ store.getLast? = some last then .ok store else .error "ValueError:reuse"

/-- `unclaim_interleaving_comments(comments)`: items are `(id, isComment, claimed)`; collect the named
comments, raise if one was not found, only then clear the flags and drop them from the items. -/
def unclaimInterleaving (wanted : List Nat) : M (List (Nat × Bool × Bool)) (List Nat) := fun items =>
  let found := (items.filter fun it => it.2.1 && wanted.contains it.1).map (·.1)
  if wanted.any (fun w => !found.contains w) then raiseE "ValueError:notfound" items
  else (.ok found, items.filter fun it => !(it.2.1 && wanted.contains it.1))

/-! ### `Transaction.raw_payee = value` (transaction.py) -/

/-- `self.raw_string1 = value` through the optional-slot setter: an attached value is refused (`detach` /
`_check_reusable`) before anything is touched; otherwise the slot is set (`set1`). -/
def assignString1 {σ : Type} (set1 : Option Nat → σ → σ) : Option Donor → M σ Unit
  | none => modifyS (set1 none)
  | some d => do detach d; modifyS (set1 (some d.id))

/-- `if value is not None and self.raw_narration is None: self.raw_narration = EscapedString.from_value('')`;
`narrNone` reads `self.raw_narration is None`, `mkNarr` creates the empty narration. -/
def fixNarration {σ : Type} (narrNone : σ → Bool) (mkNarr : σ → σ) (v : Option Donor) : M σ Unit := do
  let s ← getS
  if v.isSome && narrNone s then modifyS mkNarr else pure ()

/-- The repaired setter: assign `raw_string1` first (may raise), then create the empty narration. -/
def setPayee {σ : Type} (set1 : Option Nat → σ → σ) (narrNone : σ → Bool) (mkNarr : σ → σ) (v : Option Donor) :
    M σ Unit := do
  assignString1 set1 v
  fixNarration narrNone mkNarr v

/-- The order before the repair (4d67429): the empty narration first, then the assignment that may raise. -/
def setPayeeOld {σ : Type} (set1 : Option Nat → σ → σ) (narrNone : σ → Bool) (mkNarr : σ → σ) (v : Option Donor) :
    M σ Unit := do
  fixNarration narrNone mkNarr v
  assignString1 set1 v

/-- A concrete transaction header for the witnesses: the two string slots (ids of the string nodes). -/
structure TxnStrings where
  string1 : Option Nat
  string2 : Option Nat
deriving DecidableEq, Repr

/-! ### `CostSpec.raw_number_per` / `raw_number_total` = value, branches that change the brace kind (cost_spec.py) -/

/-- `Amount.from_children(value, deepcopy(currency))` / `CompoundAmount.from_children(value, deepcopy(…), deepcopy(…))`:
the constructor takes `value` over (raises on an attached one) and only reads the cost; the result is a
free-standing component `mk value state`. -/
def buildComp {σ κ : Type} (mk : Donor → σ → κ) (v : Donor) : M σ κ := do
  detach v
  let s ← getS
  pure (mk v s)

/-- The repaired branches `Amount(total) + Number(per)`, `Currency(total) + Number(per)` (and their mirror images
in `raw_number_total`): build the new component (may raise) → `_into_unit_cost` / `_into_total_cost` (`flip`)
→ store it and clear the old component (`store`). -/
def setCostNumber {σ κ : Type} (mk : Donor → σ → κ) (flip : σ → σ) (store : κ → σ → σ) (v : Donor) : M σ Unit := do
  let comp ← buildComp mk v
  modifyS flip
  modifyS (store comp)

/-- The order before the repair (9a73b89): flip the braces, then build. -/
def setCostNumberOld {σ κ : Type} (mk : Donor → σ → κ) (flip : σ → σ) (store : κ → σ → σ) (v : Donor) : M σ Unit := do
  modifyS flip
  let comp ← buildComp mk v
  modifyS (store comp)

/-- The bare branch `/(total) + Number(per) -> Number(per)`: `self.raw_number_comp = value` (refuses an attached
value before touching anything) → flip. -/
def setCostNumberBare {σ : Type} (flip : σ → σ) (store : Nat → σ → σ) (v : Donor) : M σ Unit := do
  detach v
  modifyS (store v.id)
  modifyS flip

def setCostNumberBareOld {σ : Type} (flip : σ → σ) (store : Nat → σ → σ) (v : Donor) : M σ Unit := do
  modifyS flip
  detach v
  modifyS (store v.id)

/-- A concrete cost for the witnesses: `{{…}}` or `{…}` and the component ids. -/
structure CostBraces where
  total : Bool
  comps : List Nat
deriving DecidableEq, Repr

/-! ### `claim_interleaving_comments(comments)` (`_CommentClaimer.claim`) -/

/-- What the three searches return: `comments_before`, `items_inner` (old items and the comments found between
them, `(id, isComment)`), `comments_after`. -/
structure Found where
  before : List Nat
  inner : List (Nat × Bool)
  after : List Nat
deriving Repr

/-- Everything the searches met and `discard`ed from `_comments_to_claim`. -/
def Found.met (f : Found) : List Nat := f.before ++ f.inner.map (·.1) ++ f.after

/-- The comments of `items` in order (the return value). -/
def Found.comments (f : Found) : List Nat := f.before ++ (f.inner.filter (·.2)).map (·.1) ++ f.after

/-- `self._comments_to_claim` after the searches: `None` is `_Universe()` (always falsy), otherwise the named
comments that were not met. -/
def notFound (wanted : Option (List Nat)) (f : Found) : List Nat :=
  match wanted with
  | none => []
  | some w => w.filter fun x => !f.met.contains x

/-- `claim()`: `find` stands for `_find_outer` (backwards), `_find_inner`, `_find_outer` (forwards) — they only
read the document (and `discard` from the claimer's private set); then the "not found" check; only then the
two `_shift_ignored` calls, the `claimed` flags, `items[:] = …` and `_notify()` (`commit`). -/
def claimInterleaving {σ : Type} (find : σ → Found) (wanted : Option (List Nat))
    (shiftBefore shiftAfter : List Nat → σ → σ) (commit : Found → σ → σ) : M σ (List Nat) := do
  let s ← getS
  let f := find s
  if notFound wanted f ≠ [] then raiseE "ValueError:notfound"
  else do
    whenS (f.before ≠ []) (shiftBefore f.before)
    whenS (f.after ≠ []) (shiftAfter f.after)
    modifyS (commit f)
    pure f.comments

/-- A hypothetical order (NOT a historical one — `claim` always checked first): shift, then check.  Used only to
show that `refused_unchanged_claim` depends on the order. -/
def claimInterleavingCheckLast {σ : Type} (find : σ → Found) (wanted : Option (List Nat))
    (shiftBefore shiftAfter : List Nat → σ → σ) (commit : Found → σ → σ) : M σ (List Nat) := do
  let s ← getS
  let f := find s
  whenS (f.before ≠ []) (shiftBefore f.before)
  whenS (f.after ≠ []) (shiftAfter f.after)
  if notFound wanted f ≠ [] then raiseE "ValueError:notfound"
  else do
    modifyS (commit f)
    pure f.comments

end Autobean.Refuse
