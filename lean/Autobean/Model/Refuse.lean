/-
Refusing operations, written in the STATEMENT ORDER of the Python so that "the state at the raise" is
representable (C19).  `M σ α` is a state monad in which a raise keeps the state reached so far (no rollback):
that is exactly what a Python exception does to the objects already mutated.

Transcribed sites
* `RepeatedNodeWrapper.__setitem__(slice)` / `extend`  (properties.py)  — `_check_reusable` first, then delete,
  detach, insert;
* `RepeatedValueWrapper.__setitem__` (value_properties.py) — size check, `_check_reusable`, then the loop of
  single assignments;
* token `raw_text` / `value` setters (base_token_models.py, block_comment.py) — parse / format first, then store;
* `RawModel.detach` (base.py) — refuses a node that is not the whole of its store;
* `unclaim_interleaving_comments` (interleaving_comments.py) — collect, check "not found", then clear flags.
-/
namespace Autobean.Refuse

/-- State survives a raise. -/
def M (σ α : Type) := σ → Except String α × σ

instance {σ : Type} : Monad (M σ) where
  pure a := fun s => (.ok a, s)
  bind m f := fun s =>
    match m s with
    | (.ok a, s') => f a s'
    | (.error e, s') => (.error e, s')

theorem bind_ok {σ α β : Type} {m : M σ α} {f : α → M σ β} {s s' : σ} {a : α} (h : m s = (.ok a, s')) :
    (m >>= f) s = f a s' := by
  show (match m s with | (.ok a, s') => f a s' | (.error e, s') => (.error e, s')) = _
  rw [h]

theorem bind_err {σ α β : Type} {m : M σ α} {f : α → M σ β} {s s' : σ} {e : String} (h : m s = (.error e, s')) :
    (m >>= f) s = (.error e, s') := by
  show (match m s with | (.ok a, s') => f a s' | (.error e, s') => (.error e, s')) = _
  rw [h]

def raiseE {σ α : Type} (e : String) : M σ α := fun s => (.error e, s)
def modifyS {σ : Type} (f : σ → σ) : M σ Unit := fun s => (.ok (), f s)
def getS {σ : Type} : M σ σ := fun s => (.ok s, s)

/-- A value offered to an editing call: its identity and whether it currently lives inside a document. -/
structure Donor where
  id : Nat
  attached : Bool
deriving DecidableEq, Repr

/-- `_check_reusable(values)`: no value is attached elsewhere and none occurs twice in the batch. -/
def reusable : List Nat → List Donor → Bool
  | _, [] => true
  | seen, d :: ds => !d.attached && !seen.contains d.id && reusable (d.id :: seen) ds

def checkReusable {σ : Type} (vals : List Donor) : M σ Unit :=
  if reusable [] vals then pure () else raiseE "ValueError:reuse"

/-- `value.detach()`: an attached value raises. -/
def detach {σ : Type} (d : Donor) : M σ Unit :=
  if d.attached then raiseE "ValueError:reuse" else pure ()

def detachAll {σ : Type} : List Donor → M σ Unit
  | [] => pure ()
  | d :: ds => do detach d; detachAll ds

/-- The repaired `__setitem__(slice)`: validate the whole batch, then delete, detach, insert.
`del` and `ins` are the (abstract) effects on the document. -/
def setSlice {σ : Type} (del : σ → σ) (ins : List Donor → σ → σ) (vals : List Donor) : M σ Unit := do
  checkReusable vals
  modifyS del
  detachAll vals
  modifyS (ins vals)

/-- The order before the repair (for the witness below): delete first, detach while inserting. -/
def setSliceOld {σ : Type} (del : σ → σ) (ins : List Donor → σ → σ) (vals : List Donor) : M σ Unit := do
  modifyS del
  detachAll vals
  modifyS (ins vals)

/-- `RepeatedValueWrapper.__setitem__`: size check, batch validation, then one assignment per element. -/
def viewSetSliceLoop {σ : Type} (assign : Nat → Donor → σ → σ) : Nat → List Donor → M σ Unit
  | _, [] => pure ()
  | i, d :: ds => do detach d; modifyS (assign i d); viewSetSliceLoop assign (i + 1) ds

def viewSetSlice {σ : Type} (selected : Nat) (assign : Nat → Donor → σ → σ) (vals : List Donor) : M σ Unit :=
  if selected ≠ vals.length then raiseE "ValueError:size"
  else do
    checkReusable vals
    viewSetSliceLoop assign 0 vals

/-- A token: its text and the value it denotes. `parse` may refuse a text. -/
structure TokState (V : Type) where
  text : List Char
  value : V

/-- The repaired `raw_text` setter: parse first, then `_update_raw_text`, then `_value`. -/
def setRawText {V : Type} (parse : List Char → Option V) (s : List Char) : M (TokState V) Unit :=
  match parse s with
  | none => raiseE "ValueError:parse"
  | some v => modifyS fun _ => ⟨s, v⟩

/-- The order before the repair: text replaced, then parse. -/
def setRawTextOld {V : Type} (parse : List Char → Option V) (s : List Char) : M (TokState V) Unit := do
  modifyS fun t => { t with text := s }
  match parse s with
  | none => raiseE "ValueError:parse"
  | some v => modifyS fun t => { t with value := v }

/-- `RawModel.detach` on a node spanning `first..last` of a store given as an id list. -/
def detachNode (store : List Nat) (first last : Nat) : Except String (List Nat) :=
  if store.head? = some first ∧ store.getLast? = some last then .ok store else .error "ValueError:reuse"

/-- `unclaim_interleaving_comments(comments)`: items are `(id, isComment, claimed)`; collect the named
comments, raise if one was not found, only then clear the flags and drop them from the items. -/
def unclaimInterleaving (wanted : List Nat) : M (List (Nat × Bool × Bool)) (List Nat) := fun items =>
  let found := (items.filter fun it => it.2.1 && wanted.contains it.1).map (·.1)
  if wanted.any (fun w => !found.contains w) then raiseE "ValueError:notfound" items
  else (.ok found, items.filter fun it => !(it.2.1 && wanted.contains it.1))

end Autobean.Refuse
