/-
Model of the tree level of `autobean_refactor/models/base.py` (DESIGN.md §3.3, properties C11 and C20):

* `RawModel.tokens`                         → `tokensOf`
* `RawTokenModel.__eq__` / `__hash__`       → `TTk.kt`, `tokEq`, `TTk.hash`
* `RawTreeModel.__eq__` + the generated `_eq`, `Repeated._eq`, `NumberAddExpr._eq`, `NumberMulExpr._eq`
                                            → `treeEq` / `treeEqL`
* `RawTreeModel.__deepcopy__`, `MappingTokenTransformer.transform`, the generated `clone`,
  `Repeated.clone`, the per-class token `_clone`                                → `deepcopy`, `renId`, `copyToks`, `clone`
* the generated `_reattach` / `Repeated._reattach`                              → `reattachAll`

A document is a store `List TTk` (the abstract store of DESIGN §3.2; C07 licenses the abstraction) and a
rose tree whose leaves are token ids.

Encoding.  DESIGN §3.3 describes `Tree = tok id | node cls storeTag indentBy (fields : List Field)` with
`Field = req Tree | opt (Option Tree) | rep placeholderId (List Tree)`.  To keep Lean's structural
recursion (and one induction principle, `Tree.induct`) the three field forms are constructors of the
same inductive, nested through `List` only:

  `req t ↦ t`,  `opt none ↦ absent`,  `opt (some t) ↦ t`,  `rep ph items ↦ rep tag ph items`

(`Field`, `Field.toTree`, `Tree.mk` below give the DESIGN view).  A `rep` carries its own store tag
because `internal.Repeated` is a `RawTreeModel` with its own `_token_store`.  Hand-written classes:
`Repeated` is `rep`; `NumberAddExpr` / `NumberMulExpr` are `node`s whose field list is
`operand₀, op₀, operand₁, …` (all required) — their `_eq` compares the operand tuple and the operator tuple,
which is the pairwise comparison of that interleaved list.

Python raising is `Except String` with a short tag.  Every function is total and executable; every
recursive function is structurally recursive (a `…L` companion walks the child list).
-/
namespace Autobean

/-- A store token: identity, RULE (as an index), raw text, and the `claimed` flag of block comments
(`False` for every other class). -/
structure TTk where
  id : Nat
  kind : Nat
  text : List Char
  claimed : Bool
deriving DecidableEq, Repr

inductive Tree where
  | tok (id : Nat)
  | absent
  | node (cls tag : Nat) (ind : Option (List Char)) (fields : List Tree)
  | rep (tag ph : Nat) (items : List Tree)
deriving Repr, Inhabited

/-- The DESIGN §3.3 view of a field. -/
inductive Field where
  | req (t : Tree)
  | opt (t : Option Tree)
  | rep (tag ph : Nat) (items : List Tree)

def Field.toTree : Field → Tree
  | .req t => t
  | .opt none => .absent
  | .opt (some t) => t
  | .rep g ph is => .rep g ph is

/-- `node cls storeTag indentBy fields` of DESIGN §3.3. -/
def Tree.mk (cls tag : Nat) (ind : Option (List Char)) (fs : List Field) : Tree :=
  .node cls tag ind (fs.map Field.toTree)

/-- Induction principle for the nested inductive: children are covered by `∀ t ∈ fs, P t`. -/
theorem Tree.induct {P : Tree → Prop} (tok : ∀ i, P (.tok i)) (absent : P .absent)
    (node : ∀ c g ind fs, (∀ t ∈ fs, P t) → P (.node c g ind fs))
    (rep : ∀ g ph is, (∀ t ∈ is, P t) → P (.rep g ph is)) : ∀ t, P t := by
  intro t
  refine Tree.rec (motive_1 := P) (motive_2 := fun l => ∀ t ∈ l, P t) tok absent ?_ ?_ ?_ ?_ t
  · intro c g ind fs ih; exact node c g ind fs ih
  · intro g ph is ih; exact rep g ph is ih
  · intro t h; cases h
  · intro hd tl h1 h2 t ht
    cases ht with
    | head => exact h1
    | tail _ h => exact h2 t h

/-! ### Structural equality of trees (decidable; used by examples and the driver only) -/

mutual
def Tree.beq : Tree → Tree → Bool
  | .tok i, .tok j => i == j
  | .absent, .absent => true
  | .node c g ind fs, .node c' g' ind' fs' => c == c' && g == g' && ind == ind' && Tree.beqL fs fs'
  | .rep g ph is, .rep g' ph' is' => g == g' && ph == ph' && Tree.beqL is is'
  | _, _ => false
def Tree.beqL : List Tree → List Tree → Bool
  | [], [] => true
  | a :: as, b :: bs => Tree.beq a b && Tree.beqL as bs
  | _, _ => false
end

/-! ### Leaves, tags, shape -/

mutual
/-- Depth-first leaf sequence (`intro.leaves`): placeholders of repeated fields included. -/
def Tree.leaves : Tree → List Nat
  | .tok i => [i]
  | .absent => []
  | .node _ _ _ fs => Tree.leavesL fs
  | .rep _ ph is => ph :: Tree.leavesL is
def Tree.leavesL : List Tree → List Nat
  | [] => []
  | t :: ts => t.leaves ++ Tree.leavesL ts
end

mutual
/-- The store tags of all nodes (`node` and `rep`), pre-order. -/
def Tree.tags : Tree → List Nat
  | .tok _ => []
  | .absent => []
  | .node _ g _ fs => g :: Tree.tagsL fs
  | .rep g _ is => g :: Tree.tagsL is
def Tree.tagsL : List Tree → List Nat
  | [] => []
  | t :: ts => t.tags ++ Tree.tagsL ts
end

mutual
/-- `(class, tag)` of all nodes, pre-order (`rep` is listed with class `0`). -/
def Tree.nodes : Tree → List (Nat × Nat)
  | .tok _ => []
  | .absent => []
  | .node c g _ fs => (c, g) :: Tree.nodesL fs
  | .rep g _ is => (0, g) :: Tree.nodesL is
def Tree.nodesL : List Tree → List (Nat × Nat)
  | [] => []
  | t :: ts => t.nodes ++ Tree.nodesL ts
end

mutual
/-- The tree with token identities and store tags erased: classes, field structure, `indent_by`. -/
def Tree.shape : Tree → Tree
  | .tok _ => .tok 0
  | .absent => .absent
  | .node c _ ind fs => .node c 0 ind (Tree.shapeL fs)
  | .rep _ _ is => .rep 0 0 (Tree.shapeL is)
def Tree.shapeL : List Tree → List Tree
  | [] => []
  | t :: ts => t.shape :: Tree.shapeL ts
end

/-- Class of the root (`type(self)`): tokens and absent children have none. -/
def Tree.cls : Tree → Option Nat
  | .node c _ _ _ => some c
  | .rep _ _ _ => some 0
  | _ => none

/-- The class number of `File` in every dump.  `File` is the one class whose `first_token` / `last_token` are not
its first / last leaf but the ends of its store (`models/file.py`: `self._token_store.get_first() or …`). -/
def fileCls : Nat := 1

def Tree.isFile : Tree → Bool
  | .node c _ _ _ => c == fileCls
  | _ => false

mutual
/-- No node of class `File` anywhere in the tree. -/
def Tree.fileFree : Tree → Bool
  | .tok _ => true
  | .absent => true
  | .node c _ _ fs => c != fileCls && Tree.fileFreeL fs
  | .rep _ _ is => Tree.fileFreeL is
def Tree.fileFreeL : List Tree → Bool
  | [] => true
  | t :: ts => t.fileFree && Tree.fileFreeL ts
end

/-- `File` occurs at the root only (the grammar has no nested files). -/
def Tree.innerFileFree : Tree → Bool
  | .node _ _ _ fs => Tree.fileFreeL fs
  | t => t.fileFree

mutual
/-- `subAt t path`: the child reached by field/item indexes. -/
def Tree.subAt : Tree → List Nat → Option Tree
  | t, [] => some t
  | .node _ _ _ fs, k :: p => Tree.subAtL fs k p
  | .rep _ _ is, k :: p => Tree.subAtL is k p
  | .tok _, _ :: _ => none
  | .absent, _ :: _ => none
def Tree.subAtL : List Tree → Nat → List Nat → Option Tree
  | [], _, _ => none
  | t :: _, 0, p => t.subAt p
  | _ :: ts, k + 1, p => Tree.subAtL ts k p
end

/-! ### Store segments: `RawModel.tokens` -/

def ids (s : List TTk) : List Nat := s.map (·.id)

def textOf (s : List TTk) : List Char := (s.map (·.text)).flatten

/-- The prefix of `s` up to and including the first token with id `l` (`none` when there is none). -/
def upTo (l : Nat) : List TTk → Option (List TTk)
  | [] => none
  | t :: ts => if t.id = l then some [t] else (upTo l ts).map (t :: ·)

/-- `list(token_store.iter(first, last))` on the flat store: the slice from `first` to `last`
inclusive; empty when `last` does not come at or after `first` (the Python slice `[i:j+1]`) or when a
token is not in the store (Python raises `ValueError` there; under `TInv` it does not happen). -/
def seg : List TTk → Nat → Nat → List TTk
  | [], _, _ => []
  | t :: ts, f, l => if t.id = f then (upTo l (t :: ts)).getD [] else seg ts f l

/-- The store slice from the first to the last leaf (`[]` without leaves). -/
def spanOf (s : List TTk) (t : Tree) : List TTk :=
  match t.leaves.head?, t.leaves.getLast? with
  | some f, some l => seg s f l
  | _, _ => []

/-- `RawModel.tokens`: `list(store.iter(first_token, last_token))`.  For `File` the two ends are the ends of
the store, so the list is the whole store; for every other model they are the first and the last leaf. -/
def tokensOf (s : List TTk) (t : Tree) : List TTk :=
  if t.isFile then s else spanOf s t

/-- What token equality looks at: `(RULE, raw_text)` — not `claimed`, not identity. -/
def TTk.kt (t : TTk) : Nat × List Char := (t.kind, t.text)

/-- `RawTokenModel.__eq__`. -/
def tokEq (a b : TTk) : Bool := a.kt == b.kt

/-- `RawTokenModel.__hash__`: `hash((RULE, raw_text))`. -/
def TTk.hash (t : TTk) : UInt64 := Hashable.hash t.kt

/-- `[(RULE, raw_text) for token in model.tokens]`: what `self.tokens == other.tokens` compares. -/
def segKT (s : List TTk) (t : Tree) : List (Nat × List Char) := (tokensOf s t).map TTk.kt

/-! ### Equality: `RawTreeModel.__eq__`, `_eq` -/

mutual
/-- `a == b` for a model `a` of the document with store `sa` and `b` of the document with store `sb`.

* token vs token: `RULE` and `raw_text` (a leaf is looked up in its store: `tokensOf s (tok i) = [token i]`);
* `None == None`;
* tree vs tree: `self.tokens == other.tokens and self._eq(other)`; the generated `_eq` is
  `isinstance(other, C) and` every field pairwise `and indent_by`; `Repeated._eq` compares the items
  pairwise (lengths included) and not the placeholder;
* anything else (`None` vs model, token vs tree, different classes) is `False`. -/
def treeEq (sa sb : List TTk) : Tree → Tree → Bool
  | .tok i, .tok j => segKT sa (.tok i) == segKT sb (.tok j)
  | .absent, .absent => true
  | .node c g ind fs, .node c' g' ind' fs' =>
      segKT sa (.node c g ind fs) == segKT sb (.node c' g' ind' fs') && c == c' && treeEqL sa sb fs fs' && ind == ind'
  | .rep g ph is, .rep g' ph' is' =>
      segKT sa (.rep g ph is) == segKT sb (.rep g' ph' is') && treeEqL sa sb is is'
  | _, _ => false
def treeEqL (sa sb : List TTk) : List Tree → List Tree → Bool
  | [], [] => true
  | a :: as, b :: bs => treeEq sa sb a b && treeEqL sa sb as bs
  | _, _ => false
end

mutual
/-- Same class / field structure / `indent_by` recursively, leaf tokens compared on `(RULE, raw_text)`;
the token lists of inner nodes are *not* compared. -/
def shapeEq (sa sb : List TTk) : Tree → Tree → Bool
  | .tok i, .tok j => segKT sa (.tok i) == segKT sb (.tok j)
  | .absent, .absent => true
  | .node c _ ind fs, .node c' _ ind' fs' => c == c' && shapeEqL sa sb fs fs' && ind == ind'
  | .rep _ _ is, .rep _ _ is' => shapeEqL sa sb is is'
  | _, _ => false
def shapeEqL (sa sb : List TTk) : List Tree → List Tree → Bool
  | [], [] => true
  | a :: as, b :: bs => shapeEq sa sb a b && shapeEqL sa sb as bs
  | _, _ => false
end

/-! ### Deep copy -/

/-- `token_map[id(token)]` of `MappingTokenTransformer` for the map built by `__deepcopy__`: the k-th
token of the copied range is mapped to the fresh identity `base + k` (`none` = `KeyError`). -/
def renId (base : Nat) : List Nat → Nat → Option Nat
  | [], _ => none
  | x :: xs, i => if x = i then some base else renId (base + 1) xs i

/-- `copy.deepcopy(token)` for every token of the range (`_clone`: same class, text and `claimed`,
a new identity). -/
def copyToks (base : Nat) : List TTk → List TTk
  | [] => []
  | t :: ts => { t with id := base } :: copyToks (base + 1) ts

mutual
/-- The generated `clone(token_store, token_transformer)`: every field is cloned, `indent_by` is passed,
the new node lives in the new store `σ`. -/
def clone (m : Nat → Option Nat) (σ : Nat) : Tree → Except String Tree
  | .tok i => match m i with
    | some j => .ok (.tok j)
    | none => .error "KeyError"
  | .absent => .ok .absent
  | .node c _ ind fs => match cloneL m σ fs with
    | .ok fs' => .ok (.node c σ ind fs')
    | .error e => .error e
  | .rep _ ph is => match m ph with
    | some ph' => match cloneL m σ is with
      | .ok is' => .ok (.rep σ ph' is')
      | .error e => .error e
    | none => .error "KeyError"
def cloneL (m : Nat → Option Nat) (σ : Nat) : List Tree → Except String (List Tree)
  | [] => .ok []
  | t :: ts => match clone m σ t with
    | .ok t' => match cloneL m σ ts with
      | .ok ts' => .ok (t' :: ts')
      | .error e => .error e
    | .error e => .error e
end

/-- `RawTreeModel.__deepcopy__`: copy the tokens of `first_token..last_token` into a new store (fresh
identities `base, base+1, …`, tag `σ`) and rebuild the tree through `clone` with the identity map. -/
def deepcopy (base σ : Nat) (s : List TTk) (t : Tree) : Except String (List TTk × Tree) :=
  if t.isFile then
    -- `File.first_token` / `last_token` are the store ends: the whole store is copied
    match clone (renId base (ids s)) σ t with
    | .ok t' => .ok (copyToks base s, t')
    | .error e => .error e
  else
  match t.leaves.head?, t.leaves.getLast? with
  | some f, some l =>
    if f ∈ ids s ∧ l ∈ ids s then
      let S := seg s f l
      match clone (renId base (ids S)) σ t with
      | .ok t' => .ok (copyToks base S, t')
      | .error e => .error e
    else .error "ValueError:not-in-store"
  | _, _ => .error "AttributeError"

mutual
/-- The tree with every leaf renamed by `ρ` and every node tagged `σ`: what `clone` returns when the map
is defined on every leaf. -/
def Tree.mapIds (ρ : Nat → Nat) (σ : Nat) : Tree → Tree
  | .tok i => .tok (ρ i)
  | .absent => .absent
  | .node c _ ind fs => .node c σ ind (Tree.mapIdsL ρ σ fs)
  | .rep _ ph is => .rep σ (ρ ph) (Tree.mapIdsL ρ σ is)
def Tree.mapIdsL (ρ : Nat → Nat) (σ : Nat) : List Tree → List Tree
  | [] => []
  | t :: ts => t.mapIds ρ σ :: Tree.mapIdsL ρ σ ts
end

/-- `reattach(token_store)` with the identity transformer: set the store tag everywhere. -/
def reattachAll (σ : Nat) (t : Tree) : Tree := t.mapIds id σ

/-! ### The structural invariant (DESIGN §3.3 items 1–2) -/

/-- `TInv σ s t`: store identities are distinct; the leaves of `t` occur in the store in depth-first
order (hence are distinct); `t` has a leaf; every node carries the store's tag `σ`; a `File` node occurs at
the root only. -/
structure TInv (σ : Nat) (s : List TTk) (t : Tree) : Prop where
  storeNodup : (ids s).Nodup
  leavesSub : t.leaves.Sublist (ids s)
  nonempty : t.leaves ≠ []
  tagsEq : ∀ g ∈ t.tags, g = σ
  fileRoot : t.innerFileFree = true

instance (σ : Nat) (s : List TTk) (t : Tree) : Decidable (TInv σ s t) :=
  if h1 : (ids s).Nodup then
    if h2 : t.leaves.Sublist (ids s) then
      if h3 : t.leaves ≠ [] then
        if h4 : ∀ g ∈ t.tags, g = σ then
          if h5 : t.innerFileFree = true then isTrue ⟨h1, h2, h3, h4, h5⟩
          else isFalse fun h => h5 h.fileRoot
        else isFalse fun h => h4 h.tagsEq
      else isFalse fun h => h3 h.nonempty
    else isFalse fun h => h2 h.leavesSub
  else isFalse fun h => h1 h.storeNodup

/-- The first violated clause of `TInv` (driver `T inv`). -/
def tinvViolation (σ : Nat) (s : List TTk) (t : Tree) : Option String :=
  if ¬ (ids s).Nodup then some "store-dup"
  else if t.leaves = [] then some "no-leaf"
  else if ¬ t.leaves.Nodup then some "leaf-dup"
  else if ¬ (∀ i ∈ t.leaves, i ∈ ids s) then some "leaf-not-in-store"
  else if ¬ t.leaves.Sublist (ids s) then some "leaf-order"
  else if ¬ (∀ g ∈ t.tags, g = σ) then some "stale-store"
  else if ¬ (t.innerFileFree = true) then some "inner-file"
  else none

/-- `t` spans its whole store: `first_token`/`last_token` are the store ends. -/
def spansWholeStore (s : List TTk) (t : Tree) : Prop := tokensOf s t = s

end Autobean
