import Autobean.Model.Comments
/-
Model of the TREE WALK of `auto_claim_comments()`:

  `autobean_refactor/models/generated/*.py`             `auto_claim_comments` of every generated class:
        self.claim_leading_comment(ignore_if_already_claimed=True)       (block-commentable classes only)
        self.claim_trailing_comment(ignore_if_already_claimed=True)
        then every public field, LAST to FIRST:
            repeated field      -> `self.raw_x[_with_comments].auto_claim_comments()`
            any other field     -> `type(self)._x.auto_claim_comments(self._x)`  (= `value.auto_claim_comments()` if present)
  `models/internal/repeated.py`                         `Repeated.auto_claim_comments`: `for item in reversed(self.items)`
  `models/internal/properties.py`                       `RepeatedNodeWrapper.auto_claim_comments` = the above
  `models/internal/interleaving_comments.py`            `RepeatedNodeWithInterleavingCommentsWrapper.auto_claim_comments`:
                                                        `super().auto_claim_comments()` then `self.claim_interleaving_comments()`
  `models/base.py`                                      tokens (and number expressions): `pass`
  `models/generated/*.py` `first_token` / `last_token`  the `or`-chains: an absent optional field is skipped, a present
                                                        field / a repeated field ends the chain (`Repeated.first_token` is its
                                                        placeholder, `Repeated.last_token` its last item's last token or the
                                                        placeholder)
  `models/file.py`                                      `File.first_token` / `last_token` = the ends of the store
  `parser.py`                                           `parse(…, auto_claim_comments=True)` = `model.auto_claim_comments()`

The tree (`CNode`) is STATIC: it lists, per model, its fields in document order as far as attribution is concerned.
Everything attribution changes lives in the `Doc` of `Model/Comments.lean`: the store, the leading/trailing slots
(`node id ↦ comment id`) and, per repeated field, the current sequence of entries (`reps`: model entries and comment
entries in order).  `first_token` / `last_token` are therefore functions of the CURRENT document (`firstTok`, `lastTok`),
like the real chains: once a node has claimed a leading comment its first token is that comment.

Conventions
* `Doc.reps` has an entry for every repeated field of the tree: its entries in order.  The `first`/`last` of a MODEL entry
  stored there are a cache that nobody reads (the walk recomputes them from the tree with `refreshItems` right before the
  interleaving claim reads them, exactly when the real `_find_inner` evaluates `item.first_token`); the k-th model entry is
  the k-th child of the field in the tree.
* Refusals of the model for inputs the real code is never given: `"no-token"` (a chain without any present field),
  `"bad-items"` (the entries of a field and its children in the tree disagree in number), plus those of `Comments.lean`.
* The walk also returns the list of primitive calls it issued, in order, with the ids it read at that moment (`Call` of
  `Comments.lean`), so that the ORDER of the real calls can be compared, not only the final attribution.
-/
namespace Autobean.Comments

mutual
  /-- A model as far as `auto_claim_comments` is concerned. -/
  inductive CNode where
    /-- a block-commentable model (`SurroundingCommentsMixin`): directive, posting, meta item.  `id` keys its slots. -/
    | surround (id : Nat) (fields : CFields)
    /-- any other generated model; `wholeStore` = the hand-written `File` whose first/last token are the store's ends -/
    | bare (wholeStore : Bool) (fields : CFields)
  inductive CFields where
    | nil
    | cons (f : CField) (fs : CFields)
  /-- A public field, in document order. -/
  inductive CField where
    /-- a token or a model that holds no block comment (`auto_claim_comments` does nothing there); `none` = an absent
    optional field; `some (first, last)` = its first and last token -/
    | plain (span : Option (Nat × Nat))
    /-- a present required/optional field that is itself a model taking part in attribution -/
    | child (n : CNode)
    /-- a repeated field: its `Repeated` node is keyed `r`, its placeholder is `ph`; `withComments` = the field is
    exposed through `raw_x_with_comments` (block comments may be entries); `items` = its MODEL entries in order -/
    | rep (r ph : Nat) (withComments : Bool) (items : CNodes)
  inductive CNodes where
    | nil
    | cons (n : CNode) (ns : CNodes)
end

def CNodes.toList : CNodes → List CNode
  | .nil => []
  | .cons n ns => n :: ns.toList

def CFields.toList : CFields → List CField
  | .nil => []
  | .cons f fs => f :: fs.toList

def CNodes.ofList : List CNode → CNodes
  | [] => .nil
  | n :: ns => .cons n (CNodes.ofList ns)

def CFields.ofList : List CField → CFields
  | [] => .nil
  | f :: fs => .cons f (CFields.ofList fs)

/-! ### `first_token` / `last_token` as functions of the current document -/

mutual
  /-- `model.first_token`: `(self._leading_comment and …) or <first present field>.first_token`. -/
  def firstTok (d : Doc) : CNode → Option Nat
    | .surround id fs =>
      match lookup id d.leading with
      | some c => some c
      | none => firstOfFields d fs
    | .bare ws fs =>
      if ws then (match d.store.head? with | some t => some t.id | none => firstOfFields d fs)
      else firstOfFields d fs
  def firstOfFields (d : Doc) : CFields → Option Nat
    | .nil => none
    | .cons f fs =>
      match firstOfField d f with
      | some t => some t
      | none => firstOfFields d fs
  def firstOfField (d : Doc) : CField → Option Nat
    | .plain none => none
    | .plain (some sp) => some sp.1
    | .child n => firstTok d n
    | .rep _ ph _ _ => some ph
end

mutual
  /-- `model.last_token`: `(self._trailing_comment and …) or <last present field>.last_token`. -/
  def lastTok (d : Doc) : CNode → Option Nat
    | .surround id fs =>
      match lookup id d.trailing with
      | some c => some c
      | none => lastOfFields d fs
    | .bare ws fs =>
      if ws then (match d.store.getLast? with | some t => some t.id | none => lastOfFields d fs)
      else lastOfFields d fs
  /-- scans the fields from the last one backwards -/
  def lastOfFields (d : Doc) : CFields → Option Nat
    | .nil => none
    | .cons f fs =>
      match lastOfFields d fs with
      | some t => some t
      | none => lastOfField d f
  def lastOfField (d : Doc) : CField → Option Nat
    | .plain none => none
    | .plain (some sp) => some sp.2
    | .child n => lastTok d n
    | .rep r ph _ items =>
      -- `Repeated.last_token`: `self.items[-1].last_token if self.items else self._placeholder`
      match (repItems r d.reps).getLast? with
      | none => some ph
      | some it => if it.isComment then some it.first else lastOfNodes d items
  /-- `last_token` of the last model of the list -/
  def lastOfNodes (d : Doc) : CNodes → Option Nat
    | .nil => none
    | .cons n ns =>
      match ns with
      | .nil => lastTok d n
      | .cons _ _ => lastOfNodes d ns
end

/-- `Repeated.items` as `_find_inner` sees them: comment entries as they are, the k-th model entry with the
`first_token` / `last_token` of the k-th child evaluated NOW. -/
def refreshItems (d : Doc) : List CNode → List Item → Except String (List Item)
  | ns, [] => (match ns with | [] => .ok [] | _ :: _ => .error "bad-items")
  | ns, it :: its =>
    if it.isComment then
      match refreshItems d ns its with
      | .error e => .error e
      | .ok r => .ok (it :: r)
    else
      match ns with
      | [] => .error "bad-items"
      | n :: ns' =>
        match firstTok d n, lastTok d n with
        | some f, some l =>
          (match refreshItems d ns' its with
           | .error e => .error e
           | .ok r => .ok (⟨f, l, false⟩ :: r))
        | _, _ => .error "no-token"

/-- The interleaving claim of repeated field `r` of model `owner`, as `auto_claim_comments` issues it: entries with
their current spans, `model.first_token` / `model.last_token` read now, no explicit comment set. -/
def walkInter (d : Doc) (owner : CNode) (r ph : Nat) (items : CNodes) : Except String (Doc × List Call) :=
  match refreshItems d items.toList (repItems r d.reps) with
  | .error e => .error e
  | .ok its =>
    let d2 : Doc := { d with reps := setRep r its d.reps }
    match firstTok d2 owner, lastTok d2 owner with
    | some mf, some ml =>
      (match claimInter r ph mf ml none d2 with
       | .error e => .error e
       | .ok (d3, _) => .ok (d3, [Call.claimInter r ph mf ml none]))
    | _, _ => .error "no-token"

/-- The two self-claims of a block-commentable model. -/
def walkSelf (d : Doc) (id : Nat) (self : CNode) : Except String (Doc × List Call) :=
  match firstTok d self with
  | none => .error "no-token"
  | some f =>
    match claimLeading id f true d with
    | .error e => .error e
    | .ok (d1, _) =>
      match lastTok d1 self with
      | none => .error "no-token"
      | some l =>
        match claimTrailing id l true d1 with
        | .error e => .error e
        | .ok (d2, _) => .ok (d2, [Call.claimLeading id f true, Call.claimTrailing id l true])

mutual
  /-- `model.auto_claim_comments()` -/
  def walkNode (d : Doc) : CNode → Except String (Doc × List Call)
    | .surround id fs =>
      match walkSelf d id (.surround id fs) with
      | .error e => .error e
      | .ok (d2, c1) =>
        match walkFieldsRev d2 (.surround id fs) fs with
        | .error e => .error e
        | .ok (d3, c2) => .ok (d3, c1 ++ c2)
    | .bare ws fs => walkFieldsRev d (.bare ws fs) fs
  /-- the public fields, last to first -/
  def walkFieldsRev (d : Doc) (owner : CNode) : CFields → Except String (Doc × List Call)
    | .nil => .ok (d, [])
    | .cons f fs =>
      match walkFieldsRev d owner fs with
      | .error e => .error e
      | .ok (d1, c1) =>
        match walkField d1 owner f with
        | .error e => .error e
        | .ok (d2, c2) => .ok (d2, c1 ++ c2)
  def walkField (d : Doc) (owner : CNode) : CField → Except String (Doc × List Call)
    | .plain _ => .ok (d, [])
    | .child n => walkNode d n
    | .rep r ph wc items =>
      match walkNodesRev d items with
      | .error e => .error e
      | .ok (d1, c1) =>
        if wc then
          match walkInter d1 owner r ph items with
          | .error e => .error e
          | .ok (d2, c2) => .ok (d2, c1 ++ c2)
        else .ok (d1, c1)
  /-- `Repeated.auto_claim_comments`: `for item in reversed(self.items): item.auto_claim_comments()` (comment entries
  do nothing) -/
  def walkNodesRev (d : Doc) : CNodes → Except String (Doc × List Call)
    | .nil => .ok (d, [])
    | .cons n ns =>
      match walkNodesRev d ns with
      | .error e => .error e
      | .ok (d1, c1) =>
        match walkNode d1 n with
        | .error e => .error e
        | .ok (d2, c2) => .ok (d2, c1 ++ c2)
end

/-- `root.auto_claim_comments()`: the resulting document. -/
def autoClaimWalk (d : Doc) (n : CNode) : Except String Doc :=
  match walkNode d n with
  | .error e => .error e
  | .ok (d', _) => .ok d'

/-- The primitive calls of `root.auto_claim_comments()`, in order. -/
def autoClaimCalls (d : Doc) (n : CNode) : Except String (List Call) :=
  match walkNode d n with
  | .error e => .error e
  | .ok (_, cs) => .ok cs

/-- A `File`: one repeated field with interleaving comments, first/last token = the ends of the store. -/
def fileRoot (r ph : Nat) (items : CNodes) : CNode :=
  .bare true (.cons (.rep r ph true items) .nil)

/-! ### What an observer can see of a document -/

/-- The entries of a repeated field without the cached spans of model entries: `some c` = comment `c`, `none` = a model. -/
def itemKinds (items : List Item) : List (Option Nat) :=
  items.map fun it => if it.isComment then some it.first else none

/-- A document without the span cache of `reps`. -/
def Doc.obs (d : Doc) : Store × List (Nat × Nat) × List (Nat × Nat) × List (Nat × List (Option Nat)) :=
  (d.store, d.leading, d.trailing, d.reps.map fun p => (p.1, itemKinds p.2))

/-! ### The layout under which the final claim of a `File` leaves nothing unclaimed -/

/-- A token behind the last entry that does not stop `_find_outer`: a newline, blank or zero-width token, or an
unclaimed block comment (with text, as every BLOCK_COMMENT lexeme has). -/
def tailOk (t : Tk) : Bool :=
  if t.kind = .blockComment then !t.claimed && !t.text.isEmpty else skippable t

/-- `cur` = the tokens after the placeholder, `items` = the entries of the field with their current spans.  True iff the
entries are laid out in order, every block comment INSIDE an entry's span is claimed, and behind the last entry there
are only newlines, blanks, zero-width tokens and unclaimed block comments (nothing that stops `_find_outer`). -/
def coverInner : List Tk → List Item → Bool
  | cur, [] => cur.all tailOk
  | cur, it :: its =>
    match splitAt? it.last (cur.dropWhile (fun t => t.id != it.first)) with
    | none => false
    | some (a, x, after) =>
      (a ++ [x]).all (fun t => t.kind != .blockComment || t.claimed) && coverInner after its

/-- The hypothesis of `walk_all_claimed_partial`, computed: after the directives' own walks (`d1`) the placeholder of
the `File` is the first token of the store and `coverInner` holds for the rest of the store. -/
def fileLayoutOk (d : Doc) (r ph : Nat) (items : CNodes) : Bool :=
  match walkNodesRev d items with
  | .error _ => false
  | .ok (d1, _) =>
    match refreshItems d1 items.toList (repItems r d1.reps), d1.store with
    | .ok its, p :: post => p.id = ph && isPh p && coverInner post its
    | _, _ => false

end Autobean.Comments
