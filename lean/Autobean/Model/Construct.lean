/-
Model of the generated `from_children` constructors, `fields.detach_with_separators`,
`Repeated.from_children` / `repeated_field.create_repeated` (autobean_refactor/models/generated/*.py,
models/internal/fields.py, models/internal/repeated.py).

A constructor emits one token list from a *recipe* (the `tokens = [...]` list of the generated code, extracted
by the translator): required children verbatim, literal separators, optional-left children preceded by a copy
of their separators, optional-right children followed by one, repeated fields as
`placeholder :: (separators_before | separators) ++ item0 ++ separators ++ item1 …`.
-/
namespace Autobean.Construct

structure Tk where
  kind : String
  text : List Char
deriving DecidableEq, Repr

inductive Piece where
  | lit (t : Tk)                                                    -- `Whitespace.from_default()`
  | child (ts : List Tk)                                            -- `*x.detach()`
  | optL (seps : List Tk) (c : Option (List Tk))                    -- optional_left_field.detach_with_separators
  | optR (seps : List Tk) (c : Option (List Tk))                    -- optional_right_field.detach_with_separators
  | rep (ph : Tk) (sepsBefore seps : List Tk) (items : List (List Tk))  -- Repeated.from_children
deriving Repr

/-- `Repeated.from_children`: separators_before (when declared) before the first item, separators before the
others. `first` tells whether the next item is the first one. -/
def emitItems (sepsBefore seps : List Tk) : Bool → List (List Tk) → List Tk
  | _, [] => []
  | true, it :: rest => sepsBefore ++ it ++ emitItems sepsBefore seps false rest
  | false, it :: rest => seps ++ it ++ emitItems sepsBefore seps false rest

def emit : Piece → List Tk
  | .lit t => [t]
  | .child ts => ts
  | .optL _ none => []
  | .optL seps (some c) => seps ++ c
  | .optR _ none => []
  | .optR seps (some c) => c ++ seps
  | .rep ph sb s items => ph :: emitItems sb s true items

/-- The whole constructor: concatenation in recipe order. -/
def assemble (ps : List Piece) : List Tk := ps.flatMap emit

/-- The tokens owned by the tree (children and placeholders), in document order. -/
def owned : Piece → List Tk
  | .lit _ => []
  | .child ts => ts
  | .optL _ none => []
  | .optL _ (some c) => c
  | .optR _ none => []
  | .optR _ (some c) => c
  | .rep ph _ _ items => ph :: items.flatten

def textOf (ts : List Tk) : List Char := (ts.map (·.text)).flatten

end Autobean.Construct
