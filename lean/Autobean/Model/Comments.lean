/-
Model of block-comment attribution:
  `autobean_refactor/models/internal/surrounding_comments.py`  (`_take_ignored`, `_claim_comment`,
      `claim_leading_comment`, `unclaim_leading_comment`, `claim_trailing_comment`, `unclaim_trailing_comment`)
  `autobean_refactor/models/internal/interleaving_comments.py` (`_shift_ignored`, `_CommentClaimer._find_outer`,
      `_find_inner`, `claim`, `unclaim_interleaving_comments`)
as transformations of a token list (the abstract store of DESIGN.md §3.2; C07 licenses the abstraction).

Conventions
* A store is a `List Tk` with pairwise distinct ids.  `get_next`/`get_prev` walks are rendered by splitting the
  store at the start token: the tokens met by `succ, succ∘succ, …` are `post` (forwards) or `pre.reverse`
  (backwards).
* Python raising = `Except.error tag` (`"claimed"`, `"notfound"`); `"not-in-store"`, `"bad-range"`, `"bad-span"`
  are refusals of the model for inputs the real code is never given (ids that are not in the store, item spans
  that are not laid out in store order).
* Ownership slots are data (`Owner`); the tree itself is not modelled here: the caller supplies the first/last
  token ids the generated code would read (`self.first_token`, `self.last_token`, item spans).
-/
namespace Autobean.Comments

inductive Kind
  | placeholder   -- PLACEHOLDER (always empty text)
  | newline       -- _NEWLINE
  | whitespace    -- WHITESPACE
  | blockComment  -- BLOCK_COMMENT
  | mark          -- zero-width marks: EOL, INDENT_MARK, DEDENT_MARK
  | other         -- any significant token
deriving DecidableEq, Repr, Inhabited

structure Tk where
  id : Nat
  kind : Kind
  text : List Char
  claimed : Bool
deriving DecidableEq, Repr, Inhabited

abbrev Store := List Tk

/-- A token with visible text (`token.raw_text` non-empty). -/
def visible (t : Tk) : Bool := !t.text.isEmpty

def textOf (s : Store) : List Char := (s.map (·.text)).flatten

/-- What an observer of the document sees of a token: identity and text. -/
def Tk.key (t : Tk) : Nat × List Char := (t.id, t.text)

/-- Everything of a token except the `claimed` flag. -/
def Tk.core (t : Tk) : Nat × Kind × List Char := (t.id, t.kind, t.text)

def isPh (t : Tk) : Bool := t.kind = .placeholder

/-- `isinstance(token, Newline | Whitespace) or not token.raw_text` -/
def skippable (t : Tk) : Bool := t.kind = .newline || t.kind = .whitespace || t.text.isEmpty

/-- Split the store at the token with the given id: `(before, token, after)`. -/
def splitAt? (id : Nat) : Store → Option (List Tk × Tk × List Tk)
  | [] => none
  | t :: ts =>
    if t.id = id then some ([], t, ts)
    else match splitAt? id ts with
      | none => none
      | some (a, x, b) => some (t :: a, x, b)

/-- `comment.claimed = b` for the block comment with this id. -/
def setFlag (id : Nat) (b : Bool) (s : Store) : Store :=
  s.map fun t => if t.kind = .blockComment ∧ t.id = id then { t with claimed := b } else t

/-- `item.claimed = b` for every block comment whose id is listed. -/
def setFlags (ids : List Nat) (b : Bool) (s : Store) : Store :=
  s.map fun t => if t.kind = .blockComment ∧ t.id ∈ ids then { t with claimed := b } else t

/-- `_take_ignored(token, succ, ignored)`: `walk` is `token, succ(token), …`; placeholders are appended to
`ignored`; the head of the returned walk is the returned token (`[]` = `None`). -/
def takeIgnored : List Tk → List Tk → List Tk × List Tk
  | [], ign => (ign, [])
  | t :: ts, ign => if isPh t then takeIgnored ts (ign ++ [t]) else (ign, t :: ts)

/-- `_claim_comment(None, token_store, start, backwards=…, ignore_if_already_claimed=…)`.
Returns the new store and the claimed comment's id (`none` = the Python returned `None`). -/
def claimComment (backwards ignoreClaimed : Bool) (start : Nat) (s : Store) : Except String (Store × Option Nat) :=
  match splitAt? start s with
  | none => .error "not-in-store"
  | some (pre, st, post) =>
    -- first = succ(start); if first is None: return None
    let walk := if backwards then pre.reverse else post
    match takeIgnored walk [] with
    | (_, []) => .ok (s, none)                       -- newline is None (or first is None)
    | (ign1, nl :: r2) =>
      if nl.kind ≠ .newline then .ok (s, none) else
      match takeIgnored r2 ign1 with
      | (_, []) => .ok (s, none)
      | (ign, c :: r4) =>
        if c.kind ≠ .blockComment then .ok (s, none) else
        if c.claimed then (if ignoreClaimed then .ok (s, none) else .error "claimed") else
        let c' : Tk := { c with claimed := true }
        if ign.isEmpty then
          -- no splice: the walk was `nl, c, …`; only the flag changes
          if backwards then .ok (r4.reverse ++ [c', nl] ++ st :: post, some c.id)
          else .ok (pre ++ st :: [nl, c'] ++ r4, some c.id)
        else if backwards then
          -- token_store.splice([*reversed(ignored), comment, newline], comment, first)
          .ok (r4.reverse ++ (ign.reverse ++ [c', nl]) ++ st :: post, some c.id)
        else
          -- token_store.splice([newline, comment, *ignored], first, comment)
          .ok (pre ++ st :: ([nl, c'] ++ ign) ++ r4, some c.id)

/-- `_shift_ignored(token_store, first, last, backwards=…)`: inside the range `first..last` (inclusive, in
store order) all placeholders move to the front (`backwards`) or to the back. -/
def shiftIgnored (first last : Nat) (backwards : Bool) (s : Store) : Except String Store :=
  match splitAt? first s with
  | none => .error "not-in-store"
  | some (a, f, rest) =>
    match splitAt? last (f :: rest) with
    | none => .error "bad-range"
    | some (mid, l, b) =>
      let range := mid ++ [l]
      let ignored := range.filter isPh
      let others := range.filter (fun t => !isPh t)
      if ignored.isEmpty then .ok s
      else if backwards then .ok (a ++ (ignored ++ others) ++ b)
      else .ok (a ++ (others ++ ignored) ++ b)

/-- `_CommentClaimer._find_outer(start, succ, limit=…)`: `walk` is `succ(start), succ(succ(start)), …`,
`prev` the token before the head.  Walks over newlines, whitespace and zero-width tokens, stops at a claimed
comment, at any other token and after `limit`. -/
def findOuter (inSet : Nat → Bool) (limit : Nat) : Nat → List Tk → List Tk
  | _, [] => []
  | prev, t :: ts =>
    if prev = limit then []
    else if skippable t then findOuter inSet limit t.id ts
    else if t.kind = .blockComment then
      if t.claimed then []
      else (if inSet t.id then [t] else []) ++ findOuter inSet limit t.id ts
    else []

/-- An entry of `Repeated.items`: a model spanning `first..last`, or a block comment token (`first = last`). -/
structure Item where
  first : Nat
  last : Nat
  isComment : Bool
deriving DecidableEq, Repr, Inhabited

def commentItem (t : Tk) : Item := ⟨t.id, t.id, true⟩

/-- Unclaimed comments of a gap that are to be claimed. -/
def gapComments (inSet : Nat → Bool) (gap : List Tk) : List Tk :=
  gap.filter fun t => t.kind = .blockComment && inSet t.id && !t.claimed

/-- `_CommentClaimer._find_inner`: `cur` are the tokens from the current start on.  For every item: yield the
unclaimed comments before `item.first_token`, then the item; continue after `item.last_token`.
Returns the yielded sequence and the tokens after the last item. -/
def findInner (inSet : Nat → Bool) : List Tk → List Item → Except String (List Item × List Tk)
  | cur, [] => .ok ([], cur)
  | cur, it :: its =>
    let gap := cur.takeWhile (fun t => t.id != it.first)
    let rest := cur.dropWhile (fun t => t.id != it.first)
    match splitAt? it.last rest with
    | none => .error "bad-span"
    | some (_, _, after) =>
      match findInner inSet after its with
      | .error e => .error e
      | .ok (ys, left) => .ok ((gapComments inSet gap).map commentItem ++ it :: ys, left)

def nextOf (id : Nat) (s : Store) : Option Nat :=
  match splitAt? id s with
  | some (_, _, n :: _) => some n.id
  | _ => none

structure InterOut where
  store : Store
  items : List Item
  comments : List Nat
deriving Repr

def itemCommentIds (items : List Item) : List Nat := (items.filter (·.isComment)).map (·.first)

/-- `if comments_before: _shift_ignored(store, comments_before[0], repeated.first_token, backwards=True)` -/
def shiftBefore (before : List Tk) (ph : Nat) (s : Store) : Except String Store :=
  match before with
  | [] => .ok s
  | b :: _ => shiftIgnored b.id ph true s

/-- `if comments_after: first = get_next(repeated.last_token); _shift_ignored(store, first, comments_after[-1],
backwards=False)` -/
def shiftAfter (after : List Tk) (lastId : Nat) (s : Store) : Except String Store :=
  match after.getLast? with
  | none => .ok s
  | some l =>
    match nextOf lastId s with
    | none => .error "assert"
    | some f => shiftIgnored f l.id false s

/-- Membership in `_comments_to_claim` (`none` = `_Universe`). -/
def inSetOf (set : Option (List Nat)) : Nat → Bool :=
  fun i => match set with | none => true | some l => l.contains i

/-- `_comments_to_claim` after the three scans: every yielded comment (before, inner, after) and every comment item
has been discarded (`_find_outer` discards since `fix:` ddcb44f). -/
def remainingOf (set : Option (List Nat)) (yielded : List Item) : List Nat :=
  match set with
  | none => []
  | some l => l.filter fun i => !((itemCommentIds yielded).contains i)

/-- What the three scans of `claim()` produce. -/
structure Scan where
  before : List Tk      -- comments_before (store order)
  inner : List Item     -- items_inner
  left : List Tk        -- tokens after `repeated.last_token`
  after : List Tk       -- comments_after
  lastId : Nat          -- `repeated.last_token`

/-- `repeated.last_token`: the last item's last token, or the placeholder. -/
def lastIdOf (ph : Nat) (items : List Item) : Nat :=
  match items.getLast? with
  | some it => it.last
  | none => ph

/-- `comments_before`, `items_inner`, `comments_after` of `_CommentClaimer.claim`. -/
def scanComments (inSet : Nat → Bool) (ph : Nat) (items : List Item) (mfirst mlast : Nat) (s : Store) :
    Except String Scan :=
  match splitAt? ph s with
  | none => .error "not-in-store"
  | some (pre, _, post) =>
    match findInner inSet post items with
    | .error e => .error e
    | .ok (inner, left) =>
      let lastId := lastIdOf ph items
      .ok { before := (findOuter inSet mfirst ph pre.reverse).reverse, inner := inner, left := left,
            after := findOuter inSet mlast lastId left, lastId := lastId }

/-- `_CommentClaimer(repeated, notify, model, comments).claim()`.
`ph` = `repeated.first_token`, `items` = `repeated.items`, `mfirst`/`mlast` = `model.first_token`/`last_token`,
`set` = ids of `comments` (`none` = the universe). -/
def claimInterleaving (ph : Nat) (items : List Item) (mfirst mlast : Nat) (set : Option (List Nat))
    (s : Store) : Except String InterOut :=
  match scanComments (inSetOf set) ph items mfirst mlast s with
  | .error e => .error e
  | .ok sc =>
    if !(remainingOf set (sc.before.map commentItem ++ sc.inner ++ sc.after.map commentItem)).isEmpty then .error "notfound" else
    match shiftBefore sc.before ph s with
    | .error e => .error e
    | .ok s1 =>
      match shiftAfter sc.after sc.lastId s1 with
      | .error e => .error e
      | .ok s2 =>
        let items' := sc.before.map commentItem ++ sc.inner ++ sc.after.map commentItem
        let cids := itemCommentIds items'
        .ok { store := setFlags cids true s2, items := items', comments := cids }

structure UnclaimOut where
  store : Store
  items : List Item
  comments : List Nat
deriving Repr

/-- `unclaim_interleaving_comments(comments)`: comment items (all, or those in `set`) leave `items` and lose
their flag.  The not-found check comes first, flags are cleared afterwards (order of the repaired source,
`fix:` ce88e6c), so a refused call has no effect. -/
def unSel (set : Option (List Nat)) (it : Item) : Bool := it.isComment && inSetOf set it.first

def unRemaining (set : Option (List Nat)) (un : List Nat) : List Nat :=
  match set with
  | none => []
  | some l => l.filter fun i => !(un.contains i)

def unclaimInterleaving (items : List Item) (set : Option (List Nat)) (s : Store) : Except String UnclaimOut :=
  let un := (items.filter (unSel set)).map (·.first)
  if !(unRemaining set un).isEmpty then .error "notfound"
  else .ok { store := setFlags un false s, items := items.filter (fun it => !unSel set it), comments := un }

/-! ### Ownership slots -/

inductive Owner
  | leading (node : Nat)
  | trailing (node : Nat)
  | item (rep : Nat) (idx : Nat)
deriving DecidableEq, Repr

/-- A document as far as attribution is concerned: the store, the filled leading/trailing slots
(`node ↦ comment id`) and the items of every repeated field that may hold comments. -/
structure Doc where
  store : Store
  leading : List (Nat × Nat)
  trailing : List (Nat × Nat)
  reps : List (Nat × List Item)
deriving Repr

def lookup (n : Nat) : List (Nat × Nat) → Option Nat
  | [] => none
  | (k, v) :: r => if k = n then some v else lookup n r

/-- Remove the first binding of `n`. -/
def eraseKey (n : Nat) : List (Nat × Nat) → List (Nat × Nat)
  | [] => []
  | (k, v) :: r => if k = n then r else (k, v) :: eraseKey n r

def repItems (r : Nat) : List (Nat × List Item) → List Item
  | [] => []
  | (k, v) :: rest => if k = r then v else repItems r rest

/-- Replace the items of the first entry `r` (add the entry if absent and there is something to record). -/
def setRep (r : Nat) (items : List Item) : List (Nat × List Item) → List (Nat × List Item)
  | [] => if items.isEmpty then [] else [(r, items)]
  | (k, v) :: rest => if k = r then (k, items) :: rest else (k, v) :: setRep r items rest

def itemOwners (r : Nat) : Nat → List Item → List (Owner × Nat)
  | _, [] => []
  | k, it :: its => (if it.isComment then [(Owner.item r k, it.first)] else []) ++ itemOwners r (k + 1) its

/-- All filled ownership slots with the comment they hold. -/
def owners (d : Doc) : List (Owner × Nat) :=
  d.leading.map (fun p => (Owner.leading p.1, p.2)) ++
  d.trailing.map (fun p => (Owner.trailing p.1, p.2)) ++
  d.reps.flatMap (fun p => itemOwners p.1 0 p.2)

/-- The comment ids held by slots, with multiplicity. -/
def owned (d : Doc) : List Nat :=
  d.leading.map (·.2) ++ d.trailing.map (·.2) ++ d.reps.flatMap (fun p => itemCommentIds p.2)

/-- `claim_leading_comment(ignore_if_already_claimed=…)` of node `n` whose `first_token` is `start`.
Returns the new document and the slot content. -/
def claimLeading (n start : Nat) (ignoreClaimed : Bool) (d : Doc) : Except String (Doc × Option Nat) :=
  match lookup n d.leading with
  | some c => .ok (d, some c)          -- `if current is not None: return current`
  | none =>
    match claimComment true ignoreClaimed start d.store with
    | .error e => .error e
    | .ok (s, none) => .ok ({ d with store := s }, none)
    | .ok (s, some c) => .ok ({ d with store := s, leading := (n, c) :: d.leading }, some c)

/-- `claim_trailing_comment(ignore_if_already_claimed=…)` of node `n` whose `last_token` is `start`. -/
def claimTrailing (n start : Nat) (ignoreClaimed : Bool) (d : Doc) : Except String (Doc × Option Nat) :=
  match lookup n d.trailing with
  | some c => .ok (d, some c)
  | none =>
    match claimComment false ignoreClaimed start d.store with
    | .error e => .error e
    | .ok (s, none) => .ok ({ d with store := s }, none)
    | .ok (s, some c) => .ok ({ d with store := s, trailing := (n, c) :: d.trailing }, some c)

/-- `unclaim_leading_comment()`: clears the flag and the slot together. -/
def unclaimLeading (n : Nat) (d : Doc) : Doc × Option Nat :=
  match lookup n d.leading with
  | none => (d, none)
  | some c => ({ d with store := setFlag c false d.store, leading := eraseKey n d.leading }, some c)

def unclaimTrailing (n : Nat) (d : Doc) : Doc × Option Nat :=
  match lookup n d.trailing with
  | none => (d, none)
  | some c => ({ d with store := setFlag c false d.store, trailing := eraseKey n d.trailing }, some c)

/-- `wrapper.claim_interleaving_comments(comments)` on repeated field `r`. -/
def claimInter (r ph mfirst mlast : Nat) (set : Option (List Nat)) (d : Doc) : Except String (Doc × List Nat) :=
  match claimInterleaving ph (repItems r d.reps) mfirst mlast set d.store with
  | .error e => .error e
  | .ok o => .ok ({ d with store := o.store, reps := setRep r o.items d.reps }, o.comments)

/-- `wrapper.unclaim_interleaving_comments(comments)` on repeated field `r`. -/
def unclaimInter (r : Nat) (set : Option (List Nat)) (d : Doc) : Except String (Doc × List Nat) :=
  match unclaimInterleaving (repItems r d.reps) set d.store with
  | .error e => .error e
  | .ok o => .ok ({ d with store := o.store, reps := setRep r o.items d.reps }, o.comments)

/-- One attribution call with the token ids the generated code reads at that moment. -/
inductive Call
  | claimLeading (n start : Nat) (ignoreClaimed : Bool)
  | claimTrailing (n start : Nat) (ignoreClaimed : Bool)
  | unclaimLeading (n : Nat)
  | unclaimTrailing (n : Nat)
  | claimInter (r ph mfirst mlast : Nat) (set : Option (List Nat))
  | unclaimInter (r : Nat) (set : Option (List Nat))
deriving Repr

/-- A raising call leaves the document as it was (all model refusals happen before any effect). -/
def runCall (d : Doc) : Call → Doc
  | .claimLeading n st ig => match claimLeading n st ig d with | .ok (d', _) => d' | .error _ => d
  | .claimTrailing n st ig => match claimTrailing n st ig d with | .ok (d', _) => d' | .error _ => d
  | .unclaimLeading n => (unclaimLeading n d).1
  | .unclaimTrailing n => (unclaimTrailing n d).1
  | .claimInter r ph mf ml set => match claimInter r ph mf ml set d with | .ok (d', _) => d' | .error _ => d
  | .unclaimInter r set => match unclaimInter r set d with | .ok (d', _) => d' | .error _ => d

/-- `auto_claim_comments()` is a sequence of claim calls (self leading, self trailing, children last to first,
then the interleaving claim of every repeated field with comments), each with the ids read at that moment. -/
def autoClaim (d : Doc) (calls : List Call) : Doc := calls.foldl runCall d

/-- The calls `auto_claim_comments` issues: `ignore_if_already_claimed=True`, no explicit comment set. -/
def Call.isAuto : Call → Bool
  | .claimLeading _ _ ig => ig
  | .claimTrailing _ _ ig => ig
  | .claimInter _ _ _ _ set => set.isNone
  | _ => false

end Autobean.Comments
