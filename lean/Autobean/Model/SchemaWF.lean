/-
Decidable well-formedness predicates over the class table extracted from
`autobean_refactor/models/generated/*.py` (DESIGN §2.2): the facts about the *generated per-class code*
that the generic tree theorems (C05, C11, C20) rely on and that `Model/Tree.lean` builds in once and for
all.  `lean/Autobean/Obligations/*.lean` discharges them for the regenerated table by `decide`.

Conventions for the table (one `ClassSchema` per generated class):

* `fields`         the `internal.field` attributes in constructor order, i.e. `_leading_comment` first and
                   `_trailing_comment` last when the class has `SurroundingCommentsMixin`, the class's own
                   fields in declaration order in between (`intro.class_fields`).  `kind`: 0 required,
                   1 optional-left, 2 optional-right, 3 repeated.
* `hasIndentBy`    the class declares `indent_by = internal.data_field[str]()`.
* `eqFields`       for every conjunct `self.X == other.X` of `_eq`, the attribute name `X`, in source order
                   (the leading `isinstance(other, C)` is not listed).
* `cloneFields`    for every positional argument `type(self).X.clone(self.X, token_store, token_transformer)` of the
                   constructor call in `clone`, the name `X`, in order; then `indent_by` when passed as
                   `indent_by=self.indent_by`.
* `reattachFields` the targets `X` of the assignments `self.X = …` in `_reattach`, in order (the first one is
                   `_token_store`).

The three predicates say that the generated method names **every** field, in declaration order, plus the
extra item the method needs — so a field forgotten in `_eq` (two models differing only there compare equal),
passed un-cloned or dropped in `clone` (shared or missing child in a copy) or not re-attached in `_reattach`
(stale store pointer) makes the obligation `false` and names the class.
-/
namespace Autobean

structure FieldDecl where
  name : String
  kind : Nat
deriving DecidableEq, Repr

structure ClassSchema where
  name : String
  fields : List FieldDecl
  hasIndentBy : Bool
  eqFields : List String
  cloneFields : List String
  reattachFields : List String
deriving DecidableEq, Repr

namespace ClassSchema

def fieldNames (c : ClassSchema) : List String := c.fields.map (·.name)

/-- `indent_by` when the class has it. -/
def indentByName (c : ClassSchema) : List String := if c.hasIndentBy then ["indent_by"] else []

/-- `_eq` compares every field in declaration order, then `indent_by` when the class has it. -/
def eqComplete (c : ClassSchema) : Bool := c.eqFields == c.fieldNames ++ c.indentByName

/-- `clone` clones every field in declaration order, then passes `indent_by` when the class has it. -/
def cloneComplete (c : ClassSchema) : Bool := c.cloneFields == c.fieldNames ++ c.indentByName

/-- `_reattach` assigns `_token_store`, then re-attaches every field in declaration order. -/
def reattachComplete (c : ClassSchema) : Bool := c.reattachFields == "_token_store" :: c.fieldNames

/-- No field is declared twice and every kind is one of the four. -/
def fieldsWF (c : ClassSchema) : Bool := c.fieldNames.Nodup && c.fields.all (·.kind < 4)

/-- Everything the tree theorems need from one class. -/
def treeWF (c : ClassSchema) : Bool := c.fieldsWF && c.eqComplete && c.cloneComplete && c.reattachComplete

end ClassSchema

/-- The first class (by name) that fails a predicate — for readable obligation failures. -/
def firstFailing (p : ClassSchema → Bool) (cs : List ClassSchema) : Option String :=
  (cs.find? fun c => !p c).map (·.name)

def allEqComplete (cs : List ClassSchema) : Bool := cs.all ClassSchema.eqComplete
def allCloneComplete (cs : List ClassSchema) : Bool := cs.all ClassSchema.cloneComplete
def allReattachComplete (cs : List ClassSchema) : Bool := cs.all ClassSchema.reattachComplete
def allTreeWF (cs : List ClassSchema) : Bool := cs.all ClassSchema.treeWF

theorem firstFailing_none_iff (p : ClassSchema → Bool) (cs : List ClassSchema) :
    firstFailing p cs = none ↔ cs.all p = true := by
  simp [firstFailing, List.find?_eq_none]

/-! Non-vacuity: the `Open` class as it stands in `models/generated/open.py`, and the three mutants the
predicates are there to catch. -/

def exampleOpen : ClassSchema where
  name := "Open"
  fields := [⟨"_leading_comment", 2⟩, ⟨"_date", 0⟩, ⟨"_label", 0⟩, ⟨"_account", 0⟩, ⟨"_currencies", 3⟩,
    ⟨"_booking", 1⟩, ⟨"_inline_comment", 1⟩, ⟨"_eol", 0⟩, ⟨"_meta", 3⟩, ⟨"_dedent_mark", 1⟩,
    ⟨"_trailing_comment", 1⟩]
  hasIndentBy := true
  eqFields := ["_leading_comment", "_date", "_label", "_account", "_currencies", "_booking", "_inline_comment",
    "_eol", "_meta", "_dedent_mark", "_trailing_comment", "indent_by"]
  cloneFields := ["_leading_comment", "_date", "_label", "_account", "_currencies", "_booking", "_inline_comment",
    "_eol", "_meta", "_dedent_mark", "_trailing_comment", "indent_by"]
  reattachFields := ["_token_store", "_leading_comment", "_date", "_label", "_account", "_currencies", "_booking",
    "_inline_comment", "_eol", "_meta", "_dedent_mark", "_trailing_comment"]

example : exampleOpen.treeWF = true := by decide
/-- `_eq` without `self._booking == other._booking` fails `eqComplete`. -/
example : ({ exampleOpen with eqFields := exampleOpen.eqFields.filter (· ≠ "_booking") }).eqComplete = false := by
  decide
/-- `_reattach` that skips `_meta` fails `reattachComplete`. -/
example : ({ exampleOpen with reattachFields := exampleOpen.reattachFields.filter (· ≠ "_meta") }).reattachComplete
    = false := by decide
/-- `clone` that does not pass `indent_by` fails `cloneComplete`. -/
example : ({ exampleOpen with cloneFields := exampleOpen.cloneFields.filter (· ≠ "indent_by") }).cloneComplete
    = false := by decide

end Autobean
